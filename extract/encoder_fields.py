"""Regenerates lean/HapModel/Gen/EncoderFields.lean from the code under check.

The state file is a JSON object; which member carries which field is a table inside
`AccessoryEncoder.persist` (the dict literal handed to json.dump) and a second, independent table
inside `AccessoryEncoder.load_into` (the subscripts / .get() / `in` tests on the loaded dict).  The
two tables are regenerated on every run by PROBING the two functions of the tree under check (robust
against refactorings of their text):

  persist side  a State with a distinctive value in every persisted field is saved; the member whose
                value carries a field's sentinel is the member that field is written to;
  load side     for every member of that document the value is replaced by a second sentinel of the
                same shape and the document is loaded into a fresh State; the field that comes back
                with the second sentinel is the field that member is read into.

Also regenerated: CLIENT_PROP_PERMS (the key inside a client_properties value), MAX_CONFIG_VERSION
and DEFAULT_CONFIG_VERSION from pyhap/const.py.  The theorems `C14_field_names` /
`C14_roundtrip_file` in lean/Props/C14.lean are stated over this table (`decide` + a lemma that is
generic in the names), so a member renamed, dropped or swapped on one side only breaks a proof
obligation of the run.
"""
from __future__ import annotations

import copy
import io
import json
from pathlib import Path
from typing import Any, Dict, List, Tuple

ROLES = ["mac", "config_version", "paired_clients", "client_properties", "accessories_hash",
         "client_uuid_to_bytes", "private_key", "public_key"]


def _probe() -> Tuple[List[Tuple[str, str]], List[Tuple[str, str]], Dict[str, Any]]:
    import uuid

    from cryptography.hazmat.primitives import serialization as ser
    from cryptography.hazmat.primitives.asymmetric import ed25519

    from pyhap import const
    from pyhap.encoder import AccessoryEncoder
    from pyhap.state import State

    consts = {"permKey": const.CLIENT_PROP_PERMS, "maxConfigVersion": const.MAX_CONFIG_VERSION,
              "defaultConfigVersion": const.DEFAULT_CONFIG_VERSION}
    pk = consts["permKey"]
    u = uuid.UUID(int=0xA1A2A3A4A5A6A7A8A9AAABACADAEAFB0)

    def raw_priv(k):
        return k.private_bytes(ser.Encoding.Raw, ser.PrivateFormat.Raw, ser.NoEncryption())

    def raw_pub(k):
        return k.public_bytes(ser.Encoding.Raw, ser.PublicFormat.Raw)

    sk1 = ed25519.Ed25519PrivateKey.from_private_bytes(bytes(range(1, 33)))
    sk2 = ed25519.Ed25519PrivateKey.from_private_bytes(bytes(range(101, 133)))
    sk3 = ed25519.Ed25519PrivateKey.from_private_bytes(bytes(range(51, 83)))
    sk4 = ed25519.Ed25519PrivateKey.from_private_bytes(bytes(range(151, 183)))

    def fresh():
        return State(address="127.0.0.1", mac="00:00:00:00:00:00", pincode=b"031-45-154", port=51826)

    st = fresh()
    st.mac = "PROBE-MAC"
    st.config_version = 31337
    st.accessories_hash = "PROBE-HASH"
    st.paired_clients = {u: b"\x11" * 32}
    st.client_properties = {u: {pk: 77}}
    st.uuid_to_bytes = {u: b"PROBE-ID"}
    st.private_key = sk1
    st.public_key = sk2.public_key()  # deliberately unrelated: the two members are told apart by value
    buf = io.StringIO()
    AccessoryEncoder.persist(buf, st)
    doc = json.loads(buf.getvalue())

    def flat(v):
        return json.dumps(v, sort_keys=True)

    first = {
        "mac": lambda v: v == "PROBE-MAC",
        "config_version": lambda v: v == 31337 and not isinstance(v, bool),
        "accessories_hash": lambda v: v == "PROBE-HASH",
        "paired_clients": lambda v: isinstance(v, dict) and ("11" * 32) in flat(v),
        "client_properties": lambda v: isinstance(v, dict) and "77" in flat(v) and "11" * 32 not in flat(v),
        "client_uuid_to_bytes": lambda v: isinstance(v, dict) and b"PROBE-ID".hex() in flat(v),
        "private_key": lambda v: v == raw_priv(sk1).hex(),
        "public_key": lambda v: v == raw_pub(sk2.public_key()).hex(),
    }
    persist_names: List[Tuple[str, str]] = []
    for member, value in doc.items():
        roles = [r for r in ROLES if first[r](value)]
        persist_names.append((roles[0] if len(roles) == 1 else f"?{'+'.join(roles) or 'unrecognised'}", member))

    # load side
    second = {
        "mac": "PROBE-MAC2", "config_version": 4242, "accessories_hash": "PROBE-HASH2",
        "paired_clients": {str(u): (b"\x22" * 32).hex()}, "client_properties": {str(u): {pk: 78}},
        "client_uuid_to_bytes": {str(u): b"PROBE-ID2".hex()},
        "private_key": raw_priv(sk3).hex(), "public_key": raw_pub(sk4.public_key()).hex(),
    }
    came_back = {
        "mac": lambda s: s.mac == "PROBE-MAC2",
        "config_version": lambda s: s.config_version == 4242,
        "accessories_hash": lambda s: s.accessories_hash == "PROBE-HASH2",
        "paired_clients": lambda s: s.paired_clients.get(u) == b"\x22" * 32,
        "client_properties": lambda s: s.client_properties.get(u) == {pk: 78},
        "client_uuid_to_bytes": lambda s: s.uuid_to_bytes.get(u) == b"PROBE-ID2",
        "private_key": lambda s: raw_priv(s.private_key) == raw_priv(sk3),
        "public_key": lambda s: raw_pub(s.public_key) == raw_pub(sk4.public_key()),
    }
    load_names: List[Tuple[str, str]] = []
    try:
        AccessoryEncoder.load_into(io.StringIO(json.dumps(doc)), fresh())
    except Exception as ex:  # noqa: BLE001  the document just saved does not load: the tables cannot agree
        return persist_names, [("?load-error", f"{type(ex).__name__}: {ex}"[:80])], consts
    for role_w, member in persist_names:
        if role_w.startswith("?"):
            load_names.append((role_w, member))
            continue
        d2 = copy.deepcopy(doc)
        d2[member] = second[role_w]
        s2 = fresh()
        try:
            AccessoryEncoder.load_into(io.StringIO(json.dumps(d2)), s2)
        except Exception as ex:  # noqa: BLE001
            load_names.append((f"?load-error-{type(ex).__name__}", member))
            continue
        roles = [r for r in ROLES if came_back[r](s2)]
        load_names.append((roles[0] if len(roles) == 1 else f"?{'+'.join(roles) or 'not-read'}", member))
    return persist_names, load_names, consts


def _q(s: str) -> str:
    return '"' + str(s).replace("\\", "\\\\").replace('"', '\\"') + '"'


def render(persist_names, load_names, consts) -> str:
    def table(t):
        return "[" + ", ".join(f"({_q(r)}, {_q(m)})" for r, m in t) + "]"

    return "\n".join([
        "/- GENERATED by extract/encoder_fields.py by probing AccessoryEncoder.persist / load_into of the tree",
        "   under check (field ↦ member name of the state file) and from pyhap/const.py — do not edit. -/",
        "namespace Hap.Gen.EncoderFields",
        "/-- field ↦ the member `persist` writes it to, in the order of the file -/",
        f"def persistNames : List (String × String) := {table(persist_names)}",
        "/-- field ↦ the member `load_into` reads it from -/",
        f"def loadNames : List (String × String) := {table(load_names)}",
        f"def permKey : String := {_q(consts['permKey'])}",
        f"def maxConfigVersion : Int := {int(consts['maxConfigVersion'])}",
        f"def defaultConfigVersion : Int := {int(consts['defaultConfigVersion'])}",
        "end Hap.Gen.EncoderFields",
    ]) + "\n"


def write(repo: Path, lean_dir: Path):
    try:
        p, l, c = _probe()
    except Exception as ex:  # noqa: BLE001  the probe itself could not run on this tree: the obligation fails, the run goes on
        p, l = [("?probe-error", f"{type(ex).__name__}: {ex}"[:80])], []
        c = {"permKey": "permissions", "maxConfigVersion": 65535, "defaultConfigVersion": 1}
    text = render(p, l, c)
    f = lean_dir / "HapModel" / "Gen" / "EncoderFields.lean"
    f.parent.mkdir(parents=True, exist_ok=True)
    if not f.exists() or f.read_text() != text:
        f.write_text(text)
    return p, l, c


if __name__ == "__main__":
    import sys

    print(write(Path(sys.argv[1] if len(sys.argv) > 1 else "/repo"), Path(__file__).resolve().parent.parent / "lean"))
