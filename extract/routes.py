"""Regenerate lean/HapModel/Gen/Routes.lean from pyhap/hap_handler.py (Python `ast`).

Emits, for every entry of `HAPServerHandler.HANDLERS`, the handler's *guard shape* (the first
effectful statement(s) of the handler method) and whether the handler can reach an assignment to
`self.is_encrypted`; plus the list of all assignments to an attribute `is_encrypted` in pyhap/*.py.
Anything the extractor cannot classify is `Guard.none` (conservative: the table theorem then fails).

Usage: python extract/routes.py [--print]      (honours $HAP_REPO)
"""
from __future__ import annotations

import ast
import os
import sys
from pathlib import Path
from typing import Dict, List, Optional, Tuple

REPO = Path(os.environ.get("HAP_REPO", "/repo"))
OUT = Path(__file__).resolve().parent.parent / "lean" / "HapModel" / "Gen" / "Routes.lean"


def _is_self_attr(node, name: str) -> bool:
    return (
        isinstance(node, ast.Attribute)
        and node.attr == name
        and isinstance(node.value, ast.Name)
        and node.value.id == "self"
    )


def _is_not_encrypted(node) -> bool:
    return isinstance(node, ast.UnaryOp) and isinstance(node.op, ast.Not) and _is_self_attr(node.operand, "is_encrypted")


def _is_docstring(stmt) -> bool:
    return isinstance(stmt, ast.Expr) and isinstance(stmt.value, ast.Constant) and isinstance(stmt.value.value, str)


def _assert_not_none_attr(stmt) -> Optional[str]:
    """`assert self.X is not None` -> "X" (a pure check, allowed before the guard)."""
    if not isinstance(stmt, ast.Assert):
        return None
    t = stmt.test
    if (
        isinstance(t, ast.Compare)
        and len(t.ops) == 1
        and isinstance(t.ops[0], ast.IsNot)
        and isinstance(t.comparators[0], ast.Constant)
        and t.comparators[0].value is None
        and isinstance(t.left, ast.Attribute)
        and isinstance(t.left.value, ast.Name)
        and t.left.value.id == "self"
    ):
        return t.left.attr
    return None


def _is_logger_call(stmt) -> bool:
    return (
        isinstance(stmt, ast.Expr)
        and isinstance(stmt.value, ast.Call)
        and isinstance(stmt.value.func, ast.Attribute)
        and isinstance(stmt.value.func.value, ast.Name)
        and stmt.value.func.value.id == "logger"
    )


def _self_call(stmt, name: str) -> Optional[ast.Call]:
    if (
        isinstance(stmt, ast.Expr)
        and isinstance(stmt.value, ast.Call)
        and _is_self_attr(stmt.value.func, name)
    ):
        return stmt.value
    return None


def _bare_return(stmt) -> bool:
    return isinstance(stmt, ast.Return) and stmt.value is None


def _const_byte(node, consts: Dict[str, Dict[str, bytes]]) -> Optional[int]:
    """HAP_TLV_STATES.M2 -> 2 (from the class constants of the module)."""
    if isinstance(node, ast.Attribute) and isinstance(node.value, ast.Name):
        v = consts.get(node.value.id, {}).get(node.attr)
        if isinstance(v, bytes) and len(v) == 1:
            return v[0]
    if isinstance(node, ast.Constant) and isinstance(node.value, bytes) and len(node.value) == 1:
        return node.value[0]
    return None


def classify_guard(fn: ast.FunctionDef, consts) -> Tuple[str, str]:
    """-> (lean term, human note)"""
    body = list(fn.body)
    if body and _is_docstring(body[0]):
        body = body[1:]
    asserted: List[str] = []
    while body:
        a = _assert_not_none_attr(body[0])
        if a is None:
            break
        asserted.append(a)
        body = body[1:]
    if not body or not isinstance(body[0], ast.If):
        return ".none", "first statement is not a privilege test"
    test, ibody = body[0].test, body[0].body
    # shape 1/2: `if not self.is_encrypted:`
    if _is_not_encrypted(test):
        if asserted:
            # only the admin shape is allowed to have asserts in front (keeps the model simple)
            return ".none", "assert before a plain privilege test (not modelled)"
        if len(ibody) == 1 and isinstance(ibody[0], ast.Raise) and ibody[0].exc is not None:
            exc = ibody[0].exc
            if isinstance(exc, ast.Call):
                exc = exc.func
            if isinstance(exc, ast.Name) and exc.id == "UnprivilegedRequestException":
                return ".raiseUnpriv", "raise UnprivilegedRequestException"
            return ".none", "raises something else"
        sends = 0
        ok = bool(ibody) and _bare_return(ibody[-1])
        for s in ibody[:-1]:
            if _is_logger_call(s):
                continue
            c = _self_call(s, "send_response")
            if (
                c is not None
                and len(c.args) == 1
                and isinstance(c.args[0], ast.Attribute)
                and c.args[0].attr == "UNAUTHORIZED"
            ):
                sends += 1
                continue
            ok = False
        if ok and sends == 1:
            return ".send401", "send_response(UNAUTHORIZED); return"
        return ".none", "unrecognised refusal body"
    # shape 3: `if not self.is_encrypted or <anything>:` auth-error TLV; return
    if (
        isinstance(test, ast.BoolOp)
        and isinstance(test.op, ast.Or)
        and _is_not_encrypted(test.values[0])
    ):
        if set(asserted) - {"client_uuid"}:
            return ".none", "unexpected assert before the admin test"
        if len(ibody) == 2 and _bare_return(ibody[1]):
            c = _self_call(ibody[0], "_send_authentication_error_tlv_response")
            if c is not None and len(c.args) == 1:
                seq = _const_byte(c.args[0], consts)
                if seq is not None:
                    a = "true" if "client_uuid" in asserted else "false"
                    return f"(.adminAuthErr {a} {seq})", "admin test -> authentication-error TLV; return"
        return ".none", "unrecognised admin refusal body"
    return ".none", "first test is not `not self.is_encrypted`"


def _class_consts(mod: ast.Module) -> Dict[str, Dict[str, bytes]]:
    res: Dict[str, Dict[str, bytes]] = {}
    for node in mod.body:
        if isinstance(node, ast.ClassDef):
            d = {}
            for s in node.body:
                if isinstance(s, ast.Assign) and len(s.targets) == 1 and isinstance(s.targets[0], ast.Name):
                    if isinstance(s.value, ast.Constant) and isinstance(s.value.value, bytes):
                        d[s.targets[0].id] = s.value.value
            res[node.name] = d
    return res


def _flag_writes(fn: ast.AST) -> List[str]:
    """values assigned to `<x>.is_encrypted` inside fn (source text of the value)"""
    out = []
    for n in ast.walk(fn):
        targets = []
        if isinstance(n, ast.Assign):
            targets = n.targets
            val = n.value
        elif isinstance(n, (ast.AugAssign, ast.AnnAssign)):
            targets = [n.target]
            val = n.value
        elif isinstance(n, ast.Delete):
            targets = n.targets
            val = None
        elif isinstance(n, ast.Call) and isinstance(n.func, ast.Name) and n.func.id in ("setattr", "delattr"):
            if len(n.args) >= 2 and isinstance(n.args[1], ast.Constant) and n.args[1].value == "is_encrypted":
                out.append("setattr")
            elif len(n.args) >= 2 and not isinstance(n.args[1], ast.Constant):
                out.append("setattr-dynamic")
            continue
        else:
            continue
        for t in targets:
            for tt in ast.walk(t):
                if isinstance(tt, ast.Attribute) and tt.attr == "is_encrypted":
                    out.append(ast.unparse(val) if val is not None else "<del>")
    return out


def extract() -> Dict:
    src = (REPO / "pyhap" / "hap_handler.py").read_text()
    mod = ast.parse(src)
    consts = _class_consts(mod)
    cls = next(n for n in mod.body if isinstance(n, ast.ClassDef) and n.name == "HAPServerHandler")
    methods = {n.name: n for n in cls.body if isinstance(n, (ast.FunctionDef, ast.AsyncFunctionDef))}
    handlers_node = None
    for s in cls.body:
        if isinstance(s, ast.Assign) and any(isinstance(t, ast.Name) and t.id == "HANDLERS" for t in s.targets):
            handlers_node = s.value
        if isinstance(s, ast.AnnAssign) and isinstance(s.target, ast.Name) and s.target.id == "HANDLERS":
            handlers_node = s.value
    table = ast.literal_eval(handlers_node)  # fails loudly if HANDLERS stops being a literal

    # which methods (transitively through self.<m>() calls) write self.is_encrypted
    def callees(fn):
        res = set()
        for n in ast.walk(fn):
            if isinstance(n, ast.Attribute) and isinstance(n.value, ast.Name) and n.value.id == "self" and n.attr in methods:
                res.add(n.attr)  # called or merely referenced: both count
        return res

    direct = {name: bool(_flag_writes(fn)) for name, fn in methods.items()}
    reach: Dict[str, bool] = {}
    for name in methods:
        seen, todo, hit = set(), [name], False
        while todo:
            m = todo.pop()
            if m in seen:
                continue
            seen.add(m)
            if direct[m]:
                hit = True
                break
            todo.extend(callees(methods[m]))
        reach[name] = hit

    routes = []
    for method, paths in table.items():
        for path, hname in paths.items():
            fn = methods.get(hname)
            if fn is None:
                guard, note, sets = ".none", "handler method not found", True
            else:
                guard, note = classify_guard(fn, consts)
                sets = reach[hname]
            routes.append(
                {"method": method, "path": path, "handler": hname, "guard": guard, "note": note, "sets": sets}
            )

    # every write to an attribute called is_encrypted anywhere in pyhap/
    writers = []
    for f in sorted((REPO / "pyhap").rglob("*.py")):
        try:
            m = ast.parse(f.read_text())
        except SyntaxError:
            continue
        rel = f.relative_to(REPO / "pyhap").as_posix()

        def visit(node, qual):
            for ch in ast.iter_child_nodes(node):
                if isinstance(ch, (ast.FunctionDef, ast.AsyncFunctionDef)):
                    for v in _flag_writes_shallow(ch):
                        writers.append((f"{rel}:{qual + ch.name}", v))
                    visit(ch, qual + ch.name + ".")
                elif isinstance(ch, ast.ClassDef):
                    visit(ch, qual + ch.name + ".")
                else:
                    visit(ch, qual)

        visit(m, "")
        for v in _flag_writes_toplevel(m):
            writers.append((f"{rel}:<module>", v))
    return {"routes": routes, "writers": writers}


def _flag_writes_shallow(fn) -> List[str]:
    """writes in fn itself, not in nested defs (those are reported under their own name)"""
    clone = ast.parse(ast.unparse(fn)).body[0]

    # drop nested function/class definitions
    class Strip(ast.NodeTransformer):
        def __init__(self):
            self.depth = 0

        def visit_FunctionDef(self, node):
            if self.depth == 0:
                self.depth += 1
                self.generic_visit(node)
                self.depth -= 1
                return node
            return ast.Pass()

        visit_AsyncFunctionDef = visit_FunctionDef

        def visit_ClassDef(self, node):
            return ast.Pass()

    return _flag_writes(Strip().visit(clone))


def _flag_writes_toplevel(mod: ast.Module) -> List[str]:
    class Strip(ast.NodeTransformer):
        def visit_FunctionDef(self, node):
            return ast.Pass()

        visit_AsyncFunctionDef = visit_FunctionDef

    return _flag_writes(Strip().visit(ast.parse(ast.unparse(mod))))


def _lean_str(s: str) -> str:
    return '"' + s.replace("\\", "\\\\").replace('"', '\\"') + '"'


def _lean_bytes(s: str) -> str:
    if all(0x20 <= ord(c) < 0x7F and c not in '"\\' for c in s):
        return f'asc "{s}"'
    return "[" + ", ".join(str(b) for b in s.encode()) + "]"


def render(data: Dict) -> str:
    lines = [
        "/- GENERATED by extract/routes.py from pyhap/hap_handler.py — do not edit. -/",
        "import HapModel.Dispatch",
        "namespace Hap.Http.Gen",
        "open Hap.Http",
        "",
        "/-- `HAPServerHandler.HANDLERS`, one row per (method, path), with the handler's guard shape. -/",
        "def routes : List Route := [",
    ]
    rows = []
    for r in data["routes"]:
        rows.append(
            "  { name := %s, method := %s, path := %s, handler := %s,\n"
            "    guard := %s, setsVerified := %s }  -- %s"
            % (
                _lean_str(f"{r['method']} {r['path']}"),
                _lean_bytes(r["method"]),
                _lean_bytes(r["path"]),
                _lean_str(r["handler"]),
                r["guard"],
                "true" if r["sets"] else "false",
                r["note"],
            )
        )
    # the trailing comment must come after the comma
    fixed = []
    for i, row in enumerate(rows):
        head, _, note = row.rpartition("  -- ")
        fixed.append(head + ("," if i + 1 < len(rows) else "") + "  -- " + note)
    lines += fixed
    lines += [
        "]",
        "",
        "/-- Every assignment to an attribute named `is_encrypted` in pyhap/*.py: (site, assigned value). -/",
        "def verifiedWriters : List (String × String) := [",
    ]
    w = data["writers"]
    for i, (site, val) in enumerate(w):
        lines.append(f"  ({_lean_str(site)}, {_lean_str(val)})" + ("," if i + 1 < len(w) else ""))
    lines += ["]", "", "end Hap.Http.Gen", ""]
    return "\n".join(lines)


def main(write: bool = True) -> Dict:
    data = extract()
    text = render(data)
    if write:
        OUT.parent.mkdir(parents=True, exist_ok=True)
        if not OUT.exists() or OUT.read_text() != text:
            OUT.write_text(text)
    return data


if __name__ == "__main__":
    d = main(write="--print" not in sys.argv)
    if "--print" in sys.argv:
        print(render(d))
