"""Regenerate lean/HapModel/Gen/Routes.lean from pyhap/hap_handler.py (Python `ast`).

Emits, for every entry of `HAPServerHandler.HANDLERS`, the handler's *guard shape* (the first
effectful statement(s) of the handler method) and whether the handler can reach an assignment to
`self.is_encrypted`; plus the list of all assignments to an attribute `is_encrypted` in pyhap/*.py.
Anything the extractor cannot classify is `Guard.none` (conservative: the table theorem then fails).

Usage: python extract/routes.py [--print]      (honours $HAP_REPO)
"""
from __future__ import annotations

import ast
import os
import sys
from pathlib import Path
from typing import Dict, List, Optional, Tuple

REPO = Path(os.environ.get("HAP_REPO", "/repo"))
OUT = Path(__file__).resolve().parent.parent / "lean" / "HapModel" / "Gen" / "Routes.lean"


def _is_self_attr(node, name: str) -> bool:
    return (
        isinstance(node, ast.Attribute)
        and node.attr == name
        and isinstance(node.value, ast.Name)
        and node.value.id == "self"
    )


def _is_not_encrypted(node) -> bool:
    return isinstance(node, ast.UnaryOp) and isinstance(node.op, ast.Not) and _is_self_attr(node.operand, "is_encrypted")


def _is_docstring(stmt) -> bool:
    return isinstance(stmt, ast.Expr) and isinstance(stmt.value, ast.Constant) and isinstance(stmt.value.value, str)


def _assert_not_none_attr(stmt) -> Optional[str]:
    """`assert self.X is not None` -> "X" (a pure check, allowed before the guard)."""
    if not isinstance(stmt, ast.Assert):
        return None
    t = stmt.test
    if (
        isinstance(t, ast.Compare)
        and len(t.ops) == 1
        and isinstance(t.ops[0], ast.IsNot)
        and isinstance(t.comparators[0], ast.Constant)
        and t.comparators[0].value is None
        and isinstance(t.left, ast.Attribute)
        and isinstance(t.left.value, ast.Name)
        and t.left.value.id == "self"
    ):
        return t.left.attr
    return None


def _is_logger_call(stmt) -> bool:
    return (
        isinstance(stmt, ast.Expr)
        and isinstance(stmt.value, ast.Call)
        and isinstance(stmt.value.func, ast.Attribute)
        and isinstance(stmt.value.func.value, ast.Name)
        and stmt.value.func.value.id == "logger"
    )


def _self_call(stmt, name: str) -> Optional[ast.Call]:
    if (
        isinstance(stmt, ast.Expr)
        and isinstance(stmt.value, ast.Call)
        and _is_self_attr(stmt.value.func, name)
    ):
        return stmt.value
    return None


def _bare_return(stmt) -> bool:
    return isinstance(stmt, ast.Return) and stmt.value is None


def _const_byte(node, consts: Dict[str, Dict[str, bytes]]) -> Optional[int]:
    """HAP_TLV_STATES.M2 -> 2 (from the class constants of the module)."""
    if isinstance(node, ast.Attribute) and isinstance(node.value, ast.Name):
        v = consts.get(node.value.id, {}).get(node.attr)
        if isinstance(v, bytes) and len(v) == 1:
            return v[0]
    if isinstance(node, ast.Constant) and isinstance(node.value, bytes) and len(node.value) == 1:
        return node.value[0]
    return None


def _short(stmt) -> str:
    try:
        t = ast.unparse(stmt).split("\n")[0]
    except Exception:  # noqa: BLE001
        t = type(stmt).__name__
    return t if len(t) <= 70 else t[:67] + "..."


def _is_encrypted(node) -> bool:
    return _is_self_attr(node, "is_encrypted")


def _refuse_test(test) -> bool:
    """True on every unverified connection, whatever else it mentions:
    `not self.is_encrypted` or `not self.is_encrypted or <anything>` (short-circuit)."""
    if _is_not_encrypted(test):
        return True
    return isinstance(test, ast.BoolOp) and isinstance(test.op, ast.Or) and _is_not_encrypted(test.values[0])


def _pass_test(test) -> bool:
    """False on every unverified connection: `self.is_encrypted` or `self.is_encrypted and <anything>`.
    (`self.is_encrypted or <x>` is NOT one: <x> can let an unverified connection through.)"""
    if _is_encrypted(test):
        return True
    return isinstance(test, ast.BoolOp) and isinstance(test.op, ast.And) and _is_encrypted(test.values[0])


def _is_unpriv_raise(stmt) -> bool:
    if not (isinstance(stmt, ast.Raise) and stmt.exc is not None):
        return False
    exc = stmt.exc.func if isinstance(stmt.exc, ast.Call) else stmt.exc
    return isinstance(exc, ast.Name) and exc.id == "UnprivilegedRequestException"


def _refusal(stmts, consts):
    """Straight-line statements executed on the refusing path, terminator excluded: nothing but logger
    calls and exactly one refusal response -> "send401" | ("admin", seq) | "nothing" | None."""
    core = [x for x in stmts if not _is_logger_call(x)]
    if not core:
        return "nothing"
    if len(core) != 1:
        return None
    c = _self_call(core[0], "send_response")
    if c is not None and len(c.args) == 1 and not c.keywords and isinstance(c.args[0], ast.Attribute) and c.args[0].attr == "UNAUTHORIZED":
        return "send401"
    # a call of another method of the class, or of a module-level function that is handed the handler:
    # classified by what the callee DOES, not by its name
    st = core[0]
    if isinstance(st, ast.Expr) and isinstance(st.value, ast.Call) and _handler_call_kind(st.value, {"self": HANDLER}) is not None:
        seq = _auth_error_seq(st.value, consts)
        if seq is not None:
            return ("admin", seq)
    return None


# ---- what a refusal helper does ------------------------------------------------------------------
# Context of the class under extraction (set by extract()): its methods, its class-level string constants and
# the module-level functions (bound exactly once).
_CTX: Dict[str, Dict] = {"methods": {}, "class_strs": {}, "mod_funcs": {}}
TLV_SEQUENCE_NUM, TLV_ERROR_CODE, TLV_ERR_AUTHENTICATION = b"\x06", b"\x07", b"\x02"
PAIRING_TLV_TYPE = "application/pairing+tlv8"
HANDLER = ("handler",)  # abstract value: the request handler object itself


def _is_handler(node, env) -> bool:
    return isinstance(node, ast.Name) and env.get(node.id) == HANDLER


def _handler_call_kind(call, env):
    """"method" for `<handler>.m(..)`, "function" for `f(.., <handler>, ..)` with f a module-level function."""
    if isinstance(call.func, ast.Attribute) and _is_handler(call.func.value, env):
        return "method"
    if (isinstance(call.func, ast.Name) and call.func.id in _CTX["mod_funcs"]
            and any(_is_handler(a, env) for a in list(call.args) + [k.value for k in call.keywords])):
        return "function"
    return None


def _absval(node, env, consts, depth=0):
    """Abstract value of an expression: HANDLER | ("const", bytes|str) | ("tlv", [absval..]) | ("unknown", text)."""
    if isinstance(node, ast.Constant) and isinstance(node.value, (bytes, str)):
        return ("const", node.value)
    if isinstance(node, ast.Name) and node.id in env:
        return env[node.id]
    if isinstance(node, ast.Attribute) and isinstance(node.value, ast.Name):
        if (env.get(node.value.id) == HANDLER or node.value.id == "cls") and node.attr in _CTX["class_strs"]:
            return ("const", _CTX["class_strs"][node.attr])
        v = consts.get(node.value.id, {}).get(node.attr)
        if isinstance(v, (bytes, str)):
            return ("const", v)
    if (isinstance(node, ast.Call) and isinstance(node.func, ast.Attribute) and node.func.attr == "encode"
            and isinstance(node.func.value, ast.Name) and node.func.value.id == "tlv" and not node.keywords
            and not any(isinstance(a, ast.Starred) for a in node.args)):
        return ("tlv", [_absval(a, env, consts, depth) for a in node.args])
    # a pure module-level function: `def f(..): [doc]; return <expr>`
    if isinstance(node, ast.Call) and isinstance(node.func, ast.Name) and node.func.id in _CTX["mod_funcs"] and depth < 4:
        fn = _CTX["mod_funcs"][node.func.id]
        body = _doc_stripped(fn.body)
        if isinstance(fn, ast.FunctionDef) and not fn.decorator_list and len(body) == 1 and isinstance(body[0], ast.Return) and body[0].value is not None:
            inner = _bind(fn, node, env, consts, skip_first=False)
            if inner is not None:
                return _absval(body[0].value, inner, consts, depth + 1)
    return ("unknown", _short(node))


def _bind(fn, call, env, consts, skip_first=True):
    """parameter name -> abstract value of the argument (positional, keyword, constant default); None if not bindable"""
    a = fn.args
    if a.vararg or a.kwarg or a.posonlyargs or any(isinstance(x, ast.Starred) for x in call.args):
        return None
    names = [x.arg for x in a.args][1 if skip_first else 0:]
    if len(call.args) > len(names):
        return None
    out = {n: _absval(v, env, consts) for n, v in zip(names, call.args)}
    for kw in call.keywords:
        if kw.arg is None or kw.arg not in names + [x.arg for x in a.kwonlyargs] or kw.arg in out:
            return None
        out[kw.arg] = _absval(kw.value, env, consts)
    defaults = dict(zip(names[len(names) - len(a.defaults):], a.defaults)) if a.defaults else {}
    for x, d in zip(a.kwonlyargs, a.kw_defaults):
        if d is not None:
            defaults[x.arg] = d
    for n in names + [x.arg for x in a.kwonlyargs]:
        if n not in out:
            if n not in defaults:
                return None
            out[n] = _absval(defaults[n], {}, consts)
    return out


def _summary(call, env, consts, depth=0):
    """Effects of the statement `<handler>.<m>(args)` / `f(.., <handler>, ..)` on the response object, followed
    into the class and into module-level functions: {"status": name, "headers": [(k, v)], "body": absval} — or
    None if the callee does anything else than log, assert, bind locals, set status / header / body, or call
    further such methods / functions."""
    kind = _handler_call_kind(call, env)
    if kind is None:
        return None
    if kind == "method":
        name = call.func.attr
        if name == "send_response":
            if len(call.args) == 1 and not call.keywords and isinstance(call.args[0], ast.Attribute):
                return {"status": call.args[0].attr}
            return None
        if name == "send_header":
            if len(call.args) == 2 and not call.keywords:
                return {"headers": [(_absval(call.args[0], env, consts), _absval(call.args[1], env, consts))]}
            return None
        if name == "end_response":
            if len(call.args) == 1 and not call.keywords:
                return {"body": _absval(call.args[0], env, consts)}
            return None
        fn = _CTX["methods"].get(name)
        if fn is None or not isinstance(fn, ast.FunctionDef) or fn.decorator_list or not fn.args.args:
            return None
        inner = _bind(fn, call, env, consts)
        if inner is not None:
            inner[fn.args.args[0].arg] = HANDLER
    else:
        fn = _CTX["mod_funcs"][call.func.id]
        if not isinstance(fn, ast.FunctionDef) or fn.decorator_list:
            return None
        inner = _bind(fn, call, env, consts, skip_first=False)
    if inner is None or depth >= 4:
        return None
    out: Dict = {}
    for stmt in fn.body:
        if _is_docstring(stmt) or _is_logger_call(stmt):
            continue
        if (isinstance(stmt, ast.Assert) and isinstance(stmt.test, ast.Compare) and len(stmt.test.ops) == 1
                and isinstance(stmt.test.ops[0], ast.IsNot) and isinstance(stmt.test.left, ast.Attribute)
                and _is_handler(stmt.test.left.value, inner)):  # `assert <handler>.X is not None`: a pure check
            continue
        if isinstance(stmt, ast.Assign) and len(stmt.targets) == 1 and isinstance(stmt.targets[0], ast.Name):
            inner[stmt.targets[0].id] = _absval(stmt.value, inner, consts)
            continue
        if _bare_return(stmt):
            break
        if isinstance(stmt, ast.Expr) and isinstance(stmt.value, ast.Call):
            sub = _summary(stmt.value, inner, consts, depth + 1)
            if sub is None:
                return None
            if "headers" in sub:
                out["headers"] = out.get("headers", []) + sub["headers"]
            for k in ("status", "body"):
                if k in sub:
                    out[k] = sub[k]
            continue
        return None
    return out


def _auth_error_seq(call, consts) -> Optional[int]:
    """The call answers 200 / pairing TLV with (sequence number <seq>, error = authentication) and does
    nothing else -> seq. First by reading the callee(s); if that is inconclusive (pre-computed tables …), by
    running the call on a detached handler object of the tree under extraction."""
    sm = _summary(call, {"self": HANDLER}, consts)
    if sm and sm.get("status") == "OK" and sm.get("headers") == [(("const", "Content-Type"), ("const", PAIRING_TLV_TYPE))]:
        b = sm.get("body")
        if b and b[0] == "tlv" and len(b[1]) == 4 and all(x[0] == "const" for x in b[1]):
            t1, v1, t2, v2 = (x[1] for x in b[1])
            if t1 == TLV_SEQUENCE_NUM and t2 == TLV_ERROR_CODE and v2 == TLV_ERR_AUTHENTICATION and isinstance(v1, bytes) and len(v1) == 1:
                return v1[0]
    return _probe_auth_error(call)


class _Spy:
    """stands for the accessory driver / state: records that it was touched at all"""

    def __init__(self, log):
        object.__setattr__(self, "_log", log)

    def __getattr__(self, name):
        self._log.append(name)
        return _Spy(self._log)

    def __setattr__(self, name, value):
        self._log.append(name)

    def __call__(self, *a, **k):
        self._log.append("()")
        return _Spy(self._log)


def _probe_auth_error(call) -> Optional[int]:
    try:
        import importlib

        if str(REPO) not in sys.path:
            sys.path.insert(0, str(REPO))
        mod = importlib.import_module("pyhap.hap_handler")
        if Path(mod.__file__).resolve() != (REPO / "pyhap" / "hap_handler.py").resolve():
            return None
        log: List[str] = []
        h = mod.HAPServerHandler(_Spy(log), ("extract-probe", 0))
        del log[:]
        resp = mod.HAPResponse()
        h.response = resp
        before = {k: v for k, v in vars(h).items() if k != "response"}
        scope = dict(vars(mod), self=h)
        eval(compile(ast.fix_missing_locations(ast.Expression(call)), "<probe>", "eval"), scope)  # noqa: S307
        after = {k: v for k, v in vars(h).items() if k != "response"}
        body = bytes(resp.body or b"")
        if (not log and before == after and h.response is resp and resp.status_code == 200 and resp.task is None
                and not resp.shared_key and not getattr(resp, "pairing_changed", False) and not getattr(resp, "pairing_removed", False)
                and [(str(k), str(v)) for k, v in resp.headers] == [("Content-Type", PAIRING_TLV_TYPE)]
                and len(body) == 6 and body[:2] == b"\x06\x01" and body[3:] == b"\x07\x01\x02"):
            return body[2]
    except Exception:  # noqa: BLE001  (inconclusive: the guard stays unrecognised)
        return None
    return None


def _ret_truth(stmt):
    """`return <constant>` -> its truth value; bare `return` -> False; anything else -> None."""
    if not isinstance(stmt, ast.Return):
        return None
    if stmt.value is None:
        return False
    if isinstance(stmt.value, ast.Constant):
        return bool(stmt.value.value)
    return None


def _strip_leading(body):
    """Drop what is provably effect-free on the protected state: the docstring, logger calls and
    `assert self.X is not None`; returns (asserted attribute names, remaining statements)."""
    body = list(body)
    if body and _is_docstring(body[0]):
        body = body[1:]
    asserted: List[str] = []
    while body:
        a = _assert_not_none_attr(body[0])
        if a is not None:
            asserted.append(a)
        elif not _is_logger_call(body[0]):
            break
        body = body[1:]
    return asserted, body


def _helper_call(node, methods):
    """`self.<method of the same class>()` without arguments -> the method name."""
    if (
        isinstance(node, ast.Call)
        and not node.args
        and not node.keywords
        and isinstance(node.func, ast.Attribute)
        and isinstance(node.func.value, ast.Name)
        and node.func.value.id == "self"
        and node.func.attr in methods
    ):
        return node.func.attr
    return None


def classify_helper(fn, refused, consts, methods, depth):
    """A guard helper of the same class, inlined. `refused` = the truth value the caller takes as
    "was refused" (None: the caller ignores the result, the helper must raise).
    Returns (kind, asserted, note); kind in "raise" | "send401" | ("admin", seq) | None.
    The helper must consist of the guard only: a test of self.is_encrypted whose refusing branch only
    logs, builds the refusal response and returns the refused constant (or raises
    UnprivilegedRequestException) and whose other branch returns the opposite constant. Anything else
    (extra conditions that can let an unverified connection pass, assignments, other calls) -> None."""
    if not isinstance(fn, ast.FunctionDef) or fn.decorator_list:
        return None, [], "helper is async or decorated"
    a = fn.args
    if len(a.args) != 1 or a.vararg or a.kwarg or a.kwonlyargs or a.posonlyargs:
        return None, [], "helper takes arguments"
    asserted, body = _strip_leading(fn.body)
    if not body:
        return None, [], "helper is empty"
    # second level: `return self.<h2>()` / `return not self.<h2>()`
    if len(body) == 1 and isinstance(body[0], ast.Return) and body[0].value is not None and depth < 2 and refused is not None:
        v = body[0].value
        neg = isinstance(v, ast.UnaryOp) and isinstance(v.op, ast.Not)
        h2 = _helper_call(v.operand if neg else v, methods)
        if h2 is not None:
            k, as2, note = classify_helper(methods[h2], (not refused) if neg else refused, consts, methods, depth + 1)
            return k, asserted + as2, f"{h2}: {note}"
    first = body[0]
    if len(body) == 1 and _is_helper_expr(first, methods) and depth < 2:
        h2 = _helper_call(first.value, methods)
        return classify_helper(methods[h2], None, consts, methods, depth + 1)
    if not isinstance(first, ast.If):
        return None, asserted, f"helper starts with `{_short(first)}`"
    rest = body[1:]

    def finish(refusing, terminator, other_ok, why):
        kind = _refusal(refusing, consts)
        if kind is None:
            return None, asserted, f"refusing branch does more than log and build the refusal ({why})"
        if _is_unpriv_raise(terminator):
            if kind != "nothing":
                return None, asserted, "response built and then raised"
            kind = "raise"
        else:
            t = _ret_truth(terminator)
            if t is None or refused is None or t != refused or kind == "nothing":
                return None, asserted, f"refusing branch ends with `{_short(terminator)}`, caller expects {refused}"
        if not other_ok:
            return None, asserted, "the non-refusing branch does not simply return the opposite constant"
        return kind, asserted, "helper guard"

    def opposite(stmts) -> bool:
        """what follows on the verified path: nothing (implicit None) or `return <opposite constant>`"""
        if not stmts:
            return refused is None or refused is True
        return len(stmts) == 1 and _ret_truth(stmts[0]) is not None and (refused is None or _ret_truth(stmts[0]) != refused)

    if _pass_test(first.test):
        # if self.is_encrypted [and ...]: return <passed>;  <refusal>;  return <refused> / raise
        if first.orelse or not opposite(first.body) or not first.body:
            return None, asserted, "pass branch is not a plain `return <constant>`"
        if not rest:
            return None, asserted, "nothing refuses after the pass test"
        return finish(rest[:-1], rest[-1], True, "after the pass test")
    if _refuse_test(first.test):
        # if not self.is_encrypted [or ...]: <refusal>; return <refused> / raise;  [else] return <passed>
        if not first.body:
            return None, asserted, "empty refusing branch"
        if first.orelse and rest:
            return None, asserted, "statements after an if/else"
        return finish(first.body[:-1], first.body[-1], opposite(first.orelse or rest), "refusing branch")
    return None, asserted, f"helper test `{_short(first.test)}` is neither `self.is_encrypted [and ..]` nor `not self.is_encrypted [or ..]`"


def _is_helper_expr(stmt, methods) -> bool:
    return isinstance(stmt, ast.Expr) and _helper_call(stmt.value, methods) is not None


def _lean_guard(kind, asserted) -> Tuple[str, str]:
    if kind == "raise":
        return ".raiseUnpriv", "raise UnprivilegedRequestException"
    if kind == "send401":
        return ".send401", "send_response(UNAUTHORIZED); return"
    _, seq = kind
    a = "true" if "client_uuid" in asserted else "false"
    return f"(.adminAuthErr {a} {seq})", "admin test -> authentication-error TLV; return"


class _Rename(ast.NodeTransformer):
    def __init__(self, mapping):
        self.mapping = mapping

    def visit_Name(self, node):
        if node.id in self.mapping:
            return ast.copy_location(ast.Name(id=self.mapping[node.id], ctx=node.ctx), node)
        return node


def _renamed(fn, mapping):
    import copy

    return _Rename(mapping).visit(copy.deepcopy(fn))


def _plain_params(fn) -> Optional[List[str]]:
    a = fn.args
    if a.vararg or a.kwarg or a.kwonlyargs or a.posonlyargs or a.defaults:
        return None
    return [x.arg for x in a.args]


def _doc_stripped(body):
    body = list(body)
    return body[1:] if body and _is_docstring(body[0]) else body


def _returns_inner(fn):
    """`def fn(..): [doc]; def inner(..): ...; return inner` -> inner"""
    body = _doc_stripped(fn.body)
    if (
        len(body) == 2
        and isinstance(body[0], ast.FunctionDef)
        and isinstance(body[1], ast.Return)
        and isinstance(body[1].value, ast.Name)
        and body[1].value.id == body[0].name
    ):
        return body[0]
    return None


def _terminates(stmts) -> bool:
    return bool(stmts) and isinstance(stmts[-1], (ast.Return, ast.Raise))


def classify_decorator(dec, consts, mod_funcs):
    """A decorator on a handler, followed into the module. Accepted as the handler's guard only if the
    wrapper it returns tests `self.is_encrypted` BEFORE anything else and, on an unverified
    connection, logs / refuses (directly or through a deny-policy function of the same module that
    raises UnprivilegedRequestException or sends the bare 401) and returns or raises WITHOUT any
    reference to the wrapped function. -> (kind | None, note)"""
    policies: Dict[str, ast.FunctionDef] = {}
    if isinstance(dec, ast.Name) and dec.id in mod_funcs:
        name, deco_fn = dec.id, mod_funcs[dec.id]
    elif isinstance(dec, ast.Call) and isinstance(dec.func, ast.Name) and dec.func.id in mod_funcs and not dec.keywords:
        name, factory = dec.func.id, mod_funcs[dec.func.id]
        params = _plain_params(factory)
        if params is None or len(params) != len(dec.args) or factory.decorator_list:
            return None, f"decorator factory {name}: unsupported parameters"
        for prm, arg in zip(params, dec.args):
            if isinstance(arg, ast.Name) and arg.id in mod_funcs:
                policies[prm] = mod_funcs[arg.id]
            else:
                return None, f"decorator factory {name}: argument `{_short(arg)}` is not a function of the module"
        deco_fn = _returns_inner(factory)
        if deco_fn is None:
            return None, f"decorator factory {name} does not simply return an inner decorator"
    else:
        return None, f"unknown decorator `{_short(dec)}`"
    dparams = _plain_params(deco_fn)
    if dparams is None or len(dparams) != 1 or deco_fn.decorator_list:
        return None, f"decorator {name}: unsupported signature"
    mparam = dparams[0]
    wrapper = _returns_inner(deco_fn)
    if wrapper is None:
        return None, f"decorator {name} does not simply return a wrapper function"
    for d in wrapper.decorator_list:  # only functools.wraps(<wrapped>) is allowed on the wrapper
        f = d.func if isinstance(d, ast.Call) else None
        is_wraps = isinstance(f, ast.Name) and f.id == "wraps" or (isinstance(f, ast.Attribute) and f.attr == "wraps")
        if not (is_wraps and len(d.args) == 1 and isinstance(d.args[0], ast.Name) and d.args[0].id == mparam and not d.keywords):
            return None, f"decorator {name}: wrapper is itself decorated with `{_short(d)}`"
    wparams = _plain_params(wrapper)
    if wparams is None or len(wparams) != 1:
        return None, f"decorator {name}: wrapper does not take exactly the handler object"
    if mparam == wparams[0] or mparam in policies or wparams[0] in policies:
        return None, f"decorator {name}: shadowed names"
    w = _renamed(wrapper, {wparams[0]: "self"})
    asserted, wbody = _strip_leading(w.body)
    if asserted or not wbody or not isinstance(wbody[0], ast.If):
        return None, f"decorator {name}: wrapper does not start with the privilege test (`{_short(wbody[0]) if wbody else ''}`)"
    first, rest = wbody[0], wbody[1:]
    if _refuse_test(first.test):
        refusing = first.body
    elif _pass_test(first.test):
        if not _terminates(first.body):
            return None, f"decorator {name}: the verified branch falls through into the refusal"
        refusing = first.orelse if first.orelse else rest
    else:
        return None, f"decorator {name}: wrapper test `{_short(first.test)}` is not a privilege test"
    if not _terminates(refusing):
        return None, f"decorator {name}: the refusing branch does not return or raise (falls through to the handler)"
    if any(isinstance(x, ast.Name) and x.id == mparam for st in refusing for x in ast.walk(st)):
        return None, f"decorator {name}: the refusing branch refers to the wrapped handler"

    def policy_of(call):
        if (
            isinstance(call, ast.Call)
            and isinstance(call.func, ast.Name)
            and call.func.id in policies
            and len(call.args) == 1
            and not call.keywords
            and isinstance(call.args[0], ast.Name)
            and call.args[0].id == "self"
        ):
            return policies[call.func.id]
        return None

    flat: List[ast.stmt] = []
    for st in refusing:
        pol = None
        if isinstance(st, ast.Expr):
            pol = policy_of(st.value)
        elif isinstance(st, ast.Return) and st.value is not None:
            pol = policy_of(st.value)
        if pol is None:
            flat.append(st)
            continue
        pp = _plain_params(pol)
        if pp is None or len(pp) != 1 or pol.decorator_list or not isinstance(pol, ast.FunctionDef):
            return None, f"decorator {name}: deny policy {pol.name} has an unsupported signature"
        pbody = _doc_stripped(_renamed(pol, {pp[0]: "self"}).body)
        if pbody and _bare_return(pbody[-1]):
            pbody = pbody[:-1]
        if any(isinstance(x, (ast.Return, ast.If, ast.For, ast.While, ast.Try, ast.With)) for b in pbody for x in ast.walk(b)):
            return None, f"decorator {name}: deny policy {pol.name} is not straight-line"
        flat += pbody
        if isinstance(st, ast.Return):
            flat.append(ast.Return(value=None))
    for i, st in enumerate(flat):  # whatever follows a raise is unreachable
        if isinstance(st, ast.Raise):
            flat = flat[: i + 1]
            break
    if not _terminates(flat):
        return None, f"decorator {name}: the refusing path does not return or raise"
    kind = _refusal(flat[:-1], consts)
    if _is_unpriv_raise(flat[-1]):
        kind = "raise" if kind == "nothing" else None
    elif isinstance(flat[-1], ast.Raise) or kind == "nothing":
        kind = None
    if kind is None:
        return None, f"decorator {name}: the refusing path does more (or less) than log and refuse (`{_short(flat[0])}` ...)"
    return kind, f"via decorator {name}"


def classify_guard(fn: ast.FunctionDef, consts, methods=None, mod_funcs=None) -> Tuple[str, str]:
    """-> (lean term, human note). Anything not recognised is `.none` with the reason."""
    methods = methods or {}
    if getattr(fn, "decorator_list", None):
        # a decorated handler runs the decorator's wrapper first: only a recognised guard decorator counts
        if len(fn.decorator_list) != 1:
            return ".none", "several decorators on the handler"
        kind, why = classify_decorator(fn.decorator_list[0], consts, mod_funcs or {})
        if kind is None:
            return ".none", why
        lean, note = _lean_guard(kind, [])
        return lean, f"{note} [{why}]"
    asserted, body = _strip_leading(fn.body)
    if not body:
        return ".none", "handler has no statements"
    first = body[0]
    kind = None
    why = ""
    # (c) `self.<helper>()` as a statement: the helper must raise on an unverified connection
    if _is_helper_expr(first, methods):
        h = _helper_call(first.value, methods)
        kind, as2, why = classify_helper(methods[h], None, consts, methods, 1)
        asserted = asserted + as2
        why = f"via {h}(): {why}"
        if kind not in (None, "raise"):
            kind, why = None, f"via {h}(): helper builds a refusal but the handler goes on"
    elif isinstance(first, ast.If):
        test, ibody = first.test, first.body
        neg = isinstance(test, ast.UnaryOp) and isinstance(test.op, ast.Not)
        h = _helper_call(test.operand if neg else test, methods)
        if h is not None:
            # (b) `if self.<helper>(): return` / `if not self.<helper>(): return`
            core = [x for x in ibody if not _is_logger_call(x)]
            if len(core) == 1 and _bare_return(core[0]) and core[0] is ibody[-1]:
                kind, as2, why = classify_helper(methods[h], not neg, consts, methods, 1)
                asserted = asserted + as2
                why = f"via {h}(): {why}"
            else:
                why = f"`if {'not ' if neg else ''}self.{h}()` does not simply return"
        elif _refuse_test(test):
            # (a) the test written out in the handler
            if ibody and _is_unpriv_raise(ibody[-1]):
                kind = "raise" if _refusal(ibody[:-1], consts) == "nothing" else None
            elif ibody and _bare_return(ibody[-1]):
                kind = _refusal(ibody[:-1], consts)
                if kind == "nothing":
                    kind = None
            why = "privilege test in the handler" if kind else f"unrecognised refusal body `{_short(ibody[0]) if ibody else ''}`"
            if kind is not None and isinstance(kind, tuple) and _is_not_encrypted(test):
                pass  # auth-error TLV behind a plain test: same refusal
        else:
            why = f"first test `{_short(test)}` is not a privilege test"
    else:
        why = f"first statement `{_short(first)}` is not a privilege test"
    if kind is None:
        return ".none", why or "unrecognised"
    # asserts in front are only modelled for the admin shape (client_uuid)
    if isinstance(kind, tuple):
        if set(asserted) - {"client_uuid"}:
            return ".none", "unexpected assert before the admin test"
    elif asserted:
        return ".none", "assert before a plain privilege test (not modelled)"
    lean, note = _lean_guard(kind, asserted)
    return lean, note + ("" if why in ("privilege test in the handler", "") else f" [{why}]")


def _class_consts(mod: ast.Module) -> Dict[str, Dict[str, bytes]]:
    res: Dict[str, Dict[str, bytes]] = {}
    for node in mod.body:
        if isinstance(node, ast.ClassDef):
            d = {}
            for s in node.body:
                if isinstance(s, ast.Assign) and len(s.targets) == 1 and isinstance(s.targets[0], ast.Name):
                    if isinstance(s.value, ast.Constant) and isinstance(s.value.value, bytes):
                        d[s.targets[0].id] = s.value.value
            res[node.name] = d
    return res


def _module_literals(mod: ast.Module) -> Dict[str, ast.AST]:
    """NAME = <tuple / list / set / dict display> at module or class level (assigned exactly once)."""
    found: Dict[str, List[ast.AST]] = {}

    def scan(body):
        for st in body:
            if isinstance(st, ast.Assign) and len(st.targets) == 1 and isinstance(st.targets[0], ast.Name):
                found.setdefault(st.targets[0].id, []).append(st.value)
            elif isinstance(st, ast.AnnAssign) and isinstance(st.target, ast.Name) and st.value is not None:
                found.setdefault(st.target.id, []).append(st.value)
            elif isinstance(st, ast.ClassDef):
                scan(st.body)

    scan(mod.body)
    # a name that is also assigned anywhere else (augmented, in a function via global, ...) is not trusted
    stores: Dict[str, int] = {}
    for n in ast.walk(mod):
        if isinstance(n, ast.Name) and isinstance(n.ctx, (ast.Store, ast.Del)):
            stores[n.id] = stores.get(n.id, 0) + 1
    # mutable displays are only trusted if the module never calls a method on them (other than the
    # read-only views) and never stores into a subscript of them
    touched = set()
    for n in ast.walk(mod):
        if isinstance(n, ast.Attribute) and isinstance(n.value, ast.Name) and n.attr not in ("items", "keys", "values", "get"):
            touched.add(n.value.id)
        if isinstance(n, ast.Subscript) and isinstance(n.value, ast.Name) and isinstance(n.ctx, (ast.Store, ast.Del)):
            touched.add(n.value.id)
    return {k: v[0] for k, v in found.items()
            if len(v) == 1 and stores.get(k, 0) == 1 and isinstance(v[0], (ast.Tuple, ast.List, ast.Set, ast.Dict))
            and (isinstance(v[0], ast.Tuple) or k not in touched)}


def _literal_strings(lit, pos) -> Optional[set]:
    """The string constants at tuple position `pos` of every row (pos None: the elements themselves)."""
    if isinstance(lit, ast.Dict):
        rows = lit.keys
        if pos not in (None, 0) or any(k is None for k in rows):
            return None
        pos = None
    elif isinstance(lit, (ast.Tuple, ast.List, ast.Set)):
        rows = lit.elts
    else:
        return None
    out = set()
    for r in rows:
        if pos is not None:
            if not isinstance(r, (ast.Tuple, ast.List)) or len(r.elts) <= pos or any(isinstance(e, ast.Starred) for e in r.elts):
                return None
            r = r.elts[pos]
        if not (isinstance(r, ast.Constant) and isinstance(r.value, str)):
            return None
        out.add(r.value)
    return out


def _loop_var_strings(fn, call, name_node, literals) -> Optional[set]:
    """`setattr(obj, <name>, ...)` where <name> is the variable of an enclosing
    `for <name>[, ...] in <module/class-level literal table>[.items()/.keys()]`: the strings it ranges
    over. None = cannot tell (the caller then treats the call as a possible writer of any attribute)."""
    if not isinstance(name_node, ast.Name):
        return None
    var = name_node.id
    binders = []
    for loop in ast.walk(fn):
        if not isinstance(loop, ast.For) or not any(x is call for b in loop.body for x in ast.walk(b)):
            continue
        tgt = loop.target
        pos = None
        if isinstance(tgt, ast.Name) and tgt.id == var:
            pos = None
        elif isinstance(tgt, (ast.Tuple, ast.List)) and all(isinstance(e, ast.Name) for e in tgt.elts) and var in [e.id for e in tgt.elts]:
            pos = [e.id for e in tgt.elts].index(var)
        else:
            if any(isinstance(x, ast.Name) and x.id == var for x in ast.walk(tgt)):
                return None
            continue
        binders.append((loop, pos))
    if len(binders) != 1:
        return None
    loop, pos = binders[0]
    # the variable must not be rebound anywhere else in the function
    n_store = sum(1 for x in ast.walk(fn) if isinstance(x, ast.Name) and x.id == var and isinstance(x.ctx, (ast.Store, ast.Del)))
    if n_store != 1 or any(isinstance(x, (ast.Global, ast.Nonlocal)) and var in x.names for x in ast.walk(fn)):
        return None
    it = loop.iter
    via = None
    if isinstance(it, ast.Call) and not it.args and not it.keywords and isinstance(it.func, ast.Attribute) and it.func.attr in ("items", "keys"):
        via, it = it.func.attr, it.func.value
    if isinstance(it, ast.Attribute) and isinstance(it.value, ast.Name) and it.value.id in ("self", "cls"):
        it = ast.Name(id=it.attr, ctx=ast.Load())  # class-level table
    lit = literals.get(it.id) if isinstance(it, ast.Name) else (it if isinstance(it, (ast.Tuple, ast.List, ast.Set, ast.Dict)) else None)
    if lit is None:
        return None
    if via is not None and not isinstance(lit, ast.Dict):
        return None
    if isinstance(lit, ast.Dict):
        if via == "items":
            return _literal_strings(lit, 0) if pos == 0 else None
        return _literal_strings(lit, None) if pos is None else None
    return _literal_strings(lit, pos)


def _flag_writes(fn: ast.AST, literals: Optional[Dict[str, ast.AST]] = None) -> List[str]:
    """values assigned to `<x>.is_encrypted` inside fn (source text of the value)"""
    out = []
    for n in ast.walk(fn):
        targets = []
        if isinstance(n, ast.Assign):
            targets = n.targets
            val = n.value
        elif isinstance(n, (ast.AugAssign, ast.AnnAssign)):
            targets = [n.target]
            val = n.value
        elif isinstance(n, ast.Delete):
            targets = n.targets
            val = None
        elif isinstance(n, ast.Call) and isinstance(n.func, ast.Name) and n.func.id in ("setattr", "delattr"):
            if len(n.args) >= 2 and isinstance(n.args[1], ast.Constant):
                if n.args[1].value == "is_encrypted":
                    out.append("setattr")
            elif len(n.args) >= 2:
                names = _loop_var_strings(fn, n, n.args[1], literals or {})
                if names is None:
                    out.append("setattr-dynamic")  # could name any attribute: a possible writer
                elif "is_encrypted" in names:
                    out.append("setattr")
            else:
                out.append("setattr-dynamic")
            continue
        else:
            continue
        for t in targets:
            for tt in ast.walk(t):
                if isinstance(tt, ast.Attribute) and tt.attr == "is_encrypted":
                    out.append(ast.unparse(val) if val is not None else "<del>")
    return out


def extract() -> Dict:
    src = (REPO / "pyhap" / "hap_handler.py").read_text()
    mod = ast.parse(src)
    consts = _class_consts(mod)
    cls = next(n for n in mod.body if isinstance(n, ast.ClassDef) and n.name == "HAPServerHandler")
    methods = {n.name: n for n in cls.body if isinstance(n, (ast.FunctionDef, ast.AsyncFunctionDef))}
    handlers_node = None
    for s in cls.body:
        if isinstance(s, ast.Assign) and any(isinstance(t, ast.Name) and t.id == "HANDLERS" for t in s.targets):
            handlers_node = s.value
        if isinstance(s, ast.AnnAssign) and isinstance(s.target, ast.Name) and s.target.id == "HANDLERS":
            handlers_node = s.value
    table = ast.literal_eval(handlers_node)  # fails loudly if HANDLERS stops being a literal
    _CTX["methods"] = methods
    _CTX["class_strs"] = {
        st.targets[0].id: st.value.value
        for st in cls.body
        if isinstance(st, ast.Assign) and len(st.targets) == 1 and isinstance(st.targets[0], ast.Name)
        and isinstance(st.value, ast.Constant) and isinstance(st.value.value, str)
    }

    # which methods (transitively through self.<m>() calls) write self.is_encrypted
    def callees(fn):
        """methods of the class (on `self` or on any name: a module-level function is handed the handler under
        another name) and module-level functions ("::name") that are called or merely referenced"""
        res = set()
        for n in ast.walk(fn):
            if isinstance(n, ast.Attribute) and isinstance(n.value, ast.Name) and n.attr in methods:
                res.add(n.attr)
            elif isinstance(n, ast.Name) and isinstance(n.ctx, ast.Load) and n.id in _CTX["mod_funcs"]:
                res.add("::" + n.id)
        return res

    # module-level functions that are bound exactly once in the module (never redefined / reassigned)
    binds: Dict[str, int] = {}
    for n in ast.walk(mod):
        if isinstance(n, (ast.FunctionDef, ast.AsyncFunctionDef, ast.ClassDef)):
            binds[n.name] = binds.get(n.name, 0) + 1
        elif isinstance(n, ast.Name) and isinstance(n.ctx, (ast.Store, ast.Del)):
            binds[n.id] = binds.get(n.id, 0) + 1
        elif isinstance(n, ast.alias):
            nm = (n.asname or n.name).split(".")[0]
            binds[nm] = binds.get(nm, 0) + 1
    mod_funcs = {n.name: n for n in mod.body if isinstance(n, ast.FunctionDef) and binds.get(n.name) == 1}
    _CTX["mod_funcs"] = mod_funcs
    literals_here = _module_literals(mod)
    allfn = dict(methods)
    allfn.update({"::" + k: v for k, v in mod_funcs.items()})
    direct = {name: bool(_flag_writes(fn, literals_here)) for name, fn in allfn.items()}

    # table-driven dispatch: `getattr(self, <not a constant>)` may name any method listed (as a string
    # constant) in a class-level literal table that the method itself or — for a helper that receives
    # the table as an argument — its caller refers to; with no table in sight: any listed method.
    class_tables: Dict[str, set] = {}
    for st in cls.body:
        tgt = None
        if isinstance(st, ast.Assign) and len(st.targets) == 1 and isinstance(st.targets[0], ast.Name):
            tgt, val = st.targets[0].id, st.value
        elif isinstance(st, ast.AnnAssign) and isinstance(st.target, ast.Name) and st.value is not None:
            tgt, val = st.target.id, st.value
        if tgt is None or not isinstance(val, (ast.Dict, ast.List, ast.Tuple, ast.Set)):
            continue
        names = {n.value for n in ast.walk(val) if isinstance(n, ast.Constant) and isinstance(n.value, str) and n.value in methods}
        if names:
            class_tables[tgt] = names
    all_listed = set().union(*class_tables.values()) if class_tables else set()

    def tables_in(fn):
        return frozenset(
            n.attr for n in ast.walk(fn)
            if isinstance(n, ast.Attribute) and n.attr in class_tables and isinstance(n.value, ast.Name)
            and n.value.id in ("self", "cls", cls.name)
        )

    def dyn_getattr(fn) -> bool:
        for n in ast.walk(fn):
            if (isinstance(n, ast.Call) and isinstance(n.func, ast.Name) and n.func.id == "getattr" and len(n.args) >= 2
                    and isinstance(n.args[0], ast.Name) and n.args[0].id == "self"
                    and not (isinstance(n.args[1], ast.Constant) and isinstance(n.args[1].value, str))):
                return True
        return False

    def const_getattr(fn):
        return {n.args[1].value for n in ast.walk(fn)
                if isinstance(n, ast.Call) and isinstance(n.func, ast.Name) and n.func.id == "getattr" and len(n.args) >= 2
                and isinstance(n.args[1], ast.Constant) and isinstance(n.args[1].value, str) and n.args[1].value in methods}

    reach: Dict[str, bool] = {}
    reach_set: Dict[str, set] = {}
    for name in methods:
        seen, todo, hit = set(), [(name, frozenset())], False
        while todo:
            m, inherited = todo.pop()
            if (m, inherited) in seen:
                continue
            seen.add((m, inherited))
            if direct[m]:
                hit = True
            fn_m = allfn[m]
            tabs = tables_in(fn_m) or inherited
            refs = callees(fn_m) | const_getattr(fn_m)
            if dyn_getattr(fn_m):
                refs |= set().union(*(class_tables[t] for t in tabs)) if tabs else all_listed
            todo.extend((r, tabs) for r in refs)
        reach[name] = hit
        reach_set[name] = {m for m, _ in seen}

    # a writer site is named by PUBLIC things only: the routes whose handler reaches it through the
    # intra-class call graph (private method names do not appear in the generated table)
    def origin(rel: str, qual: str, fname: str) -> str:
        if rel == "hap_handler.py" and qual == cls.name + ".":
            if fname == "__init__":
                return "constructor of the request handler"
            rts = sorted(f"{mth} {pth}" for mth, paths in table.items() for pth, hn in paths.items()
                         if hn in methods and fname in reach_set.get(hn, ()))
            return "routes: " + ", ".join(rts) if rts else "request handler, not reachable from a route"
        if rel == "hap_handler.py" and qual == "" and fname in mod_funcs:
            # a module-level function of the handler module: named by the routes that reach it, too
            rts = sorted(f"{mth} {pth}" for mth, paths in table.items() for pth, hn in paths.items()
                         if hn in methods and ("::" + fname) in reach_set.get(hn, ()))
            if rts:
                return "routes: " + ", ".join(rts)
        return f"outside the request handler ({rel})"

    routes = []
    for method, paths in table.items():
        for path, hname in paths.items():
            fn = methods.get(hname)
            if fn is None:
                guard, note, sets = ".none", "handler method not found", True
            else:
                guard, note = classify_guard(fn, consts, methods, mod_funcs)
                sets = reach[hname]
            routes.append(
                {"method": method, "path": path, "handler": hname, "guard": guard, "note": note, "sets": sets}
            )

    # every write to an attribute called is_encrypted anywhere in pyhap/
    writers = []
    order: List[Tuple[str, bool, str]] = []
    for f in sorted((REPO / "pyhap").rglob("*.py")):
        try:
            m = ast.parse(f.read_text())
        except SyntaxError:
            continue
        rel = f.relative_to(REPO / "pyhap").as_posix()
        lits = _module_literals(m)

        def visit(node, qual, lits=lits):
            for ch in ast.iter_child_nodes(node):
                if isinstance(ch, (ast.FunctionDef, ast.AsyncFunctionDef)):
                    for v in _flag_writes_shallow(ch, lits):
                        writers.append((origin(rel, qual, ch.name), v))
                        if v != "False":
                            ok, why = _flag_set_last(ch)
                            order.append((origin(rel, qual, ch.name), ok, why))
                    visit(ch, qual + ch.name + ".")
                elif isinstance(ch, ast.ClassDef):
                    visit(ch, qual + ch.name + ".")
                else:
                    visit(ch, qual)

        visit(m, "")
        for v in _flag_writes_toplevel(m, lits):
            writers.append((f"outside the request handler ({rel}, module level)", v))
    return {"routes": routes, "writers": writers, "order": order}


def _flag_set_last(fn) -> Tuple[bool, str]:
    """In a function that raises the privilege flag: is the assignment a top-level statement of the
    function with nothing after it that can fail (no call other than logging, no raise / await /
    subscript load)?  Then the flag is set only when everything else the function does has happened
    (for `_pair_verify_two`: the M4 response is built and the session key handed over), i.e. the
    flag and the completed verify are atomic with respect to exceptions."""
    idx = None
    for i, st in enumerate(fn.body):
        tg = st.targets if isinstance(st, ast.Assign) else ([st.target] if isinstance(st, (ast.AnnAssign, ast.AugAssign)) else [])
        if any(isinstance(t, ast.Attribute) and t.attr == "is_encrypted" for t in tg):
            v = st.value
            if not (isinstance(v, ast.Constant) and v.value is False):
                idx = i
    if idx is None:
        return False, "the flag is not assigned by a top-level statement of the function"
    for st in fn.body[idx + 1:]:
        if _is_logger_call(st):
            continue
        for x in ast.walk(st):
            if isinstance(x, (ast.Call, ast.Raise, ast.Await, ast.Yield, ast.YieldFrom)) or (
                isinstance(x, ast.Subscript) and isinstance(x.ctx, ast.Load)
            ):
                return False, f"`{_short(st)}` can still fail after the flag is set"
    return True, "the flag is set last"


def _flag_writes_shallow(fn, literals=None) -> List[str]:
    """writes in fn itself, not in nested defs (those are reported under their own name)"""
    clone = ast.parse(ast.unparse(fn)).body[0]

    # drop nested function/class definitions
    class Strip(ast.NodeTransformer):
        def __init__(self):
            self.depth = 0

        def visit_FunctionDef(self, node):
            if self.depth == 0:
                self.depth += 1
                self.generic_visit(node)
                self.depth -= 1
                return node
            return ast.Pass()

        visit_AsyncFunctionDef = visit_FunctionDef

        def visit_ClassDef(self, node):
            return ast.Pass()

    return _flag_writes(Strip().visit(clone), literals)


def _flag_writes_toplevel(mod: ast.Module, literals=None) -> List[str]:
    class Strip(ast.NodeTransformer):
        def visit_FunctionDef(self, node):
            return ast.Pass()

        visit_AsyncFunctionDef = visit_FunctionDef

    return _flag_writes(Strip().visit(ast.parse(ast.unparse(mod))), literals)


def _lean_str(s: str) -> str:
    return '"' + s.replace("\\", "\\\\").replace('"', '\\"') + '"'


def _lean_bytes(s: str) -> str:
    if all(0x20 <= ord(c) < 0x7F and c not in '"\\' for c in s):
        return f'asc "{s}"'
    return "[" + ", ".join(str(b) for b in s.encode()) + "]"


def render(data: Dict) -> str:
    lines = [
        "/- GENERATED by extract/routes.py from pyhap/hap_handler.py — do not edit. -/",
        "import HapModel.Dispatch",
        "namespace Hap.Http.Gen",
        "open Hap.Http",
        "",
        "/-- `HAPServerHandler.HANDLERS`, one row per (method, path), with the handler's guard shape. -/",
        "def routes : List Route := [",
    ]
    rows = []
    for r in data["routes"]:
        rows.append(
            "  { name := %s, method := %s, path := %s, handler := %s,\n"
            "    guard := %s, setsVerified := %s }  -- %s"
            % (
                _lean_str(f"{r['method']} {r['path']}"),
                _lean_bytes(r["method"]),
                _lean_bytes(r["path"]),
                _lean_str(r["handler"]),
                r["guard"],
                "true" if r["sets"] else "false",
                r["note"],
            )
        )
    # the trailing comment must come after the comma
    fixed = []
    for i, row in enumerate(rows):
        head, _, note = row.rpartition("  -- ")
        fixed.append(head + ("," if i + 1 < len(rows) else "") + "  -- " + note)
    lines += fixed
    lines += [
        "]",
        "",
        "/-- Every assignment to an attribute named `is_encrypted` in pyhap/*.py: (where — named by the routes whose",
        "    handler reaches the assignment, never by a private method name —, assigned value). -/",
        "def verifiedWriters : List (String × String) := [",
    ]
    w = data["writers"]
    for i, (site, val) in enumerate(w):
        lines.append(f"  ({_lean_str(site)}, {_lean_str(val)})" + ("," if i + 1 < len(w) else ""))
    lines += [
        "]",
        "",
        "/-- For every function that raises the flag: is the assignment its last fallible step",
        "    (top-level statement, nothing after it that can raise)? -/",
        "def verifiedSetterLast : List (String × Bool) := [",
    ]
    o = data.get("order", [])
    for i, (site, ok, why) in enumerate(o):
        lines.append(f"  ({_lean_str(site)}, {'true' if ok else 'false'})" + ("," if i + 1 < len(o) else "") + f"  -- {why}")
    lines += ["]", "", "end Hap.Http.Gen", ""]
    return "\n".join(lines)


def main(write: bool = True) -> Dict:
    data = extract()
    text = render(data)
    if write:
        OUT.parent.mkdir(parents=True, exist_ok=True)
        if not OUT.exists() or OUT.read_text() != text:
            OUT.write_text(text)
    return data


if __name__ == "__main__":
    d = main(write="--print" not in sys.argv)
    if "--print" in sys.argv:
        print(render(d))
