"""One process lifetime of an accessory, for the cross-process restart stream of the C18 check.

    python c18_child.py <persist file> <config descriptor as JSON>

Builds the accessories of the descriptor with the real pyhap code (HAP_REPO honoured through
common.py), loads the persist file if it exists, runs the real AccessoryDriver.async_start (mDNS and
the HTTP server replaced, as in harness/props/c18.py), persists, and prints one JSON line with the
configuration number and hash it ended up with.  The parent pins a different PYTHONHASHSEED for each
child, as separate interpreter starts have in reality.
"""
import json
import sys
from pathlib import Path

sys.path.insert(0, str(Path(__file__).resolve().parent))
import common  # noqa: E402,F401  (puts HAP_REPO on sys.path)
from props import c18  # noqa: E402

if __name__ == "__main__":
    print(json.dumps(c18.child_restart(sys.argv[1], json.loads(sys.argv[2]))))
