"""./check <Cxx> [--tier quick|thorough] [--replay file]   (see DESIGN.md section 1)"""
from __future__ import annotations

import argparse
import importlib
import json
import os
import sys
import traceback
from pathlib import Path

sys.path.insert(0, str(Path(__file__).resolve().parent))
import common  # noqa: E402
from common import Ctx, ModelError, finish, log, prove  # noqa: E402


def _interpreter_variants(ctx: Ctx, prop: str, tier: str) -> None:
    """The runtime environment as an input: a bounded repeat of the correspondence run and the oracle in a
    child interpreter started with -O (assert statements and `if __debug__` blocks are compiled away), so that a
    check which the code under test expresses as an `assert` is seen for what it is under the interpreter
    flags an application may legitimately run with (judged by the property oracle only; the model-vs-code diff of
    the variant run is recorded as a note, never reported).  Failures found there are ordinary failures whose replay
    records `python_flags`; `--replay` re-runs them under the same flags.  Skipped when the normal run has
    already found a failing input (nothing to add) or with VERIF_NO_VARIANTS=1."""
    import subprocess
    import tempfile

    if os.environ.get("VERIF_NO_VARIANTS") == "1" or sys.flags.optimize:
        return
    known = common.load_known(prop)
    if any(f.signature not in known for f in ctx.failures):
        return
    fd, out = tempfile.mkstemp(prefix=f"verif-subrun-{prop}-", suffix=".json")
    os.close(fd)
    try:
        t0 = __import__("time").time()
        p = subprocess.run(
            [sys.executable, "-O", __file__, prop, "--tier", tier, "--no-proof", "--subrun", out],
            capture_output=True, text=True, timeout=900 if tier == "quick" else 3000,
            env=dict(os.environ, VERIF_NO_VARIANTS="1"),
        )
        try:
            res = json.loads(Path(out).read_text())
        except Exception:
            ctx.stats.notes.append(f"python -O repeat produced no result (exit {p.returncode}): {p.stderr[-300:]}")
            return
        ctx.stats.hit("op", "variant:python-O evaluations", int(res.get("evaluations") or 0))
        ctx.stats.notes.append(
            f"python -O repeat: {res.get('evaluations')} evaluations, {len(res.get('failures', []))} oracle failures, "
            f"{res.get('n_disagreements')} disagreements, {__import__('time').time() - t0:.1f}s"
        )
        if res.get("error"):
            ctx.stats.notes.append("python -O repeat: " + str(res["error"])[:300])
        for f in res.get("failures", []):
            rep = f["replay"]
            if isinstance(rep, dict):
                rep = dict(rep, python_flags="-O")
            ctx.fail(f["signature"], f["description"] + " [found under python -O]", rep, size=f.get("size"))
        # Model-vs-code differences seen under -O are NOT merged: the Lean model is a model of the code under the
        # default interpreter (an `assert` is a raise there), and /repo itself contains type-narrowing asserts whose
        # removal changes WHICH refusal is sent (e.g. POST /pairings on an unverified connection: 500 by default,
        # 200 + TLV error under -O).  Only the property oracle judges the variant run.
    except subprocess.TimeoutExpired:
        ctx.stats.notes.append("python -O repeat timed out (not judged)")
    finally:
        try:
            os.unlink(out)
        except OSError:
            pass


def main() -> int:
    ap = argparse.ArgumentParser()
    ap.add_argument("prop")
    ap.add_argument("--tier", default=os.environ.get("VERIF_TIER", "quick"), choices=["quick", "thorough"])
    ap.add_argument("--replay")
    ap.add_argument("--no-proof", action="store_true", help="skip the Lean build (debugging only)")
    ap.add_argument("--subrun", help="(internal) run under an interpreter variant, dump failures to this file")
    args = ap.parse_args()
    prop = args.prop.upper()
    seed = int(os.environ.get("VERIF_SEED", "0") or 0)
    mod = importlib.import_module(f"props.{prop.lower()}")
    ctx = Ctx(prop, args.tier, seed)

    # Source drift (DESIGN §2.3): the pyhap files this property is anchored in differ (by AST) from
    # the tree the hand-written model was last validated against -> larger correspondence / oracle
    # budget for this run.  Never a violation by itself.
    import drift

    anchored, other = drift.drift_for(prop, common.REPO, common.VERIF)
    ctx.drift = {"anchored_files_changed": anchored, "other_files_changed": other}
    if (anchored or other) and ctx.quick and not args.replay:
        ctx.budget_scale = float(os.environ.get("VERIF_DRIFT_SCALE", "3.0" if anchored else "1.5"))
        log(f"[{prop}] source drift: {', '.join(anchored + other)} differ from model_map.json -> budget x{ctx.budget_scale}")

    # Watchdog: a run that does not finish (e.g. the implementation under check hangs in a place the
    # property's own harness does not bound) ends as an infrastructure failure, never as a verdict.
    import threading

    limit = int(os.environ.get("VERIF_WATCHDOG_S", "1200" if args.tier == "quick" else "5400"))

    def _abort():
        log(f"[{prop}] infrastructure failure: watchdog expired after {limit} s")
        sys.stderr.flush()
        os._exit(2)

    wd = threading.Timer(limit, _abort)
    wd.daemon = True
    wd.start()

    if args.replay:
        payload = json.loads(Path(args.replay).read_text())
        rep = payload.get("replay", payload)
        flags = rep.get("python_flags") if isinstance(rep, dict) else None
        if flags == "-O" and not sys.flags.optimize:
            # the failing input needs the interpreter variant it was found under
            import subprocess

            print("replaying under python -O (assert statements are compiled away)")
            sys.stdout.flush()
            return subprocess.call([sys.executable, "-O", __file__, prop, "--replay", args.replay])
        return mod.replay(ctx, rep)

    if args.subrun:
        # interpreter-variant repeat (see _interpreter_variants): correspondence + oracle only, bounded budget
        ctx.budget_scale = float(os.environ.get("VERIF_SUBRUN_SCALE", "0.3"))
        err = None
        try:
            mod.run(ctx)
        except ModelError as ex:
            err = "model driver failed: " + str(ex)[-300:]
        except Exception:  # the variant run is best effort: report, never judge
            err = "harness raised: " + traceback.format_exc()[-600:]
        Path(args.subrun).write_text(json.dumps({
            "failures": [{"signature": f.signature, "description": f.description, "replay": f.replay,
                          "size": getattr(f, "size", None)} for f in ctx.failures],
            "disagreements": [{"stream": d.stream, "case": d.case, "model": d.model, "impl": d.impl}
                              for d in ctx.disagreements[:5]],
            "n_disagreements": len(ctx.disagreements),
            "evaluations": ctx.stats.evaluations,
            "error": err,
        }, default=str))
        return 0

    try:
        if hasattr(mod, "extract"):
            mod.extract(ctx)
        proof = None
        if not args.no_proof:
            proof = prove(mod.LEAN_MODULE, getattr(mod, "EXTRA_MODULES", ()), thorough=not ctx.quick)
        try:
            mod.run(ctx)
        except ModelError as ex:
            # the executable model no longer builds/runs: counts as a broken tie
            log(f"[{prop}] model error: {ex}")
            ctx.disagree("model-driver", "driver failed", str(ex)[-500:], None)
            if proof is not None and proof.ok:
                proof.ok = False
                proof.problems.append("model driver failed: " + str(ex)[-300:])
        _interpreter_variants(ctx, prop, args.tier)
        return finish(
            ctx,
            proof,
            getattr(mod, "search", None),
            getattr(mod, "TRUSTED", []),
            level=getattr(mod, "LEVEL", "proof"),
            extra_cov=getattr(mod, "extra_coverage", lambda c: None)(ctx),
        )
    except Exception:  # infrastructure failure: never a VIOLATION line
        traceback.print_exc()
        log(f"[{prop}] infrastructure failure")
        return 2


if __name__ == "__main__":
    sys.exit(main())
