"""./check <Cxx> [--tier quick|thorough] [--replay file]   (see DESIGN.md section 1)"""
from __future__ import annotations

import argparse
import importlib
import json
import os
import sys
import traceback
from pathlib import Path

sys.path.insert(0, str(Path(__file__).resolve().parent))
import common  # noqa: E402
from common import Ctx, ModelError, finish, log, prove  # noqa: E402


def main() -> int:
    ap = argparse.ArgumentParser()
    ap.add_argument("prop")
    ap.add_argument("--tier", default=os.environ.get("VERIF_TIER", "quick"), choices=["quick", "thorough"])
    ap.add_argument("--replay")
    ap.add_argument("--no-proof", action="store_true", help="skip the Lean build (debugging only)")
    args = ap.parse_args()
    prop = args.prop.upper()
    seed = int(os.environ.get("VERIF_SEED", "0") or 0)
    mod = importlib.import_module(f"props.{prop.lower()}")
    ctx = Ctx(prop, args.tier, seed)

    # Source drift (DESIGN §2.3): the pyhap files this property is anchored in differ (by AST) from
    # the tree the hand-written model was last validated against -> larger correspondence / oracle
    # budget for this run.  Never a violation by itself.
    import drift

    anchored, other = drift.drift_for(prop, common.REPO, common.VERIF)
    ctx.drift = {"anchored_files_changed": anchored, "other_files_changed": other}
    if (anchored or other) and ctx.quick and not args.replay:
        ctx.budget_scale = float(os.environ.get("VERIF_DRIFT_SCALE", "3.0" if anchored else "1.5"))
        log(f"[{prop}] source drift: {', '.join(anchored + other)} differ from model_map.json -> budget x{ctx.budget_scale}")

    # Watchdog: a run that does not finish (e.g. the implementation under check hangs in a place the
    # property's own harness does not bound) ends as an infrastructure failure, never as a verdict.
    import threading

    limit = int(os.environ.get("VERIF_WATCHDOG_S", "1200" if args.tier == "quick" else "5400"))

    def _abort():
        log(f"[{prop}] infrastructure failure: watchdog expired after {limit} s")
        sys.stderr.flush()
        os._exit(2)

    wd = threading.Timer(limit, _abort)
    wd.daemon = True
    wd.start()

    if args.replay:
        payload = json.loads(Path(args.replay).read_text())
        return mod.replay(ctx, payload.get("replay", payload))

    try:
        if hasattr(mod, "extract"):
            mod.extract(ctx)
        proof = None
        if not args.no_proof:
            proof = prove(mod.LEAN_MODULE, getattr(mod, "EXTRA_MODULES", ()), thorough=not ctx.quick)
        try:
            mod.run(ctx)
        except ModelError as ex:
            # the executable model no longer builds/runs: counts as a broken tie
            log(f"[{prop}] model error: {ex}")
            ctx.disagree("model-driver", "driver failed", str(ex)[-500:], None)
            if proof is not None and proof.ok:
                proof.ok = False
                proof.problems.append("model driver failed: " + str(ex)[-300:])
        return finish(
            ctx,
            proof,
            getattr(mod, "search", None),
            getattr(mod, "TRUSTED", []),
            level=getattr(mod, "LEVEL", "proof"),
            extra_cov=getattr(mod, "extra_coverage", lambda c: None)(ctx),
        )
    except Exception:  # infrastructure failure: never a VIOLATION line
        traceback.print_exc()
        log(f"[{prop}] infrastructure failure")
        return 2


if __name__ == "__main__":
    sys.exit(main())
