"""./check <Cxx> [--tier quick|thorough] [--replay file]   (see DESIGN.md section 1)"""
from __future__ import annotations

import argparse
import importlib
import json
import os
import sys
import traceback
from pathlib import Path

sys.path.insert(0, str(Path(__file__).resolve().parent))
import common  # noqa: E402
from common import Ctx, ModelError, finish, log, prove  # noqa: E402


def _warnings_as_errors() -> None:
    """Variant W: every warning ATTRIBUTED TO A pyhap MODULE is an error (what `python -W error` /
    PYTHONWARNINGS=error / pytest's filterwarnings=error do for an application, restricted to the code under
    test so that deprecations inside asyncio, h11, cryptography or the harness do not matter)."""
    import warnings

    warnings.filterwarnings("error", category=Warning, module=r"pyhap(\.|$)")


VARIANTS = [
    # (name, interpreter flags, child --variant, replay marker, what it is)
    ("python -O", ["-O"], "", "-O", "assert statements and `if __debug__` blocks compiled away"),
    ("warnings-as-errors", [], "W", "warnings-as-errors", "warnings attributed to pyhap modules raised as exceptions"),
]


def _interpreter_variants(ctx: Ctx, prop: str, tier: str) -> None:
    """The runtime environment as an input: a bounded repeat of the correspondence run and the oracle in child
    interpreters — one started with -O (assert statements and `if __debug__` blocks are compiled away), one in
    which every warning attributed to a pyhap module is an error — so that a check which the code under test
    expresses as an `assert`, or a deprecated / warning call on a rarely taken path, is seen for what it is under
    the settings an application may legitimately run with (judged by the property oracle only; the model-vs-code
    diff of a variant run is recorded as a note, never reported).  Failures found there are ordinary failures whose
    replay records `python_flags`; `--replay` re-runs them under the same settings.  A variant whose run on the
    code under test cannot even start (the harness itself raises) is noted and not judged.  Skipped when the normal
    run has already found a failing input (nothing to add) or with VERIF_NO_VARIANTS=1."""
    import subprocess
    import tempfile
    import time as _t

    if os.environ.get("VERIF_NO_VARIANTS") == "1" or sys.flags.optimize:
        return
    known = common.load_known(prop)
    for name, flags, vname, marker, _what in VARIANTS:
        if any(f.signature not in known for f in ctx.failures):
            return
        fd, out = tempfile.mkstemp(prefix=f"verif-subrun-{prop}-", suffix=".json")
        os.close(fd)
        try:
            t0 = _t.time()
            cmd = [sys.executable, *flags, __file__, prop, "--tier", tier, "--no-proof", "--subrun", out]
            if vname:
                cmd += ["--variant", vname]
            p = subprocess.run(cmd, capture_output=True, text=True, timeout=900 if tier == "quick" else 3000,
                               env=dict(os.environ, VERIF_NO_VARIANTS="1"))
            try:
                res = json.loads(Path(out).read_text())
            except Exception:
                ctx.stats.notes.append(f"{name} repeat produced no result (exit {p.returncode}): {p.stderr[-300:]}")
                continue
            ctx.stats.hit("op", f"variant:{name} evaluations", int(res.get("evaluations") or 0))
            ctx.stats.notes.append(
                f"{name} repeat: {res.get('evaluations')} evaluations, {len(res.get('failures', []))} oracle failures, "
                f"{res.get('n_disagreements')} disagreements (not reported), {_t.time() - t0:.1f}s"
            )
            if res.get("error"):
                # the harness itself could not run under this variant: nothing is judged
                ctx.stats.notes.append(f"{name} repeat: " + str(res["error"])[:300])
                continue
            for f in res.get("failures", []):
                rep = f["replay"]
                if isinstance(rep, dict):
                    rep = dict(rep, python_flags=marker)
                ctx.fail(f["signature"], f["description"] + f" [found under {name}]", rep, size=f.get("size"))
        except subprocess.TimeoutExpired:
            ctx.stats.notes.append(f"{name} repeat timed out (not judged)")
        finally:
            try:
                os.unlink(out)
            except OSError:
                pass


def main() -> int:
    ap = argparse.ArgumentParser()
    ap.add_argument("prop")
    ap.add_argument("--tier", default=os.environ.get("VERIF_TIER", "quick"), choices=["quick", "thorough"])
    ap.add_argument("--replay")
    ap.add_argument("--no-proof", action="store_true", help="skip the Lean build (debugging only)")
    ap.add_argument("--subrun", help="(internal) run under an interpreter variant, dump failures to this file")
    ap.add_argument("--variant", default="", help="(internal) which variant this child is")
    args = ap.parse_args()
    prop = args.prop.upper()
    seed = int(os.environ.get("VERIF_SEED", "0") or 0)
    mod = importlib.import_module(f"props.{prop.lower()}")
    ctx = Ctx(prop, args.tier, seed)

    # Source drift (DESIGN §2.3): the pyhap files this property is anchored in differ (by AST) from
    # the tree the hand-written model was last validated against -> larger correspondence / oracle
    # budget for this run.  Never a violation by itself.
    import drift

    anchored, other = drift.drift_for(prop, common.REPO, common.VERIF)
    ctx.drift = {"anchored_files_changed": anchored, "other_files_changed": other}
    if (anchored or other) and ctx.quick and not args.replay:
        ctx.budget_scale = float(os.environ.get("VERIF_DRIFT_SCALE", "3.0" if anchored else "1.5"))
        log(f"[{prop}] source drift: {', '.join(anchored + other)} differ from model_map.json -> budget x{ctx.budget_scale}")

    # Watchdog: a run that does not finish (e.g. the implementation under check hangs in a place the
    # property's own harness does not bound) ends as an infrastructure failure, never as a verdict.
    import threading

    limit = int(os.environ.get("VERIF_WATCHDOG_S", "1200" if args.tier == "quick" else "5400"))

    def _abort():
        log(f"[{prop}] infrastructure failure: watchdog expired after {limit} s")
        sys.stderr.flush()
        os._exit(2)

    wd = threading.Timer(limit, _abort)
    wd.daemon = True
    wd.start()

    if args.replay:
        payload = json.loads(Path(args.replay).read_text())
        rep = payload.get("replay", payload)
        flags = rep.get("python_flags") if isinstance(rep, dict) else None
        if flags == "warnings-as-errors" and args.variant != "W":
            import subprocess

            print("replaying with warnings raised inside pyhap turned into errors")
            sys.stdout.flush()
            return subprocess.call([sys.executable, __file__, prop, "--replay", args.replay, "--variant", "W"])
        if args.variant == "W":
            _warnings_as_errors()
        if flags == "-O" and not sys.flags.optimize:
            # the failing input needs the interpreter variant it was found under
            import subprocess

            print("replaying under python -O (assert statements are compiled away)")
            sys.stdout.flush()
            return subprocess.call([sys.executable, "-O", __file__, prop, "--replay", args.replay])
        return mod.replay(ctx, rep)

    if args.subrun:
        if args.variant == "W":
            _warnings_as_errors()
        # interpreter-variant repeat (see _interpreter_variants): correspondence + oracle only, bounded budget
        ctx.budget_scale = float(os.environ.get("VERIF_SUBRUN_SCALE", "0.3"))
        err = None
        try:
            mod.run(ctx)
        except ModelError as ex:
            err = "model driver failed: " + str(ex)[-300:]
        except Exception:  # the variant run is best effort: report, never judge
            err = "harness raised: " + traceback.format_exc()[-600:]
        Path(args.subrun).write_text(json.dumps({
            "failures": [{"signature": f.signature, "description": f.description, "replay": f.replay,
                          "size": getattr(f, "size", None)} for f in ctx.failures],
            "disagreements": [{"stream": d.stream, "case": d.case, "model": d.model, "impl": d.impl}
                              for d in ctx.disagreements[:5]],
            "n_disagreements": len(ctx.disagreements),
            "evaluations": ctx.stats.evaluations,
            "error": err,
        }, default=str))
        return 0

    try:
        if hasattr(mod, "extract"):
            mod.extract(ctx)
        proof = None
        if not args.no_proof:
            proof = prove(mod.LEAN_MODULE, getattr(mod, "EXTRA_MODULES", ()), thorough=not ctx.quick)
        try:
            mod.run(ctx)
        except ModelError as ex:
            # the executable model no longer builds/runs: counts as a broken tie
            log(f"[{prop}] model error: {ex}")
            ctx.disagree("model-driver", "driver failed", str(ex)[-500:], None)
            if proof is not None and proof.ok:
                proof.ok = False
                proof.problems.append("model driver failed: " + str(ex)[-300:])
        _interpreter_variants(ctx, prop, args.tier)
        return finish(
            ctx,
            proof,
            getattr(mod, "search", None),
            getattr(mod, "TRUSTED", []),
            level=getattr(mod, "LEVEL", "proof"),
            extra_cov=getattr(mod, "extra_coverage", lambda c: None)(ctx),
        )
    except Exception:  # infrastructure failure: never a VIOLATION line
        traceback.print_exc()
        log(f"[{prop}] infrastructure failure")
        return 2


if __name__ == "__main__":
    sys.exit(main())
