"""Shared machinery for every ./check run.

A check run = extract -> prove (lake build + axiom audit + source grep) -> correspond
(model driver vs real pyhap) -> judge (property oracle on the real behaviour) -> report.
See DESIGN.md section 1.
"""
from __future__ import annotations

import fcntl
import hashlib
import json
import os
import random
import re
import subprocess
import sys
import time
from dataclasses import dataclass, field
from pathlib import Path
from typing import Any, Callable, Dict, List, Optional, Sequence

VERIF = Path(__file__).resolve().parent.parent
REPO = Path(os.environ.get("HAP_REPO", "/repo"))
LEAN = VERIF / "lean"
EVIDENCE = VERIF / "evidence" if str(REPO) == "/repo" else Path("/tmp/verif-scratch-evidence")
REPLAYS = VERIF / "replays"
KNOWN = VERIF / "known_findings.txt"

ALLOWED_AXIOMS = {"propext", "Classical.choice", "Quot.sound"}
FORBIDDEN_SRC = re.compile(
    r"\bsorry\b|\badmit\b|^\s*axiom\s|native_decide|bv_decide|implemented_by|\bunsafe\s|maxHeartbeats\s+0\b"
)

os.environ.setdefault("HAP_PYTHON_VERIF", "1")
# The implementation under check is /repo (editable install). HAP_REPO=<dir> points the run at a
# scratch copy instead (used only to try seeded changes / candidate repairs without touching /repo).
if str(REPO) != "/repo":
    sys.path.insert(0, str(REPO))


def log(*a):
    print(*a, file=sys.stderr, flush=True)


def _clean(out: str) -> str:
    return "\n".join(l for l in out.splitlines() if "auto_activate" not in l)


# --------------------------------------------------------------------------- context


@dataclass
class Failure:
    """A concrete input/history on which the real implementation breaks the property."""

    signature: str  # stable id of the failing *shape* (used by known_findings.txt)
    description: str
    replay: Dict[str, Any]  # everything needed to re-run it: {"kind":..., ...}


@dataclass
class Disagreement:
    """Model and implementation differ on a case (tie failure, not by itself a violation)."""

    stream: str
    case: Any
    model: Any
    impl: Any


@dataclass
class Stats:
    evaluations: int = 0
    nontrivial: set = field(default_factory=set)
    samples: List[Any] = field(default_factory=list)
    op_hist: Dict[str, int] = field(default_factory=dict)
    outcome_hist: Dict[str, int] = field(default_factory=dict)
    traces_validated: int = 0
    rule: str = ""
    notes: List[str] = field(default_factory=list)
    exhaustive: bool = False

    def hit(self, hist: str, key: str, n: int = 1):
        d = self.op_hist if hist == "op" else self.outcome_hist
        d[key] = d.get(key, 0) + n

    def case(self, canonical: Any, nontrivial: bool):
        """Count one evaluated case; `canonical` identifies it for distinctness."""
        self.evaluations += 1
        if nontrivial:
            h = hashlib.sha1(json.dumps(canonical, sort_keys=True, default=str).encode()).hexdigest()
            self.nontrivial.add(h)

    def sample(self, s: Any, limit: int = 4):
        if len(self.samples) < limit:
            self.samples.append(s)


class Ctx:
    def __init__(self, prop: str, tier: str, seed: int):
        self.prop = prop
        self.tier = tier
        self.seed = seed
        self.rng = random.Random(f"{prop}:{seed}")
        self.t0 = time.time()
        self.stats = Stats()
        self.failures: List[Failure] = []
        self.disagreements: List[Disagreement] = []
        self.assumptions: List[str] = []
        self.budget_scale = 1.0

    @property
    def quick(self) -> bool:
        return self.tier == "quick"

    def n(self, quick: int, thorough: int) -> int:
        return int((quick if self.quick else thorough) * self.budget_scale)

    def fail(self, signature: str, description: str, replay: Dict[str, Any], size: Optional[int] = None):
        """Record a failing input. One failure is kept per signature: the first, or the smallest
        when `size` (any measure of the input) is given."""
        for i, f in enumerate(self.failures):
            if f.signature == signature:
                old = getattr(f, "size", None)
                if size is not None and old is not None and size < old:
                    nf = Failure(signature, description, replay)
                    nf.size = size
                    self.failures[i] = nf
                return
        nf = Failure(signature, description, replay)
        nf.size = size
        self.failures.append(nf)

    def disagree(self, stream: str, case: Any, model: Any, impl: Any):
        if len(self.disagreements) < 20:
            self.disagreements.append(Disagreement(stream, case, model, impl))
        else:
            self.disagreements.append(Disagreement(stream, None, None, None))

    def elapsed(self) -> float:
        return time.time() - self.t0


# --------------------------------------------------------------------------- lean side


class BuildLock:
    def __enter__(self):
        self.f = open(LEAN / ".build.lock", "w")
        fcntl.flock(self.f, fcntl.LOCK_EX)
        return self

    def __exit__(self, *a):
        fcntl.flock(self.f, fcntl.LOCK_UN)
        self.f.close()


def lake_build(targets: Sequence[str], timeout: int = 1500) -> tuple[bool, str]:
    with BuildLock():
        p = subprocess.run(
            ["lake", "build", *targets], cwd=LEAN, capture_output=True, text=True, timeout=timeout
        )
    out = _clean(p.stdout + p.stderr)
    return p.returncode == 0, out


THEOREM_RE = re.compile(r"^\s*(?:@\[[^\]]*\]\s*)?theorem\s+([A-Za-z_][A-Za-z0-9_'.]*)", re.M)
NAMESPACE_RE = re.compile(r"^\s*namespace\s+(\S+)", re.M)


def strip_comments(src: str) -> str:
    # remove /- ... -/ (nested not needed here) and -- line comments
    src = re.sub(r"/-.*?-/", "", src, flags=re.S)
    src = re.sub(r"--.*", "", src)
    return src


def prop_theorems(prop_file: Path) -> List[str]:
    """Fully qualified names of the theorems stated in a Props file."""
    src = strip_comments(prop_file.read_text())
    ns = NAMESPACE_RE.search(src)
    prefix = (ns.group(1) + ".") if ns else ""
    return [prefix + m.group(1) for m in THEOREM_RE.finditer(src)]


def lean_sources_for(modules: Sequence[str]) -> List[Path]:
    """Transitive closure of project-local imports of the given modules."""
    seen, todo, files = set(), list(modules), []
    while todo:
        m = todo.pop()
        if m in seen:
            continue
        seen.add(m)
        f = LEAN / (m.replace(".", "/") + ".lean")
        if not f.exists():
            continue
        files.append(f)
        for imp in re.findall(r"^import\s+(\S+)", f.read_text(), flags=re.M):
            if imp.split(".")[0] in ("HapModel", "Proofs", "Props"):
                todo.append(imp)
    return files


@dataclass
class ProofResult:
    ok: bool
    theorems: List[str]
    discharged: List[str]
    axioms: Dict[str, List[str]]
    problems: List[str]
    build_log: str
    cmds: List[str]


def prove(prop_module: str, extra_modules: Sequence[str] = (), thorough: bool = False) -> ProofResult:
    """Build the property module, audit axioms of every theorem stated in it, grep sources."""
    problems: List[str] = []
    prop_file = LEAN / (prop_module.replace(".", "/") + ".lean")
    theorems = prop_theorems(prop_file)
    cmds = [f"cd lean && lake build {prop_module} {' '.join(extra_modules)}".strip()]
    ok, out = lake_build([prop_module, *extra_modules])
    if not ok:
        errs = [l for l in out.splitlines() if l.startswith("error:")]
        problems.append("lake build failed: " + " | ".join(errs[:6]))
        return ProofResult(False, theorems, [], {}, problems, out[-6000:], cmds)

    # source hygiene
    for f in lean_sources_for([prop_module, *extra_modules]):
        for i, line in enumerate(strip_comments(f.read_text()).splitlines(), 1):
            if FORBIDDEN_SRC.search(line):
                problems.append(f"forbidden construct in {f.relative_to(LEAN)}: {line.strip()[:80]}")

    # axiom audit
    audit_dir = LEAN / ".audit"
    audit_dir.mkdir(exist_ok=True)
    audit = audit_dir / f"{prop_module.replace('.', '_')}.lean"
    audit.write_text(
        f"import {prop_module}\n" + "".join(f"#print axioms {t}\n" for t in theorems)
    )
    cmds.append(f"cd lean && lake env lean .audit/{audit.name}   # #print axioms for each theorem")
    p = subprocess.run(
        ["lake", "env", "lean", str(audit)], cwd=LEAN, capture_output=True, text=True, timeout=900
    )
    text = _clean(p.stdout + p.stderr)
    axioms: Dict[str, List[str]] = {}
    # outputs look like: 'Foo.bar' depends on axioms: [propext, Quot.sound]  /  'Foo.bar' does not depend on any axioms
    for m in re.finditer(
        r"'([^']+)' (?:depends on axioms: \[([^\]]*)\]|does not depend on any axioms)", text, flags=re.S
    ):
        axs = [a.strip() for a in (m.group(2) or "").replace("\n", " ").split(",") if a.strip()]
        axioms[m.group(1)] = axs
    discharged = []
    for t in theorems:
        if t not in axioms:
            problems.append(f"theorem {t} missing from the compiled environment / audit")
            continue
        bad = [a for a in axioms[t] if a not in ALLOWED_AXIOMS]
        if bad:
            problems.append(f"theorem {t} depends on disallowed axioms {bad}")
            continue
        discharged.append(t)
    if p.returncode != 0 and not problems:
        problems.append("axiom audit failed: " + text[-400:])

    if thorough and not problems:
        mods = [prop_module]
        cmds.append(f"cd lean && lake env leanchecker {' '.join(mods)}")
        try:
            q = subprocess.run(
                ["lake", "env", "leanchecker", *mods], cwd=LEAN, capture_output=True, text=True, timeout=1500
            )
            if q.returncode != 0:
                problems.append("leanchecker rejected: " + _clean(q.stdout + q.stderr)[-400:])
        except subprocess.TimeoutExpired:
            problems.append("leanchecker timed out")
    return ProofResult(not problems, theorems, discharged, axioms, problems, out[-3000:], cmds)


def build_driver(driver: str):
    ok, out = lake_build([f"Drivers.{driver}"])
    if not ok:
        raise ModelError(f"model driver Drivers.{driver} does not build:\n" + out[-3000:])


def run_model(driver: str, lines: List[Dict[str, Any]], timeout: int = 1500) -> List[Dict[str, Any]]:
    """Pipe JSON lines through the Lean driver lean/Drivers/<driver>.lean; one answer per line."""
    if not lines:
        return []
    build_driver(driver)
    return _run_model_nobuild(driver, lines, timeout)


def run_model_parallel(driver: str, lines: List[Dict[str, Any]], workers: int = 8) -> List[Dict[str, Any]]:
    """Same as run_model but splits the batch over several driver processes."""
    if len(lines) < 64 or workers <= 1:
        return run_model(driver, lines)
    from concurrent.futures import ThreadPoolExecutor

    build_driver(driver)
    k = min(workers, max(1, len(lines) // 32))
    chunks = [lines[i::k] for i in range(k)]
    with ThreadPoolExecutor(k) as ex:
        res = list(ex.map(lambda c: _run_model_nobuild(driver, c), chunks))
    outl: List[Any] = [None] * len(lines)
    for i, r in enumerate(res):
        for j, a in enumerate(r):
            outl[i + j * k] = a
    return outl


def _run_model_nobuild(driver, lines, timeout: int = 1500):
    if not lines:
        return []
    inp = "\n".join(json.dumps(l, separators=(",", ":")) for l in lines) + "\n"
    p = subprocess.run(
        ["lake", "env", "lean", "--run", f"Drivers/{driver}.lean"],
        cwd=LEAN, input=inp, capture_output=True, text=True, timeout=timeout,
    )
    outs = [l for l in _clean(p.stdout).splitlines() if l.strip()]
    if p.returncode != 0 or len(outs) != len(lines):
        raise ModelError(f"driver: {len(outs)} answers for {len(lines)} lines: " + _clean(p.stderr)[-2000:])
    return [json.loads(l) for l in outs]


class ModelError(Exception):
    pass


# --------------------------------------------------------------------------- known findings


def load_known(prop: str) -> Dict[str, str]:
    """signature -> text for `finding:` lines of this property."""
    res: Dict[str, str] = {}
    if not KNOWN.exists():
        return res
    for line in KNOWN.read_text().splitlines():
        line = line.strip()
        m = re.match(r"finding:\s+property=(\S+)\s+signature=(\S+)\s*(.*)", line)
        if m and m.group(1) == prop:
            res[m.group(2)] = m.group(3)
    return res


# --------------------------------------------------------------------------- report


def write_replay(prop: str, payload: Dict[str, Any]) -> Path:
    REPLAYS.mkdir(exist_ok=True)
    blob = json.dumps(payload, sort_keys=True, default=str, indent=1)
    h = hashlib.sha1(blob.encode()).hexdigest()[:10]
    p = REPLAYS / f"{prop}-{h}.json"
    p.write_text(blob)
    return p


def finish(
    ctx: Ctx,
    proof: Optional[ProofResult],
    search: Optional[Callable[[Ctx], None]],
    trusted_base: List[str],
    level: str = "proof",
    extra_cov: Optional[Dict[str, Any]] = None,
) -> int:
    """Judge, print VIOLATION / KNOWN-FINDING lines, write evidence, return the exit code."""
    known = load_known(ctx.prop)
    violations = 0
    known_hit: List[str] = []

    tie_broken = bool(ctx.disagreements) or (proof is not None and not proof.ok)

    def unlisted():
        return [f for f in ctx.failures if f.signature not in known]

    if tie_broken and not unlisted() and search is not None:
        # a proof obligation or the correspondence broke: look harder for a failing input
        log(f"[{ctx.prop}] proof/correspondence broken; running the failing-input search")
        try:
            search(ctx)
        except Exception as ex:  # search is best effort
            log(f"[{ctx.prop}] search raised {ex!r}")

    for f in ctx.failures:
        if f.signature in known:
            print(f"KNOWN-FINDING: property={ctx.prop} {f.signature} {f.description}")
            known_hit.append(f.signature)
        else:
            path = write_replay(
                ctx.prop,
                {"property": ctx.prop, "signature": f.signature, "description": f.description, "replay": f.replay},
            )
            print(f"VIOLATION property={ctx.prop} replay={path}")
            log(f"  {f.signature}: {f.description}")
            violations += 1

    if tie_broken and violations == 0:
        payload = {
            "property": ctx.prop,
            "signature": "no-failing-input-found",
            "broken_proof_obligations": proof.problems if proof else [],
            "build_log_tail": proof.build_log[-1500:] if proof and not proof.ok else "",
            "correspondence_disagreements": [
                {"stream": d.stream, "case": d.case, "model": d.model, "impl": d.impl}
                for d in ctx.disagreements[:5]
            ],
            "n_disagreements": len(ctx.disagreements),
        }
        path = write_replay(ctx.prop, payload)
        print(f"VIOLATION property={ctx.prop} replay={path} no-failing-input-found")
        if proof and proof.problems:
            log("  proof problems: " + "; ".join(proof.problems[:4]))
        for d in ctx.disagreements[:3]:
            log(f"  disagreement[{d.stream}] case={json.dumps(d.case, default=str)[:300]} model={json.dumps(d.model, default=str)[:200]} impl={json.dumps(d.impl, default=str)[:200]}")
        violations += 1

    st = ctx.stats
    cov: Dict[str, Any] = {
        "evaluations": st.evaluations,
        "distinct_nontrivial": len(st.nontrivial),
        "rule": st.rule,
        "samples": st.samples or ["(no correspondence cases in this run)"],
        "traces_validated_against_impl": st.traces_validated,
        "op_histogram": st.op_hist,
        "outcome_histogram": st.outcome_hist,
        "correspondence_disagreements": len(ctx.disagreements),
        "oracle_failures": [f.signature for f in ctx.failures],
        "known_findings_hit": known_hit,
        "exhaustive": st.exhaustive,
        "notes": st.notes,
    }
    if proof is not None:
        cov.update(
            {
                "obligations": len(proof.theorems),
                "discharged": len(proof.discharged),
                "theorems": proof.theorems,
                "axioms": proof.axioms,
                "proof_problems": proof.problems,
                "checker_cmd": " && ".join(proof.cmds),
                "trusted_base": trusted_base,
            }
        )
    if proof is not None and not proof.discharged:
        # nothing was accepted by the kernel in this run (build broken): the schema wants
        # discharged >= 1 for the proof keys, so report the counts under the generic keys only
        cov["theorems_discharged"] = cov.pop("discharged")
    if extra_cov:
        cov.update(extra_cov)
    if getattr(ctx, "drift", None) is not None:
        cov["source_drift"] = dict(ctx.drift, budget_scale=ctx.budget_scale)
    ev = {
        "property_id": ctx.prop,
        "tier": ctx.tier,
        "seed": ctx.seed,
        "level": level,
        "coverage": cov,
        "assumptions": ctx.assumptions,
        "wall_s": round(ctx.elapsed(), 2),
        "violations": violations,
    }
    EVIDENCE.mkdir(exist_ok=True)
    (EVIDENCE / f"{ctx.prop}.json").write_text(json.dumps(ev, indent=1, default=str) + "\n")
    log(
        f"[{ctx.prop}] tier={ctx.tier} seed={ctx.seed} evaluations={st.evaluations} "
        f"nontrivial={len(st.nontrivial)} theorems={len(proof.discharged) if proof else 0}/"
        f"{len(proof.theorems) if proof else 0} disagreements={len(ctx.disagreements)} "
        f"failures={len(ctx.failures)} violations={violations} wall={ctx.elapsed():.1f}s"
    )
    return 1 if violations else 0


# --------------------------------------------------------------------------- misc helpers


class pyhap_debug_logging:
    """Run the implementation with the `pyhap` logger at DEBUG (records go to a NullHandler): behaviour must not
    depend on how the application configured logging (guards like `if logger.isEnabledFor(DEBUG)` are code too)."""

    def __enter__(self):
        import logging

        self.lg = logging.getLogger("pyhap")
        self.old = (self.lg.level, self.lg.propagate)
        self.h = logging.NullHandler()
        self.lg.addHandler(self.h)
        self.lg.setLevel(logging.DEBUG)
        self.lg.propagate = False
        return self

    def __exit__(self, *a):
        self.lg.removeHandler(self.h)
        self.lg.setLevel(self.old[0])
        self.lg.propagate = self.old[1]


class Timeout(BaseException):
    pass


class time_limit:
    """`with time_limit(3): call_real_code()` raises Timeout if the call does not return
    (main thread only; used so that a non-terminating implementation is a finding, not a hang).

    The limit is on the CPU time this process consumes (ITIMER_PROF), not on the wall clock: on a loaded
    machine a healthy call can be descheduled for many seconds, and a wall-clock limit would turn that into a
    false 'does not return'.  A call that hangs without burning CPU (blocked, sleeping) is caught by a wall-clock
    backstop of 20 x the limit (at least 60 s)."""

    def __init__(self, seconds: float):
        self.seconds = seconds

    def _raise(self, *a):
        raise Timeout()

    def __enter__(self):
        import signal

        self.old_prof = signal.signal(signal.SIGPROF, self._raise)
        self.old = signal.signal(signal.SIGALRM, self._raise)
        signal.setitimer(signal.ITIMER_PROF, self.seconds)
        signal.setitimer(signal.ITIMER_REAL, max(60.0, 20.0 * self.seconds))

    def __exit__(self, *a):
        import signal

        signal.setitimer(signal.ITIMER_PROF, 0)
        signal.setitimer(signal.ITIMER_REAL, 0)
        signal.signal(signal.SIGPROF, self.old_prof)
        signal.signal(signal.SIGALRM, self.old)
        return False


def hx(b: bytes) -> str:
    return bytes(b).hex()


def delta_min(items: list, still_fails: Callable[[list], bool], max_steps: int = 400) -> list:
    """ddmin-style shrinking of an op list; `still_fails(candidate)` re-runs the real code."""
    cur = list(items)
    n = 2
    steps = 0
    while len(cur) >= 2 and steps < max_steps:
        chunk = max(1, len(cur) // n)
        reduced = False
        for i in range(0, len(cur), chunk):
            cand = cur[:i] + cur[i + chunk :]
            steps += 1
            if cand and still_fails(cand):
                cur = cand
                n = max(n - 1, 2)
                reduced = True
                break
        if not reduced:
            if chunk == 1:
                break
            n = min(len(cur), n * 2)
    return cur
