"""Source drift: AST fingerprints of the modelled Python sources (DESIGN §2.3).

The Lean models are hand-written; what ties them to the code is the differential run.  The
fingerprints recorded in model_map.json say against WHICH code that tie (and the seeds / rewrites
regression) was last validated.  When a file differs now, the properties anchored in it run their
correspondence and oracle with a larger budget.  Drift alone is never reported as a violation.
"""
from __future__ import annotations

import ast
import hashlib
import json
from pathlib import Path
from typing import Dict, List, Tuple


def _strip_docstrings(tree: ast.AST) -> None:
    for node in ast.walk(tree):
        if isinstance(node, (ast.Module, ast.ClassDef, ast.FunctionDef, ast.AsyncFunctionDef)):
            body = node.body
            if body and isinstance(body[0], ast.Expr) and isinstance(getattr(body[0], "value", None), ast.Constant) \
                    and isinstance(body[0].value.value, str):
                node.body = body[1:] or [ast.Pass()]


def fingerprint(path: Path) -> str:
    try:
        tree = ast.parse(path.read_text())
    except (SyntaxError, UnicodeDecodeError, OSError) as ex:
        return "unparsable:" + type(ex).__name__
    _strip_docstrings(tree)
    return hashlib.sha256(ast.dump(tree, include_attributes=False).encode()).hexdigest()[:20]


def fingerprint_tree(repo: Path) -> Dict[str, str]:
    return {f"pyhap/{p.name}": fingerprint(p) for p in sorted((repo / "pyhap").glob("*.py"))}


def drift_for(prop: str, repo: Path, verif: Path) -> Tuple[List[str], List[str]]:
    """(anchored files that drifted, other pyhap files that drifted) for this property."""
    mm = verif / "model_map.json"
    if not mm.exists():
        return [], []
    rec = json.loads(mm.read_text())
    now = fingerprint_tree(repo)
    changed = sorted(f for f in set(rec["files"]) | set(now) if rec["files"].get(f) != now.get(f))
    anchored = set(rec.get("anchors", {}).get(prop, []))
    return [f for f in changed if f in anchored], [f for f in changed if f not in anchored]
