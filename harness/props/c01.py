"""C01 — Pair-setup admits only a party that knows the setup code."""
from __future__ import annotations

import hashlib
import json
import uuid as uuid_mod
from typing import Any, Dict, List, Optional

import pairsetup_env as pe
from common import Ctx, delta_min, hx, run_model_parallel
from ref import pairsetup_client as pc
from ref import srp_client as ref
from ref import tlv8

PROP = "C01"
LEAN_MODULE = "Props.C01"
TRUSTED = [
    "Lean 4.33 kernel; axioms propext, Classical.choice, Quot.sound only (audited by #print axioms)",
    "hand-written models lean/HapModel/Srp.lean and lean/HapModel/PairSetup.lean of hsrp.Server / "
    "handle_pairing.._pairing_five, tied by this differential run (crypto parameters take the values recorded "
    "from the real run; SHA-512 and the SRP arithmetic are recomputed in Lean)",
    "ASSUMED, not proved (DESIGN 2.2): SRP-6a is a PAKE for A != 0 mod N, i.e. only a party that knows the setup "
    "code can produce the expected proof M for a non-degenerate A; SHA-512/HKDF one-wayness, ChaCha20-Poly1305 and "
    "Ed25519 unforgeability.  They enter as ONE explicit hypothesis of C01_symbolic_exec (NoForge: for A != 0 mod N no "
    "term computable without the code / honest secrets / session secrets denotes the expected proof; attacker = "
    "Dolev-Yao, accessory = the executable PairSetup.step that this run ties to pyhap) and as the shape of the free "
    "term algebra in C01_symbolic / C01_mitm_pairing_origin (symbolic accessory and honest controller; only the "
    "expected-proof format is tied to the executable model, C01_symbolic_format) and as NoForgeE in C01_end_to_end "
    "(executable accessory + attacker in the middle + honest controller).  The concrete theorems are the gate "
    "over all histories in terms of the setup code (C01_gate_code: every O1 answers the closed-form SRP-6a proof for "
    "the code configured at the M1, every O2/O3 an M5 sealed under the key of that demonstration), the algebra of "
    "A = 0 mod N and its rejection",
    "the specification predicates of the theorems (goodM3, ghost exchange / demonstrating A) are reported by the Lean "
    "driver per request and compared with harness/ref/srp_client.server_expected (reference SERVER formulas)",
    "harness/ref/srp_client.py + pairsetup_client.py + tlv8.py: independent reference (oracle, attacker computations)",
]

USER = b"Pair-Setup"
K_S0 = ref.H(b"")  # session key anybody can compute when S = 0


def extract(ctx: Ctx):
    pe.extract_group(ctx)


# --------------------------------------------------------------------------- plans


def _rb(rng, n):
    return bytes(rng.randrange(256) for _ in range(n))


def _uuid(rng) -> str:
    h = "%032x" % rng.getrandbits(128)
    s = f"{h[:8]}-{h[8:12]}-{h[12:16]}-{h[16:20]}-{h[20:]}"
    return s.upper() if rng.random() < 0.7 else s


def _base(rng, op, **kw):
    d = {"op": op, "conn": 0 if rng.random() < 0.8 else 1, "salt": hx(_rb(rng, 16)), "secret": hx(_rb(rng, 32))}
    d.update(kw)
    return d


def op_m1(rng, **kw):
    return _base(rng, "M1", extra=rng.random() < 0.15, **kw)


def op_m3_honest(rng, code="ok", variant="exact", spell="min", **kw):
    return _base(rng, "M3", mode="honest", code=code, variant=variant, spell=spell,
                 a="%x" % (rng.getrandbits(256) | 1), **kw)


def op_m3_deg(rng, k=1, spell="min", proof="s0", find=None, **kw):
    """A = k*N in some spelling.  proof: s0 (the proof anybody can compute, S = 0) | s0-strip (its leading zero
    bytes removed) | s0-pad (a zero byte prepended) | s0-trunc (last byte cut) | stale | random.
    find="m0-zero": the attacker first enumerates k, k+1, ... (at most 400) until that public proof begins
    with a zero byte (it hashes the BYTES of A, so every multiple gives a new proof)."""
    return _base(rng, "M3", mode="deg", k=k, spell=spell, proof=proof, find=find, rand=hx(_rb(rng, 64)), **kw)


def op_m3_overlong(rng, shape="z+N1", proof="stale", **kw):
    """A not 0 mod N spelled with MORE than 384 bytes: z+N1 = 00|(N+1), zz+2 = 00 00|(N+2) padded to 386,
    big = 2^3072 + r (385 bytes), z+rand = 00|random 384 bytes.  proof: stale (the proof carried by the previous
    M3 of this session) | s0 (public proof computed for THIS A as if S were 0) | random."""
    return _base(rng, "M3", mode="overlong", shape=shape, proof=proof, rand=hx(_rb(rng, 384)), **kw)


def op_m3_replay(rng, i=0, **kw):
    return _base(rng, "M3", mode="replay", i=i, **kw)


def op_m3_garbage(rng, what="randA", **kw):
    return _base(rng, "M3", mode="garbage", what=what, rand=hx(_rb(rng, rng.choice([1, 64, 384, 385]))), **kw)


def op_m5(rng, key="sess", sub="valid", **kw):
    return _base(rng, "M5", mode="new", key=key, sub=sub, ident=_uuid(rng), ctrl_seed=hx(_rb(rng, 32)),
                 rand=hx(_rb(rng, 64)), **kw)


def op_m5_replay(rng, i=0, **kw):
    return _base(rng, "M5", mode="replay", i=i, **kw)


def op_unpair(rng, **kw):
    return _base(rng, "unpair", **kw)


def op_life(rng, seq=("start",), **kw):
    """the application starts / stops / restarts the SAME driver object (real async_start / async_stop on its own loop)"""
    return _base(rng, "life", seq=list(seq), **kw)


def op_seq(rng, byte, **kw):
    return _base(rng, "seq", byte=byte, **kw)


def op_raw(rng, body: bytes, **kw):
    return _base(rng, "raw", body=hx(body), **kw)


def new_plan(rng, ops, prepaired=False, code=None) -> Dict[str, Any]:
    return {
        "code": code or "%03d-%02d-%03d" % (rng.randrange(1000), rng.randrange(100), rng.randrange(1000)),
        "acc_seed": hx(_rb(rng, 32)),
        "prepaired": [[_uuid(rng), hx(_rb(rng, 32))]] if prepaired else [],
        "ops": ops,
    }


def boundary_plans(rng) -> List[Dict[str, Any]]:
    P = []
    c0 = {"conn": 0}
    # the A = k*N attack in every spelling, followed by the crafted M5
    for k, spell in [(1, "min"), (0, "empty"), (0, "zero"), (2, "min"), (1, "pad"), (3, "min"), (7, "pad")]:
        P.append(new_plan(rng, [op_m1(rng, **c0), op_m3_deg(rng, k, spell, **c0), op_m5(rng, "s0", "valid", **c0)]))
    P.append(new_plan(rng, [op_m1(rng, **c0), op_m3_deg(rng, 1, "min", "random", **c0), op_m5(rng, "s0", "valid", **c0)]))
    # M5 without / after a failed M3, M5 with keys the attacker can have
    P.append(new_plan(rng, [op_m5(rng, "s0", "valid", **c0)]))
    P.append(new_plan(rng, [op_m1(rng, **c0), op_m5(rng, "s0", "valid", **c0)]))
    P.append(new_plan(rng, [op_m1(rng, **c0), op_m5(rng, "random", "valid", **c0)]))
    P.append(new_plan(rng, [op_m1(rng, **c0), op_m3_honest(rng, "wrong", **c0), op_m5(rng, "sess", "valid", **c0)]))
    P.append(new_plan(rng, [op_m1(rng, **c0), op_m3_honest(rng, "wrong", **c0), op_m5(rng, "s0", "valid", **c0)]))
    P.append(new_plan(rng, [op_m3_honest(rng, "ok", **c0)]))
    P.append(new_plan(rng, [op_m3_deg(rng, 1, **c0)]))
    # proof variants
    for v in ("empty", "prefix", "extended", "bitflip"):
        P.append(new_plan(rng, [op_m1(rng, **c0), op_m3_honest(rng, "ok", v, **c0), op_m5(rng, "sess", "valid", **c0)]))
    P.append(new_plan(rng, [op_m1(rng, **c0), op_m3_honest(rng, "ok", "exact", "pad", **c0), op_m5(rng, "sess", "valid", **c0)]))
    # M5 after a fresh M1 must be refused; replayed transcripts
    P.append(new_plan(rng, [op_m1(rng, **c0), op_m3_honest(rng, "ok", **c0), op_m1(rng, **c0), op_m5(rng, "sess", "valid", **c0)]))
    P.append(new_plan(rng, [op_m1(rng, **c0), op_m3_honest(rng, "ok", **c0), op_m1(rng, conn=1), op_m5(rng, "sess", "valid", **c0)]))
    P.append(new_plan(rng, [op_m1(rng, **c0), op_m3_honest(rng, "ok", **c0), op_m1(rng, **c0), op_m3_replay(rng, 0, **c0),
                            op_m5(rng, "sess", "valid", **c0)]))
    P.append(new_plan(rng, [op_m1(rng, **c0), op_m3_honest(rng, "ok", **c0), op_m3_replay(rng, 0, **c0)]))
    P.append(new_plan(rng, [op_m1(rng, **c0), op_m3_honest(rng, "ok", **c0), op_m3_honest(rng, "wrong", **c0),
                            op_m5(rng, "sess", "valid", **c0)]))
    P.append(new_plan(rng, [op_m1(rng, **c0), op_m3_honest(rng, "ok", **c0), op_m3_deg(rng, 1, **c0), op_m5(rng, "s0", "valid", **c0)]))
    # honest exchanges (legitimate O1/O2/O3), one and two connections, sub-TLV variants, what follows a pairing
    P.append(new_plan(rng, [op_m1(rng, **c0), op_m3_honest(rng, "ok", **c0), op_m5(rng, "sess", "valid", **c0), op_m1(rng, **c0),
                            op_m5_replay(rng, 0, **c0)]))
    P.append(new_plan(rng, [op_m1(rng, conn=0), op_m3_honest(rng, "ok", conn=1), op_m5(rng, "sess", "valid", conn=0)]))
    for sub in ("badsig", "wrongid", "malformed", "missing", "short", "noenc", "badkey"):
        P.append(new_plan(rng, [op_m1(rng, **c0), op_m3_honest(rng, "ok", **c0), op_m5(rng, "sess", sub, **c0),
                                op_m5(rng, "sess", "valid", **c0)]))
    # the identity that gets recorded must be the one SEALED in the M5: unauthenticated outer items naming somebody
    # else (a man in the middle can add them), an identifier split over two TLV fragments
    for sub in ("outer-id", "split-id"):
        for conn in (0, 1):
            P.append(new_plan(rng, [op_m1(rng, **c0), op_m3_honest(rng, "ok", **c0), op_m5(rng, "sess", sub, conn=conn)]))
    P.append(new_plan(rng, [op_m1(rng, **c0), op_m3_deg(rng, 1, **c0), op_m5(rng, "s0", "outer-id", **c0)]))
    # M3 lacking a field (each A kind) right after a successful / failed M3 of the same exchange, on the same and
    # on a second connection, followed by M5 under each key a peer could try
    akinds = [lambda c: op_m3_honest(rng, "ok", conn=c), lambda c: op_m3_honest(rng, "wrong", conn=c),
              lambda c: op_m3_deg(rng, 1, "min", conn=c), lambda c: op_m3_deg(rng, 0, "empty", conn=c),
              lambda c: op_m3_deg(rng, 2, "pad", conn=c), lambda c: op_m3_garbage(rng, "randA", conn=c)]
    for first, conns in (("ok", (0, 1)), ("wrong", (0,))):
        for c in conns:
            for mk in akinds:
                for drop in ("M", "A", "both"):
                    for key in ("good", "s0", "random"):
                        m3 = mk(c)
                        m3["drop"] = drop
                        P.append(new_plan(rng, [op_m1(rng, **c0), op_m3_honest(rng, first, **c0), m3,
                                                op_m5(rng, key, "valid", conn=c)]))
    P.append(new_plan(rng, [op_m1(rng, **c0), op_m3_honest(rng, "ok", **c0), dict(op_m3_deg(rng, 1, "min", conn=1), drop="M"),
                            op_m5(rng, "lastA", "valid", conn=1)]))
    # repeated M3 inside one session: a degenerate (or honest) M3 first, then an A of more than 384 bytes that is not
    # 0 mod N carrying the proof of the PREVIOUS M3 (or the public S = 0 proof for itself), then M5 under the public key
    for first in (lambda: op_m3_deg(rng, 1, "min", "s0", **c0), lambda: op_m3_deg(rng, 0, "empty", "s0", **c0),
                  lambda: op_m3_deg(rng, 2, "pad", "s0", **c0), lambda: op_m3_honest(rng, "ok", **c0),
                  lambda: op_m3_honest(rng, "wrong", **c0)):
        for shape in ("z+N1", "zz+2", "big", "z+rand"):
            for proof in ("stale", "s0"):
                P.append(new_plan(rng, [op_m1(rng, **c0), first(), op_m3_overlong(rng, shape, proof, **c0),
                                        op_m5(rng, "s0", "valid", **c0)]))
    P.append(new_plan(rng, [op_m1(rng, **c0), op_m3_overlong(rng, "z+N1", "s0", **c0), op_m5(rng, "s0", "valid", **c0)]))
    P.append(new_plan(rng, [op_m1(rng, **c0), op_m3_deg(rng, 1, **c0), op_m3_honest(rng, "ok", "stale", **c0), op_m5(rng, "s0", "valid", **c0)]))
    P.append(new_plan(rng, [op_m1(rng, **c0), op_m3_deg(rng, 1, **c0), op_m3_deg(rng, 2, "min", "stale", **c0), op_m5(rng, "s0", "valid", **c0)]))
    # many multiples of N: the public proof hashes the BYTES of A, so the attacker can search for a proof of a wanted
    # shape (leading zero byte) and present it stripped / padded / truncated
    for spell in ("min", "pad"):
        for proof in ("s0-strip", "s0-pad", "s0-trunc", "s0"):
            P.append(new_plan(rng, [op_m1(rng, **c0), op_m3_deg(rng, rng.randrange(1, 200), spell, proof, find="m0-zero", **c0),
                                    op_m5(rng, "s0", "valid", **c0)]))
    for k in (4, 17, 100, 255, 256, 399):
        P.append(new_plan(rng, [op_m1(rng, **c0), op_m3_deg(rng, k, "min", rng.choice(["s0", "s0-strip", "s0-pad", "s0-trunc"]), **c0),
                                op_m5(rng, "s0", "valid", **c0)]))
    for v in ("strip", "zeropad"):
        P.append(new_plan(rng, [op_m1(rng, **c0), op_m3_honest(rng, "ok", v, **c0), op_m5(rng, "sess", "valid", **c0)]))
    # the accessory becomes unpaired again after a completed exchange: nothing of that exchange may be reused
    done = lambda: [op_m1(rng, **c0), op_m3_honest(rng, "ok", **c0), op_m5(rng, "sess", "valid", **c0), op_unpair(rng)]  # noqa: E731
    for c in (0, 1):
        P.append(new_plan(rng, done() + [op_m5_replay(rng, 0, conn=c)]))
        P.append(new_plan(rng, done() + [op_m5(rng, "good", "valid", conn=c)]))
        P.append(new_plan(rng, done() + [op_m3_replay(rng, 0, conn=c), op_m5_replay(rng, 0, conn=c)]))
        P.append(new_plan(rng, done() + [op_m3_honest(rng, "ok", conn=c), op_m5(rng, "sess", "valid", conn=c)]))
        P.append(new_plan(rng, done() + [op_m5(rng, "s0", "valid", conn=c), op_m3_deg(rng, 1, conn=c), op_m5(rng, "s0", "valid", conn=c)]))
    P.append(new_plan(rng, done() + [op_m1(rng, **c0), op_m5_replay(rng, 0, **c0), op_m3_replay(rng, 0, **c0), op_m5_replay(rng, 0, **c0)]))
    P.append(new_plan(rng, done() + [op_m1(rng, **c0), op_m3_honest(rng, "ok", **c0), op_m5(rng, "sess", "valid", **c0), op_unpair(rng),
                                     op_m5_replay(rng, 0, **c0), op_m5_replay(rng, 1, **c0)]))
    P.append(new_plan(rng, [op_unpair(rng), op_m1(rng, **c0), op_m5_replay(rng, 0, **c0)], prepaired=True))
    P.append(new_plan(rng, [op_m1(rng, **c0), op_m3_honest(rng, "ok", **c0), op_unpair(rng), op_m5(rng, "sess", "valid", **c0)]))
    # object lifecycle: the driver is started, stopped and started again — nothing of an exchange may be gained by it
    P.append(new_plan(rng, [op_life(rng, ("start",))] + done() + [op_life(rng, ("start", "stop", "start")), op_m5_replay(rng, 0, **c0),
                                                                   op_m3_replay(rng, 0, **c0), op_m5_replay(rng, 0, **c0)]))
    P.append(new_plan(rng, [op_life(rng, ("start",)), op_m1(rng, **c0), op_m3_honest(rng, "ok", **c0), op_life(rng, ("stop", "start")),
                            op_m5(rng, "sess", "valid", conn=1)]))
    P.append(new_plan(rng, [op_life(rng, ("start",)), op_m1(rng, **c0), op_m3_deg(rng, 1, **c0), op_life(rng, ("stop", "start")),
                            op_m5(rng, "s0", "valid", conn=1)]))
    P.append(new_plan(rng, [op_life(rng, ("start", "stop", "start")), op_m5(rng, "s0", "valid", **c0), op_m1(rng, **c0),
                            op_life(rng, ("stop", "start")), op_m5(rng, "s0", "valid", **c0)]))
    # dispatch edge cases
    P.append(new_plan(rng, [op_seq(rng, b, **c0) for b in (0, 2, 4, 6, 7, 255, None, "long")] +
                      [op_raw(rng, b"", **c0), op_raw(rng, b"\x06", **c0), op_raw(rng, b"\x06\x05\x01", **c0)]))
    P.append(new_plan(rng, [op_m1(rng, **c0), op_m3_garbage(rng, "noA", **c0), op_m3_garbage(rng, "noM", **c0),
                            op_m3_garbage(rng, "randA", **c0)]))
    # pre-paired accessory: everything is refused as unavailable
    P.append(new_plan(rng, [op_m1(rng, **c0), op_m3_deg(rng, 1, **c0), op_m5(rng, "s0", "valid", **c0), op_raw(rng, b"\xff", **c0)],
                      prepaired=True))
    return P


def worlds(rng, n_random: int = 0) -> List[Dict[str, Any]]:
    """Two accessories with different setup codes in one process / one driver whose code is changed; the peer
    knows exactly one of the codes and runs complete exchanges against both, in both orders."""
    W = []
    c0 = {"conn": 0}

    def exch(extra=()):
        return [op_m1(rng, **c0), op_m3_honest(rng, "ok", **c0), op_m5(rng, "sess", "valid", **c0)] + list(extra)

    def mk(order, same_driver, tail=()):
        code1 = "%03d-%02d-%03d" % (rng.randrange(1000), rng.randrange(100), rng.randrange(1000))
        code2 = _other_code(code1, code1).decode() if rng.random() < 0.5 else "%03d-%02d-%03d" % (
            rng.randrange(1000), rng.randrange(100), (int(code1[-3:]) + 1 + rng.randrange(998)) % 1000)
        # accessory #1: the peer knows its code (a legitimate pairing, then — on one driver — unpaired again)
        p1 = new_plan(rng, exch([op_unpair(rng)] if same_driver else []), code=code1)
        # accessory #2: the peer still only knows code #1
        p2 = new_plan(rng, exch(tail), code=code2)
        p2["peer_code"] = code1
        if same_driver:
            p2["acc_seed"] = p1["acc_seed"]
        return {"world": True, "same_driver": same_driver, "plans": [p1, p2] if order == 0 else [p2, p1]}

    for same_driver in (False, True):
        for order in (0, 1):
            W.append(mk(order, same_driver))
    for _ in range(n_random):
        tail = [rng.choice([op_m5_replay(rng, 0, **c0), op_m3_replay(rng, 0, **c0), op_m3_honest(rng, "ok", **c0),
                            op_m5(rng, rng.choice(["sess", "good", "s0"]), "valid", **c0), op_m1(rng, **c0)])
                for _ in range(rng.randrange(0, 4))]
        W.append(mk(rng.randrange(2), rng.random() < 0.5, tail))
    return W


def random_plan(rng) -> Dict[str, Any]:
    ops = []
    n = rng.randrange(2, 11)
    n_m3 = n_m5 = 0
    warm = rng.random() < 0.35   # start from a verified exchange so that the M5 branches are reached
    if warm:
        ops += [op_m1(rng, conn=0), op_m3_honest(rng, "ok", "exact", "min", conn=0)]
        n_m3 = 1
        if rng.random() < 0.3:   # ... or from a completed exchange on an accessory that was unpaired again
            ops += [op_m5(rng, "sess", "valid", conn=0), op_unpair(rng)]
            n_m5 = 1
    for _ in range(n):
        r = rng.random()
        if n_m5 and warm and rng.random() < 0.35:
            ops.append(rng.choice([op_m5_replay(rng, rng.randrange(n_m5)), op_m3_replay(rng, rng.randrange(n_m3)), op_unpair(rng)]))
            continue
        if warm and r < 0.5:
            r = 0.64 + r * 0.44   # mostly M5 variants
        if r < 0.22 or not ops:
            ops.append(op_m1(rng))
        elif r < 0.42:
            ops.append(op_m3_honest(rng, rng.choice(["ok", "ok", "ok", "wrong"]),
                                    rng.choice(["exact"] * 6 + ["empty", "prefix", "extended", "bitflip", "strip", "zeropad", "stale"]),
                                    rng.choice(["min"] * 5 + ["pad"])))
            n_m3 += 1
        elif r < 0.55:
            if rng.random() < 0.25:
                ops.append(op_m3_overlong(rng, rng.choice(["z+N1", "zz+2", "big", "z+rand"]), rng.choice(["stale", "stale", "s0", "random"])))
            else:
                ops.append(op_m3_deg(rng, rng.choice([0, 1, 1, 1, 2, 3, 255, rng.randrange(4, 400)]),
                                     rng.choice(["min", "min", "pad", "empty", "zero"]),
                                     rng.choice(["s0", "s0", "s0", "random", "s0-strip", "s0-pad", "s0-trunc", "stale"]),
                                     find="m0-zero" if rng.random() < 0.25 else None))
            n_m3 += 1
        elif r < 0.60 and n_m3:
            ops.append(op_m3_replay(rng, rng.randrange(n_m3)))
            n_m3 += 1
        elif r < 0.64:
            ops.append(op_m3_garbage(rng, rng.choice(["noA", "noM", "randA"])))
            n_m3 += 1
        elif r < 0.86:
            ops.append(op_m5(rng, rng.choice(["sess", "sess", "good", "s0", "s0", "lastA", "random"]),
                             rng.choice(["valid"] * 6 + ["badsig", "wrongid", "malformed", "missing", "short", "noenc", "badkey",
                                                         "outer-id", "split-id"])))
            n_m5 += 1
        elif r < 0.90 and n_m5:
            ops.append(op_m5_replay(rng, rng.randrange(n_m5)))
            n_m5 += 1
        elif r < 0.93:
            ops.append(op_seq(rng, rng.choice([0, 2, 4, 6, 7, 9, 255, None, "long"])))
        elif r < 0.95:
            ops.append(op_life(rng, rng.choice([("start",), ("stop", "start"), ("start", "stop", "start")])))
        else:
            ops.append(op_raw(rng, _rb(rng, rng.choice([0, 1, 2, 3, 9, 40]))))
        if ops[-1]["op"] == "M3" and ops[-1]["mode"] in ("honest", "deg", "replay") and rng.random() < 0.2:
            ops[-1]["drop"] = rng.choice(["M", "M", "A", "both"])
            if rng.random() < 0.7:   # usually try to cash it in at once, same connection
                ops.append(op_m5(rng, rng.choice(["good", "s0", "lastA", "sess", "random"]), "valid", conn=ops[-1]["conn"]))
                n_m5 += 1
    return new_plan(rng, ops, prepaired=rng.random() < 0.05)


# --------------------------------------------------------------------------- running one plan on the real code


def _parse(r) -> Optional[Dict[int, bytes]]:
    if r["status"] != 200 or r["ctype"] != "application/pairing+tlv8":
        return None
    return pc.parse(r["body"])


def outputs(r) -> Dict[str, bool]:
    """O1 / O2 / O3 as seen on the wire and in State."""
    t = _parse(r) or {}
    return {
        "O1": t.get(pc.T_STATE) == b"\x04" and pc.T_PROOF in t,
        "O2": t.get(pc.T_STATE) == b"\x06" and pc.T_ENCRYPTED in t,
        "O3": r["paired"] != r["paired_before"] or r["changed"],
    }


def _other_code(c: str, avoid: str) -> bytes:
    for d in "123":
        w = c[:-1] + d
        if w != c and w != avoid:
            return w.encode()
    return (c + "0").encode()


def run_world(world: Dict[str, Any]) -> List[Dict[str, Any]]:
    """Several accessories with different setup codes living in ONE process (module-level state of pyhap is
    shared), or one driver whose setup code is changed between two exchanges.  The peer uses the code named by
    each plan's `peer_code`; every plan is judged against the code of ITS accessory."""
    out = []
    env = None
    try:
        for plan in world["plans"]:
            if world.get("same_driver"):
                if env is None:
                    env = pe.Env(plan["code"].encode(), bytes.fromhex(plan["acc_seed"]))
                else:
                    env.state.pincode = plan["code"].encode()   # the owner changes the setup code at run time
                    env.handlers.clear()
                out.append(run_plan(plan, env=env))
            else:
                out.append(run_plan(plan))
    finally:
        if env is not None:
            env.close()
    return out


def run_item(item) -> List[Dict[str, Any]]:
    return run_world(item) if item.get("world") else [run_plan(item)]


def run_plan(plan: Dict[str, Any], env=None) -> Dict[str, Any]:
    """Concretise and run a plan; judge it with the C01 oracle.  Pure function of the plan (and of what ran
    before it in the same process, for worlds)."""
    from cryptography.hazmat.primitives import serialization
    from cryptography.hazmat.primitives.asymmetric import ed25519

    code = plan["code"].encode()                                # the accessory's setup code (what the oracle uses)
    pcode = plan.get("peer_code", plan["code"]).encode()        # the code the peer knows and uses for "ok" ops
    wrong = _other_code(pcode.decode(), plan["code"])
    own_env = env is None
    if own_env:
        env = pe.Env(code, bytes.fromhex(plan["acc_seed"]),
                     prepaired=[(u.encode(), bytes.fromhex(k)) for u, k in plan["prepaired"]])
    sc = pe.Script(env)
    cur = None            # (salt, B) of the latest M2 the accessory issued
    demo = False          # ghost: a demonstrating M3 was sent in the exchange opened by `cur`
    m3_sent: List[Dict[str, Any]] = []   # {"A","proof","a"}
    m5_sent: List[bytes] = []
    last_client = None    # the latest honest-looking client computation (its K is what a peer "has")
    good_client = None    # the latest client computation whose M3 demonstrated knowledge (the honest session)
    last_A_public = False  # the A of the latest M3 that carried one is 0 mod N (its K is public)
    xch = 0               # index of the current exchange (advanced by every M2 answer and by every consumption)
    consumed = False      # an accepted M5 has used up the latest exchange and no M2 was issued since
    code_key = None       # K of a client that used the CORRECT code on the current exchange's latest M3
    last_m3_kind = "none"
    demo_elsewhere = False
    # the ghost of the C01 theorems (Proofs/PairSetupOrigin.lean: Exch / demoA, goodM3), recomputed here from the wire
    # with the reference SERVER formulas: open exchange = (code, salt, b) of the latest M2, demonstrating A
    g_open: Optional[tuple] = None
    g_demoA: Optional[bytes] = None
    viol: List[List[str]] = []
    kinds: List[str] = []
    outs: List[str] = []
    try:
        for op in plan["ops"]:
            salt, secret = bytes.fromhex(op["salt"]), bytes.fromhex(op["secret"])
            is_demo = False
            idents = []
            sealed_identity = None   # (identifier, long-term key) inside the sealed sub-TLV of an M5 built here
            kind = op["op"]
            m5_key, m5_public = None, False
            if op["op"] == "unpair":
                r = sc.unpair()
                kinds.append("unpair")
                outs.append("unpaired" if not r["paired"] else "still-paired")
                continue
            if op["op"] == "life":
                for k in op["seq"]:
                    try:
                        sc.lifecycle(k)
                        outs.append("lifecycle")
                    except Exception as ex:  # noqa: BLE001  (not C01's business; the script goes on)
                        outs.append("lifecycle-raises-" + type(ex).__name__)
                    kinds.append("lifecycle-" + k)
                continue
            if op["op"] == "M1":
                items = [(pc.T_STATE, b"\x01"), (pc.T_METHOD, b"\x00")]
                if op.get("extra"):
                    items.append((0x13, b"\x01"))
                body = tlv8.encode(items)
            elif op["op"] == "M3":
                kind = "M3-" + op["mode"]
                csalt, cB = cur if cur else (b"\x00" * 16, b"\x02")
                if op["mode"] == "honest":
                    a = int(op["a"], 16)
                    cl = ref.client(pcode if op["code"] == "ok" else wrong, csalt, cB, a)
                    last_client = cl
                    A, proof = cl.A_bytes, cl.M1
                    v = op["variant"]
                    prev = [m for m in m3_sent if m["xch"] == xch]
                    proof = {"exact": proof, "empty": b"", "prefix": proof[:-1], "extended": proof + b"\x00",
                             "bitflip": bytes([proof[0] ^ 1]) + proof[1:], "strip": proof.lstrip(b"\x00")[1:] if proof[0] else proof.lstrip(b"\x00"),
                             "zeropad": b"\x00" + proof, "stale": prev[-1]["proof"] if prev else b""}[v]
                    if op["spell"] == "pad":
                        A = b"\x00" + A
                    m3_sent.append({"A": A, "proof": proof, "a": a, "xch": xch})
                    kind = f"M3-honest-{op['code']}-{v}" + ("-padA" if op["spell"] == "pad" else "")
                elif op["mode"] == "deg":
                    def spell_A(k):
                        kN = ref.i2b(k * ref.N)
                        return {"min": kN, "pad": b"\x00\x00" + kN, "empty": b"", "zero": b"\x00"}[op["spell"]]

                    k = op["k"]
                    A = spell_A(k)
                    _, m1, _ = ref.degenerate_proof(csalt, A, cB)
                    if op.get("find") == "m0-zero" and op["spell"] in ("min", "pad"):
                        # the attacker's own search: only salt, B and public constants are needed
                        for k in range(max(op["k"], 1), max(op["k"], 1) + 400):
                            A = spell_A(k)
                            _, m1, _ = ref.degenerate_proof(csalt, A, cB)
                            if m1[0] == 0:
                                break
                    prev = [m for m in m3_sent if m["xch"] == xch]
                    proof = {"s0": m1, "s0-strip": m1.lstrip(b"\x00") or b"\x00", "s0-pad": b"\x00" + m1, "s0-trunc": m1[:-1],
                             "stale": prev[-1]["proof"] if prev else m1}.get(op["proof"], bytes.fromhex(op["rand"]))
                    m3_sent.append({"A": A, "proof": proof, "a": None, "xch": xch})
                    kind = f"M3-degenerate-{op['spell']}-{op['proof']}" + ("-searched" if op.get("find") else "")
                elif op["mode"] == "overlong":
                    rnd = bytes.fromhex(op["rand"])
                    A = {"z+N1": b"\x00" + ref.i2b(ref.N + 1), "zz+2": b"\x00\x00" + ref.i2b(ref.N + 2),
                         "big": ref.i2b((1 << 3072) + ref.b2i(rnd[:16])), "z+rand": b"\x00" + rnd[:383] + b"\x01"}[op["shape"]]
                    if ref.b2i(A) % ref.N == 0:
                        A = A[:-1] + bytes([A[-1] ^ 1])
                    prev = [m for m in m3_sent if m["xch"] == xch]
                    _, m1, _ = ref.degenerate_proof(csalt, A, cB)
                    proof = {"stale": prev[-1]["proof"] if prev else m1, "s0": m1}.get(op["proof"], rnd[:64])
                    m3_sent.append({"A": A, "proof": proof, "a": None, "xch": xch})
                    kind = f"M3-overlong-{op['shape']}-{op['proof']}"
                elif op["mode"] == "replay":
                    if m3_sent:
                        old = m3_sent[op["i"] % len(m3_sent)]
                        A, proof = old["A"], old["proof"]
                        m3_sent.append(dict(old))
                    else:
                        A, proof = b"\x05", b""
                        m3_sent.append({"A": A, "proof": proof, "a": None, "xch": xch})
                else:
                    rnd = bytes.fromhex(op["rand"])
                    A, proof = rnd, hashlib.sha512(rnd).digest()
                    m3_sent.append({"A": A, "proof": proof, "a": None, "xch": xch})
                drop = op.get("drop") or {"noA": "A", "noM": "M"}.get(op.get("what"))
                a_sent, m_sent = drop not in ("A", "both"), drop not in ("M", "both")
                if drop:
                    kind += "-drop" + drop
                if a_sent:
                    # whatever the handler does with the rest, this A may now be the accessory's A
                    last_A_public = ref.b2i(A) % ref.N == 0
                    last_m3_kind = "degenerate" if last_A_public else "other"
                    code_key = (cl.K if (op["mode"] == "honest" and op["code"] == "ok" and pcode == code and cur
                                         and op["spell"] == "min")
                                else None)
                sent = m3_sent[-1]
                stale = sent["xch"] != xch   # bytes recorded in an earlier exchange: whoever sends them shows nothing now
                if cur and sent["a"] is not None and a_sent and m_sent and not stale:
                    exp = ref.client(code, cur[0], cur[1], sent["a"])
                    is_demo = ref.b2i(sent["A"]) == ref.b2i(exp.A_bytes) and sent["proof"] == exp.M1
                    if is_demo:
                        good_client = exp
                body = tlv8.encode([(pc.T_STATE, b"\x03")] + ([(pc.T_PUBLIC_KEY, A)] if a_sent else [])
                                   + ([(pc.T_PROOF, proof)] if m_sent else []))
            elif op["op"] == "M5":
                kind = "M5-" + op["mode"]
                if op["mode"] == "replay":
                    body = m5_sent[op["i"] % len(m5_sent)] if m5_sent else tlv8.encode([(pc.T_STATE, b"\x05")])
                else:
                    rnd_key = bytes.fromhex(op["rand"])
                    K = {"sess": last_client.K if last_client else K_S0,
                         "good": good_client.K if good_client else (last_client.K if last_client else K_S0),
                         "s0": K_S0,
                         "lastA": K_S0 if last_A_public else rnd_key,   # K for the last A, if public data give it
                         "random": rnd_key}[op["key"]]
                    m5_key, m5_public = K, op["key"] in ("s0", "random", "lastA")
                    ltsk = ed25519.Ed25519PrivateKey.from_private_bytes(bytes.fromhex(op["ctrl_seed"]))
                    ident = op["ident"].encode()
                    sub, ltpk = pc.m5_subtlv(K, ident, ltsk)
                    s = op["sub"]
                    if s == "badsig":
                        d = pc.parse(sub)
                        sig = d[pc.T_SIGNATURE]
                        sub = tlv8.encode([(pc.T_IDENTIFIER, ident), (pc.T_PUBLIC_KEY, ltpk),
                                           (pc.T_SIGNATURE, bytes([sig[0] ^ 1]) + sig[1:])])
                    elif s == "wrongid":
                        ident = b"not-a-uuid\xff"
                        sub, ltpk = pc.m5_subtlv(K, ident, ltsk)
                    elif s == "malformed":
                        sub = sub[:-3] + b"\x01"
                    elif s == "missing":
                        d = pc.parse(sub)
                        sub = tlv8.encode([(pc.T_IDENTIFIER, ident), (pc.T_SIGNATURE, d[pc.T_SIGNATURE])])
                    elif s == "badkey":
                        d = pc.parse(sub)
                        sub = tlv8.encode([(pc.T_IDENTIFIER, ident), (pc.T_PUBLIC_KEY, ltpk[:31]),
                                           (pc.T_SIGNATURE, d[pc.T_SIGNATURE])])
                    elif s == "split-id":
                        d = pc.parse(sub)
                        sub = tlv8.encode([(pc.T_IDENTIFIER, ident[:10]), (pc.T_IDENTIFIER, ident[10:]), (pc.T_PUBLIC_KEY, ltpk),
                                           (pc.T_SIGNATURE, d[pc.T_SIGNATURE])])
                    idents.append(ident)
                    sealed_identity = (ident, ltpk)
                    if s == "outer-id":
                        # somebody who has seen no key at all adds his own identity OUTSIDE the sealed data
                        mitm = ed25519.Ed25519PrivateKey.from_private_bytes(hashlib.sha256(bytes.fromhex(op["ctrl_seed"])).digest())
                        mitm_pk = mitm.public_key().public_bytes(serialization.Encoding.Raw, serialization.PublicFormat.Raw)
                        mitm_id = ("%08X-0000-4000-8000-%012X" % (0xFEEDFACE, int(op["ctrl_seed"][:12], 16))).encode()
                        idents.append(mitm_id)
                        body = tlv8.encode([(pc.T_STATE, b"\x05"), (pc.T_IDENTIFIER, mitm_id), (pc.T_PUBLIC_KEY, mitm_pk),
                                            (pc.T_SIGNATURE, mitm.sign(mitm_id + mitm_pk)),
                                            (pc.T_ENCRYPTED, pc.seal(pc.m5_key(K), b"PS-Msg05", sub))])
                    elif s == "noenc":
                        body = tlv8.encode([(pc.T_STATE, b"\x05")])
                    elif s == "short":
                        body = tlv8.encode([(pc.T_STATE, b"\x05"), (pc.T_ENCRYPTED, bytes.fromhex(op["rand"])[:9])])
                    else:
                        body = pc.m5_body(K, sub)
                    kind = f"M5-key-{op['key']}-sub-{s}"
                m5_sent.append(body)
            elif op["op"] == "seq":
                b = op["byte"]
                if b is None:
                    body = tlv8.encode([(pc.T_METHOD, b"\x00")])
                elif b == "long":
                    body = tlv8.encode([(pc.T_STATE, b"\x01\x00")])
                else:
                    body = tlv8.encode([(pc.T_STATE, bytes([b])), (pc.T_METHOD, b"\x00")])
                kind = "unknown-sequence"
            else:
                body = bytes.fromhex(op["body"])
                kind = "raw-bytes"

            # an M5 sealed under the session key that only the correct code yields for the current exchange
            # also demonstrates knowledge of the code (the shipped code pairs such a peer even when its M3
            # proof was garbled; C01 as worded does not forbid that)
            m5_with_code_key = (op["op"] == "M5" and op.get("mode") == "new" and not m5_public
                                and code_key is not None and m5_key == code_key)
            r = sc.send(body, salt, secret, conn=op["conn"], idents=idents)
            o = outputs(r)
            # ---- the specification predicate "this request is an M3 carrying the proof expected for its A, A != 0 mod N,
            # in the open exchange of an unpaired accessory", evaluated by the reference (never by pyhap / the model)
            tq = pc.parse(body) or {}
            ref_good = False
            if (tq.get(pc.T_STATE) == b"\x03" and pc.T_PUBLIC_KEY in tq and pc.T_PROOF in tq and g_open is not None
                    and not r["paired_before"] and ref.b2i(tq[pc.T_PUBLIC_KEY]) % ref.N != 0):
                if len(g_open) == 3:   # v and B of this exchange, once
                    v_ = pow(ref.G, ref.x_of(g_open[1], g_open[0]), ref.N)
                    g_open = g_open + ((v_, ref.i2b((ref.k_mult() * v_ + pow(ref.G, g_open[2], ref.N)) % ref.N)),)
                ref_good = ref.server_expected(g_open[0], g_open[1], g_open[2], tq[pc.T_PUBLIC_KEY], vB=g_open[3])[1] == tq[pc.T_PROOF]
            # ---- the oracle: exactly what C01 states
            if o["O1"] and not is_demo:
                viol.append([
                    "C01:proof-issued-without-code:" + ("degenerate-A" if last_m3_kind == "degenerate" else
                                                        "replayed-from-earlier-exchange" if op.get("mode") == "replay" else
                                                        "stale-proof-of-previous-M3" if (op.get("proof") == "stale" or op.get("variant") == "stale")
                                                        else "wrong-proof"),
                    f"M4 carries the accessory's SRP proof although the M3 ({kind}) does not demonstrate knowledge of the setup code",
                ])
            if (o["O2"] or o["O3"]) and not (demo or m5_with_code_key):
                how = ("after-the-exchange-was-consumed" if consumed else
                       "after-degenerate-A" if last_m3_kind == "degenerate" else
                       "in-a-later-exchange" if demo_elsewhere else "without-demonstration")
                what = "+".join(k for k in ("O2", "O3") if o[k])
                viol.append([
                    f"C01:identity-or-pairing-{how}",
                    f"{kind} yields {what} (M6 identity / recorded pairing) although no M3 of the current exchange "
                    f"demonstrated knowledge of the setup code; pairings now: {len(r['paired'])}",
                ])
            if (o["O2"] or o["O3"]) and op["op"] == "M5" and op.get("mode") == "new" and m5_public \
                    and op["sub"] == "valid":
                viol.append([
                    "C01:pairing-with-public-session-key",
                    f"{kind} is accepted: the accessory's session key is one anybody can compute (S = 0) or guess, so the "
                    f"peer that gets paired has demonstrated nothing; pairings now: {len(r['paired'])}",
                ])
            if o["O3"] and sealed_identity is not None:
                # pairing origin: what gets recorded is the identity SEALED in the M5 under the session key, nothing else
                want = [hx(str(uuid_mod.UUID(sealed_identity[0].decode())).encode()), hx(sealed_identity[1]), 1] \
                    if pe.uuid_canonical(sealed_identity[0]) else None
                new = [e for e in r["paired"] if e not in r["paired_before"]]
                if any(e != want for e in new):
                    viol.append([
                        "C01:recorded-pairing-is-not-the-identity-sealed-in-M5",
                        f"{kind} records {new!r} but the M5 sealed under the session key carries {want!r}: a party that "
                        f"never held the session key (hence not the code) is registered as a controller",
                    ])
            # ---- ghost update
            t = _parse(r) or {}
            if t.get(pc.T_STATE) == b"\x02" and pc.T_ERROR not in t and pc.T_SALT in t and pc.T_PUBLIC_KEY in t:
                cur = (t[pc.T_SALT], t[pc.T_PUBLIC_KEY])
                g_open, g_demoA = (code, t[pc.T_SALT], ref.b2i(secret)), None
                xch += 1
                consumed = False
                demo_elsewhere = demo_elsewhere or demo
                demo = False
                code_key = None
                last_m3_kind = "none"
            if is_demo:
                demo = True
            if o["O2"] or o["O3"]:
                # the exchange is single use: an accepted M5 consumes it.  Nothing sent afterwards (replayed or
                # new, M3 or M5) counts for "this very exchange" until the accessory issues a new M2.
                consumed, demo_elsewhere = True, demo_elsewhere or demo
                demo, cur, code_key, good_client = False, None, None, None
                g_open, g_demoA = None, None
                xch += 1
            elif ref_good and not (t.get(pc.T_STATE) == b"\x02" and pc.T_ERROR not in t):
                g_demoA = tq[pc.T_PUBLIC_KEY]
            sc.results[-1]["ghost"] = {"good": ref_good, "exch": None if g_open is None else hx(g_open[1]),
                                       "demoA": None if g_demoA is None else hx(g_demoA)}
            kinds.append(kind)
            outs.append(_outcome(r, t, o))
        return {"line": sc.model_line(), "impl": sc.impl_view(), "viol": viol, "kinds": kinds, "outs": outs,
                "bodies": [o_.get("body", o_.get("ev")) for o_ in sc.ops]}
    finally:
        if own_env:
            env.close()


def _outcome(r, t, o) -> str:
    if r["status"] != 200:
        return "http500-json" if r["ctype"] else "http500-silent"
    st = t.get(pc.T_STATE, b"?").hex()
    if pc.T_ERROR in t:
        return f"M{int(st, 16)}-error-{t[pc.T_ERROR].hex()}"
    return f"M{int(st, 16)}-ok" + ("-paired" if o["O3"] else "")


# --------------------------------------------------------------------------- numeric stream (degenerate A)


def impl_numeric(code: bytes, salt: bytes, b: int, A: bytes, M: bytes) -> Dict[str, Any]:
    import pyhap.hsrp as hsrp
    import pyhap.params as params

    c = params.get_srp_context(3072, hashlib.sha512, 16)
    try:
        srv = hsrp.Server(c, USER, code, s=salt, b=b)
        srv.set_A(A)
        r = srv.verify(M)
        return {"B": hx(ref.i2b(srv.B)), "S": hx(ref.i2b(srv.S)), "Kb": hx(srv.Kb), "M": hx(srv.M),
                "HAMK": hx(srv.HAMK), "verify": None if r is None else hx(r),
                "verified": bool(getattr(srv, "verified", r is not None))}
    except Exception as ex:  # noqa: BLE001
        return {"err": type(ex).__name__}


def _numeric_worker(c):
    return impl_numeric(c["code"].encode(), bytes.fromhex(c["salt"]), int(c["b"], 16), bytes.fromhex(c["A"]),
                        bytes.fromhex(c["M"]))


def numeric_cases(ctx: Ctx):
    rng = ctx.rng
    cases = []
    spellings = [(0, b""), (0, b"\x00"), (1, None), (2, None), (1, "pad"), (5, None)]
    for i in range(ctx.n(16, 300)):
        k, sp = spellings[i % len(spellings)] if i < 12 else (rng.randrange(0, 300), rng.choice([None, "pad"]))
        A = sp if isinstance(sp, bytes) else ref.i2b(k * ref.N)
        if sp == "pad":
            A = b"\x00" + A
        code = ("%03d-%02d-%03d" % (rng.randrange(1000), rng.randrange(100), rng.randrange(1000))).encode()
        salt, b = _rb(rng, 16), rng.getrandbits(256) | 1
        Bb = ref.i2b(ref.server_B(code, salt, b))
        _, m1, m2 = ref.degenerate_proof(salt, A, Bb)
        cases.append({"code": code.decode(), "salt": hx(salt), "b": "%x" % b, "A": hx(A), "M": hx(m1), "k": k})
    return cases


# --------------------------------------------------------------------------- run


def _judge(ctx: Ctx, plan, res, world=None):
    for sig, desc in res["viol"]:
        if world is not None:
            if plan.get("peer_code", plan["code"]) != plan["code"]:
                sig += ":with-another-accessorys-code"
            if not any(f.signature == sig for f in ctx.failures):
                ctx.fail(sig, desc + f" [accessory with setup code {plan['code']!r}; the peer only knows "
                         f"{plan.get('peer_code', plan['code'])!r}; world: "
                         + ("one driver whose setup code was changed" if world.get("same_driver") else "two accessories in one process")
                         + ", codes in order " + ", ".join(p["code"] for p in world["plans"]) + "]",
                         {"kind": "world", "world": world})
            continue
        if not any(f.signature == sig for f in ctx.failures):
            small = _minimise(plan, sig)
            ctx.fail(sig, desc + f" [code {plan['code']!r}, {len(small['ops'])} requests: "
                     + ", ".join(o["op"] + ("/" + o.get("mode", "") if o.get("mode") else "") for o in small["ops"]) + "]",
                     {"kind": "script", "plan": small})


def _minimise(plan, sig):
    def still(ops):
        p = dict(plan, ops=ops)
        try:
            return any(s == sig for s, _ in pe.isolated(run_plan, p)["viol"])
        except Exception:  # noqa: BLE001
            return False

    ops = delta_min(plan["ops"], still, max_steps=40)
    return dict(plan, ops=ops)


def run(ctx: Ctx):
    import sys

    assert sys.byteorder == "little"
    st = ctx.stats
    rng = ctx.rng
    st.rule = (
        "streams: script (request sequences over the C01 menu on one accessory, 1-2 connections, real crypto; per op "
        "HTTP status, content type, body bytes, pairing_changed, paired_clients compared with PairSetup.lean; plus the "
        "SPECIFICATION side of the theorems — goodM3 of each request and the ghost (open exchange, demonstrating A) — compared "
        "with the same notions recomputed from the wire by the reference server formulas) and numeric "
        "(hsrp.Server on A = 0 mod N vs Srp.lean).  A script is non-trivial if some request reaches a refusing or "
        "state-changing branch of the handler (all non-empty scripts do); distinct by the request bodies."
    )
    st.notes.append("the model's verify compares proofs as BYTE STRINGS (List UInt8 equality), as hsrp does: a stripped, "
                    "zero-padded or truncated proof is a different string; the stream sends such variants of the honest and "
                    "of the public S=0 proof, proofs carried over from the previous M3 of the session, k*N for k up to 400 with "
                    "an attacker-side search for a proof of a wanted shape, and A spelled with more than 384 bytes")
    items = boundary_plans(rng) + worlds(rng, ctx.n(4, 200)) + [random_plan(rng) for _ in range(ctx.n(220, 8000))]
    plans, results, owners = [], [], []
    for item, rs in zip(items, pe.pmap(run_item, items, workers=12)):
        for plan, res in zip(item["plans"] if item.get("world") else [item], rs):
            plans.append(plan)
            results.append(res)
            owners.append(item if item.get("world") else None)

    lines: List[Dict[str, Any]] = []
    impl: List[Any] = []
    tags: List[Any] = []
    for plan, res, world in zip(plans, results, owners):
        _judge(ctx, plan, res, world)
        if world is not None:
            st.hit("op", "world-" + ("one-driver-code-changed" if world.get("same_driver") else "two-accessories"))
        lines.append(res["line"])
        impl.append(res["impl"])
        tags.append(("script", len(plan["ops"])))
        for k in res["kinds"]:
            st.hit("op", k)
        for o in res["outs"]:
            st.hit("outcome", o)
        st.case(["s", res["bodies"], plan["prepaired"]], bool(plan["ops"]))

    # numeric stream
    ncases = numeric_cases(ctx)
    for c, got in zip(ncases, pe.pmap(_numeric_worker, ncases, workers=12)):
        code, salt, b = c["code"].encode(), bytes.fromhex(c["salt"]), int(c["b"], 16)
        A, M = bytes.fromhex(c["A"]), bytes.fromhex(c["M"])
        if got.get("verify") is not None:
            ctx.fail("C01:srp-verify-accepts-degenerate-A",
                     f"hsrp.Server.verify returns the server proof for A = {c['k']}*N ({len(A)} bytes) and the proof that "
                     f"anybody can compute from public data (S = 0)", {"kind": "numeric", **c})
        lines.append({"layer": "srp", "op": "server", "I": hx(USER), "code": hx(code), "salt": hx(salt),
                      "b": hx(ref.i2b(b)), "A": hx(A), "M": hx(M)})
        impl.append(got)
        tags.append(("numeric", c["k"]))
        st.hit("op", "numeric-degenerate-A")
        st.hit("outcome", "numeric-" + ("accepted" if got.get("verify") else "refused"))
        st.case(["n", c["code"], c["salt"], c["b"], c["A"]], True)

    model = run_model_parallel("C01", lines, workers=12)
    for ln, m, i, tag in zip(lines, model, impl, tags):
        st.traces_validated += 1
        if tag[0] == "script":
            mv = pe.model_view(m, ghost=True)
        else:
            mv = {k: m.get(k) for k in i} if "err" not in i else m
        if mv != i:
            ctx.disagree(tag[0], {"tag": tag, "line": pe.short(json.dumps(ln), 300)}, _diff(mv, i), "see model")

    for n in (0, 20, len(plans) - 1):
        st.sample({"script": results[n]["kinds"], "impl": results[n]["outs"],
                   "model_agrees": pe.model_view(model[n], ghost=True) == impl[n], "oracle": results[n]["viol"] or "ok"})


def _diff(m, i):
    if isinstance(m, dict) and isinstance(i, dict):
        for k in sorted(set(m) | set(i)):
            if m.get(k) != i.get(k):
                return {"field": k, "model": pe.short(m.get(k), 80), "impl": pe.short(i.get(k), 80)}
    if isinstance(m, list) and isinstance(i, list):
        for n, (x, y) in enumerate(zip(m, i)):
            if x != y:
                return {"op": n, **_diff(x, y)}
        return {"len_model": len(m), "len_impl": len(i)}
    return {"model": pe.short(m, 120), "impl": pe.short(i, 120)}


def search(ctx: Ctx):
    """Deeper failing-input search on the real code (oracle only)."""
    rng = ctx.rng
    items = boundary_plans(rng) + worlds(rng, 300) + [random_plan(rng) for _ in range(1500)]
    for item, rs in zip(items, pe.pmap(run_item, items, workers=12)):
        for plan, res in zip(item["plans"] if item.get("world") else [item], rs):
            _judge(ctx, plan, res, item if item.get("world") else None)


def replay(ctx: Ctx, r):
    if r["kind"] == "script":
        plan = r["plan"]
        res = pe.isolated(run_plan, plan)
        print(f"script on an accessory with setup code {plan['code']!r}, pre-paired: {bool(plan['prepaired'])}")
        for k, o in zip(res["kinds"], res["outs"]):
            print(f"  {k:40s} -> {o}")
        for sig, desc in res["viol"]:
            ctx.fail(sig, desc, r)
    elif r["kind"] == "world":
        w = r["world"]
        print("world:", "one driver whose setup code is changed" if w.get("same_driver") else "two accessories in one process")
        for plan, res in zip(w["plans"], pe.isolated(run_world, w)):
            print(f" accessory with setup code {plan['code']!r}; the peer uses {plan.get('peer_code', plan['code'])!r}")
            for k, o in zip(res["kinds"], res["outs"]):
                print(f"  {k:40s} -> {o}")
            for sig, desc in res["viol"]:
                if plan.get("peer_code", plan["code"]) != plan["code"]:
                    sig += ":with-another-accessorys-code"
                ctx.fail(sig, desc, r)
    elif r["kind"] == "numeric":
        got = impl_numeric(r["code"].encode(), bytes.fromhex(r["salt"]), int(r["b"], 16), bytes.fromhex(r["A"]),
                           bytes.fromhex(r["M"]))
        print(f"hsrp.Server, A = {r['k']}*N, public-data proof: S = {got.get('S') or '0'}, verify -> {pe.short(got.get('verify'), 24)}")
        if got.get("verify") is not None:
            ctx.fail("C01:srp-verify-accepts-degenerate-A", "verify returns the server proof for A = 0 mod N", r)
    else:
        print("nothing to replay for kind", r["kind"])
    for f in ctx.failures:
        print("FAILS:", f.signature, f.description)
    print("verdict:", "property violated on this input" if ctx.failures else "holds on this input")
    return 1 if ctx.failures else 0
