"""C02 — Secure sessions are granted only to currently paired controllers.

Real HAPServerProtocol objects (fake transports, several connections sharing one AccessoryDriver)
are driven by the independent reference controller harness/ref/pairverify_client.py with REAL
X25519 / Ed25519 / ChaCha20-Poly1305 / HKDF.  The same concrete scripts (same request bytes) are run
through the Lean model (Drivers/C02), whose crypto parameters are instantiated by tables computed by
the reference.  The oracle is the iff of the property evaluated by the reference side.
"""
from __future__ import annotations

import asyncio
import logging
import uuid as uuidlib
from typing import Any, Dict, List, Optional
from unittest.mock import patch

from common import Ctx, ModelError, hx, run_model_parallel
from ref import pairverify_client as rc
from ref import tlv8

PROP = "C02"
LEAN_MODULE = "Props.C02"


def extract(ctx):
    """regenerate the protocol-constant table from the source under check"""
    import sys as _sys

    from common import LEAN, REPO, VERIF

    _sys.path.insert(0, str(VERIF / "extract"))
    import handler_consts

    handler_consts.write(REPO, LEAN)
TRUSTED = [
    "Lean 4.33 kernel; axioms propext, Classical.choice, Quot.sound only (audited by #print axioms)",
    "cryptographic hardness (Ed25519 unforgeability, ChaCha20-Poly1305 integrity, X25519/HKDF collision freedom) enters "
    "only as the hypothesis records IdealSig / IdealAEAD / IdealDH / FreshKeys and their symbolic-strength forms StrongSig / "
    "StrongAEAD (satisfiable: instance Sym proves them all); the attacker of C02_session_origin is restricted by the Dolev-Yao "
    "rule for signatures as a condition on runs (Obeys) - proved as a derivation-closure theorem for terms "
    "(C02_dy_signature_rule), assumed to carry over to byte strings (no term->bytes encoding is modelled)",
    "hand-written model lean/HapModel/PairVerify.lean of handle_pair_verify/_pair_verify_one/_pair_verify_two, State "
    "pairing maps and the cipher installation in _process_response, tied by this differential run (same request bytes; "
    "crypto/uuid answers supplied as tables by the reference controller)",
    "harness/ref/pairverify_client.py (independent controller: pair-verify, frame codec, HTTP reader) on the "
    "`cryptography` primitives, harness/ref/tlv8.py, generators; cryptography/h11/uuid libraries; asyncio transport contract",
    "rig configuration (generator dimension, invisible to the model by design): stock classes or application subclasses of "
    "AccessoryDriver / Accessory overriding the public hooks in the usual style; IPv4 or IPv6 peer names",
    "uuid_to_bytes bookkeeping and persistence scheduling inside _pair_verify_two are not modelled (not observable here)",
]

CT = "application/pairing+tlv8"

IDS = [
    "1a2b3c4d-0001-4000-8000-00000000a001",
    "1a2b3c4d-0002-4000-8000-00000000b002",
    "1a2b3c4d-0003-4000-8000-00000000c003",
    "1a2b3c4d-0004-4000-8000-00000000d004",  # never paired by the C02 generator
    "1a2b3c4d-0005-4000-8000-00000000e005",
]
SPELLINGS = ["upper", "lower", "mixed", "braces", "nodash"]
BAD_IDS = [b"", b"not-a-uuid", b"\xff\xfe\xfd", b"1a2b3c4d-0001-4000-8000-00000000a00", b"zzzzzzzz-0001-4000-8000-00000000a001"]


def spell(i: int, sp: str) -> bytes:
    s = IDS[i]
    if sp == "upper":
        return s.upper().encode()
    if sp == "lower":
        return s.lower().encode()
    if sp == "mixed":
        return "".join(ch.upper() if k % 2 else ch for k, ch in enumerate(s)).encode()
    if sp == "braces":
        return ("{" + s + "}").encode()
    if sp == "nodash":
        return s.replace("-", "").encode()
    raise ValueError(sp)


def parse_uuid(b: bytes) -> Optional[uuidlib.UUID]:
    """The library parameter `uuid.UUID(str(b, "utf-8"))` (None = raises)."""
    try:
        return uuidlib.UUID(str(b, "utf-8"))
    except (ValueError, TypeError):
        return None


# ----------------------------------------------------------------------------- real objects


class FakeTransport(asyncio.Transport):
    """What asyncio guarantees: bytes written before close reach the peer, nothing afterwards."""

    def __init__(self, peer):
        super().__init__()
        self.peer = peer
        self.out = bytearray()
        self.dropped = bytearray()
        self.closed = False
        self.eof = False

    def get_extra_info(self, name, default=None):
        return self.peer if name == "peername" else default

    def set_write_buffer_limits(self, high=None, low=None):
        pass

    def write(self, data):
        if self.closed or self.eof:
            self.dropped += bytes(data)
            return
        self.out += bytes(data)

    def writelines(self, lines):
        self.write(b"".join(bytes(x) for x in lines))

    def write_eof(self):
        self.eof = True

    def can_write_eof(self):
        return True

    def close(self):
        self.closed = True

    def abort(self):
        self.closed = True

    def is_closing(self):
        return self.closed


class RefConn:
    """What the reference controller knows about one connection."""

    def __init__(self):
        self.cur: Optional[rc.Exchange] = None  # latest M1 the accessory answered, not yet consumed
        self.session: Optional[rc.Session] = None  # the controller's view of the transport
        self.session_key: Optional[bytes] = None
        self.verified_as: Optional[uuidlib.UUID] = None  # completed a valid verify (reference's judgement)
        self.last: Optional[rc.Exchange] = None  # the exchange consumed by the last completed verify


import concurrent.futures as _cf


class _InlineExecutor(_cf.ThreadPoolExecutor):
    """run_in_executor jobs (the state save) run to completion at the moment they are scheduled."""

    def submit(self, fn, /, *args, **kwargs):
        f: _cf.Future = _cf.Future()
        try:
            f.set_result(fn(*args, **kwargs))
        except BaseException as ex:  # noqa: BLE001
            f.set_exception(ex)
        return f


class _StubAdvertiser:
    """mDNS advertiser of a started driver (nothing is sent anywhere)."""

    async def async_register_service(self, *_a, **_k):
        return None

    async def async_unregister_service(self, _info):
        return None

    async def async_update_service(self, _info):
        return None

    async def async_close(self):
        return None


FRAMES = ["split-body", "split-3", "split-last", "chunked", "chunked-split"]


def reframe(raw: bytes, frame: Optional[str]) -> List[bytes]:
    """The same HTTP request in another legal framing; one list element per read on the accessory's side.
    split-body: headers + half of the body, then the rest; split-3: headers / a third / the rest; split-last: the last byte
    on its own; chunked: Transfer-Encoding: chunked with three chunks in one read; chunked-split: the same in two reads."""
    if not frame or b"\r\n\r\n" not in raw:
        return [raw]
    he = raw.index(b"\r\n\r\n") + 4
    head, body = raw[:he], raw[he:]
    if len(body) < 3:
        return [raw]
    if frame.startswith("chunked"):
        lines = [ln for ln in head[:-4].split(b"\r\n") if not ln.lower().startswith(b"content-length")]
        head = b"\r\n".join(lines + [b"Transfer-Encoding: chunked"]) + b"\r\n\r\n"
        k = len(body) // 3
        enc = b"".join(b"%x\r\n%s\r\n" % (len(x), x) for x in (body[:k], body[k : 2 * k], body[2 * k :])) + b"0\r\n\r\n"
        w = head + enc
        if frame == "chunked":
            return [w]
        cut = len(head) + len(enc) // 2
        return [w[:cut], w[cut:]]
    if frame == "split-body":
        return [head + body[: len(body) // 2], body[len(body) // 2 :]]
    if frame == "split-3":
        return [head, body[: len(body) // 3], body[len(body) // 3 :]]
    if frame == "split-last":
        return [raw[:-1], raw[-1:]]
    return [raw]


def app_subclasses(driver_base, accessory_base):
    """Application subclasses in the usual style (what e.g. Home Assistant's HomeDriver / HomeAccessory do): every public
    hook is overridden, calls super() and adds (here: no) logic of its own.  Hooks without a documented return value return
    nothing; hooks with a documented return value pass it through."""

    class AppDriver(driver_base):
        # ---- hooks without a documented return value
        def unpair(self, client_uuid):
            super().unpair(client_uuid)

        def finish_pair(self):
            super().finish_pair()

        def connection_lost(self, client):
            super().connection_lost(client)

        def async_persist(self):
            super().async_persist()

        def persist(self):
            super().persist()

        def config_changed(self):
            super().config_changed()

        def async_update_advertisement(self):
            super().async_update_advertisement()

        def update_advertisement(self):
            super().update_advertisement()

        def async_subscribe_client_topic(self, client, topic, subscribe=True):
            super().async_subscribe_client_topic(client, topic, subscribe)

        def publish(self, data, sender_client_addr=None, immediate=False):
            super().publish(data, sender_client_addr, immediate)

        # ---- hooks with a documented return value
        def pair(self, client_username_bytes, client_public, client_permissions):
            return super().pair(client_username_bytes, client_public, client_permissions)

        def get_accessories(self, *a, **kw):
            return super().get_accessories(*a, **kw)

        def get_characteristics(self, char_ids):
            return super().get_characteristics(char_ids)

        def set_characteristics(self, chars_query, client_addr):
            return super().set_characteristics(chars_query, client_addr)

        def prepare(self, prepare_query, client_addr):
            return super().prepare(prepare_query, client_addr)

    class AppAccessory(accessory_base):
        def setup_message(self):
            super().setup_message()

        def publish(self, value, sender, sender_client_addr=None, immediate=False):
            super().publish(value, sender, sender_client_addr, immediate)

        async def run(self):
            await super().run()

        async def stop(self):
            await super().stop()

    return AppDriver, AppAccessory


class World:
    """One accessory (real AccessoryDriver + State) with any number of real protocol objects."""

    def __init__(self, rng, persist_file: Optional[str] = None, cfg: Optional[Dict[str, Any]] = None):
        """cfg: configuration of the rig (legal, non-default ways of running the same accessory):
          driver = "stock" | "subclass"  the application uses AccessoryDriver / Accessory directly, or subclasses that
                   override the public hook methods in the usual style (call super(), add own logic; hooks that have no
                   documented return value return nothing, hooks with one pass it through);
          family = "ipv4" | "ipv6"       peer names are (host, port) or (host, port, flowinfo, scope_id).
        persist_file=None: saving is stubbed out (state lives in memory only).  With a path the real
        AccessoryDriver.persist()/load() are used (an existing file is loaded: a restart) and saves that
        async_persist hands to the executor are carried out at once."""
        import pyhap.accessory as accessory
        import pyhap.accessory_driver as accessory_driver
        import pyhap.hap_protocol as hap_protocol

        import time as _time

        self.rng = rng
        self.cfg = dict(cfg or {})
        self.persist_file = persist_file
        self.clock_offset = 0.0  # virtual time: op "T" advances every clock the accessory can read
        real_mono, real_time = _time.monotonic, _time.time
        self._patches = [
            patch.object(accessory_driver, "AsyncZeroconf"),
            patch.object(accessory_driver.AccessoryDriver, "persist"),
            patch("pyhap.util.get_local_address", return_value="127.0.0.1"),
            patch("time.monotonic", lambda: real_mono() + self.clock_offset),
            patch("time.time", lambda: real_time() + self.clock_offset),
        ]
        if persist_file is not None:
            del self._patches[1]
        for p in self._patches:
            p.start()
        self.loop = asyncio.new_event_loop()
        asyncio.set_event_loop(self.loop)
        if persist_file is not None or self.cfg.get("driver") == "subclass":
            # (an overriding persist() reaches the stubbed-out base method only when it RUNS: a job still sitting in a
            # thread pool when this world is closed would save for real)
            self.loop.set_default_executor(_InlineExecutor())
        import pyhap.loader as loader
        import os as _os

        self.unused_state = "/tmp/verif-unused-%d.state" % _os.getpid()

        driver_cls, acc_cls = accessory_driver.AccessoryDriver, accessory.Accessory
        if self.cfg.get("driver") == "subclass":
            driver_cls, acc_cls = app_subclasses(accessory_driver.AccessoryDriver, accessory.Accessory)
        kw = {"address": "::1"} if self.cfg.get("family") == "ipv6" else {}
        self.driver = driver_cls(
            loop=self.loop, persist_file=persist_file or self.unused_state, loader=loader.get_loader(), **kw
        )
        self.driver.add_accessory(acc_cls(self.driver, "Acc"))
        self.hap_protocol = hap_protocol
        # the registry the real server would hand to its protocol objects
        self.connections: Dict[Any, Any] = self.driver.http_server.connections
        self.protos: Dict[int, Any] = {}
        self.transports: Dict[int, FakeTransport] = {}
        self.rconn: Dict[int, RefConn] = {}
        self.mac = self.driver.state.mac.encode()

    def close(self):
        try:
            self.loop.run_until_complete(asyncio.sleep(0))
        except Exception:  # noqa: BLE001
            pass
        for p in reversed(self._patches):
            p.stop()
        self.loop.close()
        asyncio.set_event_loop(None)
        try:
            import os as _os

            _os.unlink(self.unused_state)  # never written as long as saving is stubbed out; a later world must not load it
        except OSError:
            pass

    # ---- object lifecycle: the application starts / stops / starts again the SAME driver object in the same process
    def lc_start(self):
        """AccessoryDriver.async_start() for real (the listening socket is the rig's: loop.create_server is stubbed,
        the advertiser is a stub); connections keep arriving through connection_made as before."""
        from unittest.mock import AsyncMock, MagicMock

        d = self.driver
        if getattr(self, "started", False):
            return False
        if not d.advertiser or not isinstance(d.advertiser, _StubAdvertiser):
            d.advertiser = _StubAdvertiser()
        import contextlib
        import io

        with patch.object(self.loop, "create_server", AsyncMock(return_value=MagicMock())), contextlib.redirect_stdout(io.StringIO()):
            self.loop.run_until_complete(d.async_start())  # (an unpaired accessory prints its setup code / QR code)
        self.loop.run_until_complete(asyncio.sleep(0))
        self.started = True
        return True

    def lc_stop(self):
        """AccessoryDriver.async_stop() for real, to completion (closes every connection)."""
        if not getattr(self, "started", False):
            return False
        self.loop.run_until_complete(self.driver.async_stop())
        self.loop.run_until_complete(asyncio.sleep(0))
        self.started = False
        return True

    def peer(self, c: int):
        """Peer name of connection c as the transport of the configured address family reports it."""
        if self.cfg.get("family") == "ipv6":
            return ("fe80::%x" % (c + 1), 40000 + c, 0, 2 if c % 2 else 0)
        return ("10.0.0.%d" % (c + 1), 40000 + c)

    def conn(self, c: int):
        if c not in self.protos:
            p = self.hap_protocol.HAPServerProtocol(self.loop, self.connections, self.driver)
            t = FakeTransport(self.peer(c))
            p.connection_made(t)
            self.protos[c], self.transports[c], self.rconn[c] = p, t, RefConn()
        return self.protos[c], self.transports[c], self.rconn[c]

    def request(self, c: int, raw: bytes, split: Optional[int] = None, frame: Optional[str] = None) -> Dict[str, Any]:
        """Send one HTTP request the way the controller believes the transport works; read the answer.
        split: the wire bytes arrive in two reads cut at this offset.  frame: legal HTTP/1.1 framings of the same request
        (see `reframe`): the body in several reads (each piece sealed on its own inside a session) / chunked encoding."""
        p, t, r = self.conn(c)
        under = r.session_key
        if t.closed:
            return {"status": None, "closed": True, "under": under}
        pieces = reframe(raw, frame)
        t.out.clear()
        try:
            if len(pieces) > 1:
                for piece in pieces:
                    p.data_received(r.session.seal(piece) if r.session else piece)
            else:
                wire = r.session.seal(pieces[0]) if r.session else pieces[0]
                if split and 0 < split < len(wire):
                    p.data_received(wire[:split])
                    p.data_received(wire[split:])
                else:
                    p.data_received(wire)
        except Exception as ex:  # noqa: BLE001  (a protocol object must not raise; C19's business)
            return {"status": None, "raised": type(ex).__name__, "under": under}
        data = bytes(t.out)
        t.out.clear()
        if r.session:
            data, ok = r.session.feed(data)
            if not ok:
                return {"status": None, "garbled": True, "under": under}
        msgs, _rest = rc.parse_http_responses(data)
        if not msgs:
            return {"status": None, "silent": True, "under": under}
        m = msgs[0]
        m["under"] = under
        return m


def canon_resp(m: Dict[str, Any]) -> Dict[str, Any]:
    """Response class of the implementation's answer."""
    st = m.get("status")
    if st is None:
        return {"status": None, "why": [k for k in ("closed", "raised", "garbled", "silent") if k in m]}
    if st == 200 and m["headers"].get("content-type") == CT:
        try:
            items = tlv8.records(m["body"])
        except ValueError:
            return {"status": 200, "raw": hx(m["body"])}
        return {"status": 200, "tlv": [[t, _cv(t, v)] for t, v in tlv8.merge_dict(items).items()]}
    if st == 200:
        return {"status": 200, "served": True}
    return {"status": st}


def _cv(t: int, v: bytes) -> str:
    return f"len:{len(v)}" if t == rc.T_ENC else hx(v)


def canon_model(a: Dict[str, Any]) -> Dict[str, Any]:
    r = dict(a["resp"])
    if "tlv" in r:
        r["tlv"] = [[t, (f"len:{len(v) // 2}" if t == rc.T_ENC else v)] for t, v in r["tlv"]]
    return {"resp": r, "under": a.get("under")}


# ----------------------------------------------------------------------------- script execution


def script_cfg(script) -> Dict[str, Any]:
    """The rig configuration a script asks for ({"op": "config", "driver": .., "family": ..}; default: stock, IPv4)."""
    cfg: Dict[str, Any] = {}
    for op in script:
        if op.get("op") == "config":
            cfg.update({k: v for k, v in op.items() if k != "op"})
    return cfg


def CFG(driver="stock", family="ipv4"):
    return {"op": "config", "driver": driver, "family": family}


CONFIGS = [("subclass", "ipv4"), ("stock", "ipv6"), ("subclass", "ipv6")]



class Runner:
    """Executes one abstract script on the real code, builds the concrete model line, judges."""

    def __init__(self, ctx: Ctx, script: List[Dict[str, Any]], keyseed: int):
        import random

        self.ctx = ctx
        self.script = script
        self.krng = random.Random(keyseed)
        self.cfg = script_cfg(script)
        self.w = World(self.krng, cfg=self.cfg)
        # long-term signing keys of the controllers (index 0..3) + one never registered (index 9)
        self.sk = {j: rc.ed25519.Ed25519PrivateKey.from_private_bytes(self._rb(32)) for j in (0, 1, 2, 3, 9)}
        self.ref_paired: Dict[uuidlib.UUID, Dict[str, Any]] = {}  # reference's own record of the pairings
        self.all_ex: List[rc.Exchange] = []
        self.tables: Dict[str, List[Any]] = {k: [] for k in ("pub", "dh", "hkdf", "dec", "verify", "keyok", "uuid")}
        self.keys_seen: List[bytes] = []
        self.mops: List[Dict[str, Any]] = []
        self.impl: List[Dict[str, Any]] = []
        self.fails: List[tuple] = []
        self.outcomes: List[str] = []
        self.signlog: List[tuple] = []  # every signature a key holder issued: (raw public key, message)

    def _rb(self, n: int) -> bytes:
        return bytes(self.krng.randrange(256) for _ in range(n))

    def pub(self, j) -> bytes:
        if j == "junk":
            return b"\x07" * 31  # not an Ed25519 key (wrong length)
        return rc.raw_pub(self.sk[j])

    def fail(self, sig: str, desc: str):
        self.fails.append((sig, desc))

    # -- reference's own pairing record (spec: removing the last admin removes every pairing)
    def ref_pair(self, u, key, admin):
        self.ref_paired[u] = {"key": key, "admin": admin}

    def ref_unpair(self, u):
        if u in self.ref_paired:
            del self.ref_paired[u]
            if not any(e["admin"] for e in self.ref_paired.values()):
                self.ref_paired.clear()

    def row(self, table: str, r: list):
        if r not in self.tables[table]:
            self.tables[table].append(r)

    def note_key(self, k: bytes):
        if k not in self.keys_seen:
            self.keys_seen.append(k)
            self.row("keyok", [hx(k), rc.ed_key_usable(k)])

    def paired_obs(self):
        st = self.w.driver.state
        return sorted([u.bytes.hex(), hx(k), bool(st.is_admin(u))] for u, k in st.paired_clients.items())

    # -- ops
    def run(self):
        try:
            for n, op in enumerate(self.script):
                getattr(self, "op_" + op["op"])(n, op)
        finally:
            self.w.close()
        return self

    def op_pair(self, n, op):
        ident = spell(op["id"], op["sp"])
        key = self.pub(op["key"])
        u = parse_uuid(ident)
        assert u is not None
        self.w.driver.pair(ident, key, b"\x01" if op["admin"] else b"\x00")
        self.ref_pair(u, key, op["admin"])
        self.note_key(key)
        self.mops.append({"op": "pair", "uuid": u.bytes.hex(), "key": hx(key), "admin": bool(op["admin"])})
        self.impl.append({"paired": self.paired_obs()})
        self.outcomes.append("pair")

    def op_unpair(self, n, op):
        u = uuidlib.UUID(IDS[op["id"]])
        st = self.w.driver.state
        if u in st.paired_clients:  # the guard of _handle_remove_pairing
            if op.get("direct"):
                st.remove_paired_client(u)
            else:
                self.w.driver.unpair(u)
        self.ref_unpair(u)
        self.mops.append({"op": "unpair", "uuid": u.bytes.hex()})
        self.impl.append({"paired": self.paired_obs()})
        self.outcomes.append("unpair")

    def closed(self, c) -> bool:
        """Connection c was closed by the accessory: asyncio delivers nothing any more (op skipped)."""
        _p, t, _r = self.w.conn(c)
        if t.closed:
            self.outcomes.append("skipped-closed")
        return t.closed

    def op_config(self, n, op):
        """Configuration of the rig (read before the accessory is created): no operation of its own."""
        self.outcomes.append("config")

    def op_LC(self, n, op):
        """Object lifecycle of the driver: the application starts it / stops it (every connection is closed) / starts the
        same object again.  Pairings are untouched, so nothing changes for the property (and for the model)."""
        done = self.w.lc_start() if op["what"] == "start" else self.w.lc_stop()
        self.outcomes.append("LC-" + op["what"] + ("" if done else "-noop"))

    def op_T(self, n, op):
        """Time passes (every clock the accessory can read is advanced)."""
        self.w.clock_offset += float(op["dt"])
        self.outcomes.append("T")

    def _m1(self, c, ex, body, op, usable):
        """Send a first message; reference bookkeeping, model tables, oracles."""
        _p, _t, r = self.w.conn(c)
        n = len(self.mops)  # the model names the key pair generated in a step by the step number
        m = self.w.request(c, rc.http_request("POST", "/pair-verify", body, CT), op.get("split"), op.get("frame"))
        got = canon_resp(m)
        answered = m.get("status") == 200 and ex.on_m2(m.get("body", b""), rc.raw_pub_bytes(self.w.driver.state.public_key))
        if answered:
            self.row("pub", [n, hx(ex.sepk)])
            self.row("dh", [n, hx(ex.cepk), hx(ex.shared)])
            self.row("hkdf", [hx(ex.shared), hx(ex.pre)])
            r.cur = ex
            ex.m1_body = body
            ex.conn = c
            # ---- freshness oracle: the proof must be bound to BOTH fresh ephemeral keys, so the accessory's
            # ephemeral public keys of distinct exchanges are pairwise distinct
            seen = self.__dict__.setdefault("sepk_seen", {})
            if ex.sepk in seen:
                self.fail(
                    "C02:accessory-ephemeral-key-reused",
                    f"the accessory answered the first step on connection {c} with the same ephemeral public key as in an "
                    f"earlier exchange (on connection {seen[ex.sepk]}): exchanges are not bound to a fresh accessory key",
                )
            seen.setdefault(ex.sepk, c)
            self.all_ex.append(ex)
        elif usable:
            # the reference expects an answer here; let the model proceed so that the difference shows
            self.row("dh", [n, hx(ex.cepk), "ee" * 32])
        self.mops.append({"op": "verify", "conn": c, "body": hx(body)})
        self.impl.append({"resp": got, "under": _h(m.get("under"))})
        # oracle (completeness needs step 1 to be answered; accessory authentication is checked too)
        if usable and self.ref_paired:
            if not answered:
                self.fail("C02:honest-controller-refused", f"M1 with a valid ephemeral key on a paired accessory was not answered with M2: {got}")
            elif ex.acc_sig_ok is False or ex.acc_id != self.w.mac:
                self.fail("C02:m2-not-authentic", "M2 does not carry the accessory's signature over sepk||id||cepk")
        return answered, got

    def op_V1(self, n, op):
        c = op["conn"]
        if self.closed(c):
            return
        ex = rc.Exchange(rc.x25519.X25519PrivateKey.from_private_bytes(self._rb(32)))
        kind = op.get("eph", "fresh")
        if kind == "zero":
            ex.cepk = b"\x00" * 32
        elif kind == "short":
            ex.cepk = ex.cepk[:31]
        elif kind == "reuse" and self.all_ex:
            prev = self.all_ex[op.get("pick", 0) % len(self.all_ex)]
            ex = rc.Exchange(prev.eph)
        if kind == "nokey":
            body = tlv8.encode([(rc.T_STATE, b"\x01")])
        else:
            body = tlv8.encode([(rc.T_STATE, b"\x01"), (rc.T_PUBKEY, ex.cepk)])
        usable = kind != "nokey" and rc.x25519_usable(ex.cepk)
        answered, got = self._m1(c, ex, body, op, usable)
        self.outcomes.append("V1-" + ("M2" if answered else _cls(got)))

    def op_RX(self, n, op):
        """An eavesdropper replays a completed exchange verbatim (recorded M1 and M3 request bodies) on
        another connection.  It knows no secret, so it must be refused."""
        c = op["conn"]
        if self.closed(c):
            return
        done = [e for e in self.all_ex if getattr(e, "m3_body", None) is not None]
        if not done:
            self.outcomes.append("RX-nothing-recorded")
            return
        src = done[op.get("pick", 0) % len(done)]
        _p, _t, r = self.w.conn(c)
        ex = rc.Exchange(src.eph)  # what the owner of the recorded ephemeral key would compute (for the tables only)
        answered, got = self._m1(c, ex, src.m1_body, op, True)
        self.outcomes.append("RX1-" + ("M2" if answered else _cls(got)))
        body = src.m3_body
        cur = r.cur
        expected, why = self.ref_iff(cur, body)
        self.fill_tables(body)
        m = self.w.request(c, rc.http_request("POST", "/pair-verify", body, CT), op.get("split"), op.get("frame"))
        got = canon_resp(m)
        success = got.get("status") == 200 and got.get("tlv") == [[rc.T_STATE, "04"]]
        self.mops.append({"op": "verify", "conn": c, "body": hx(body)})
        self.impl.append({"resp": got, "under": _h(m.get("under"))})
        if success:
            r.session = rc.Session(ex.shared) if ex.shared else None
            r.session_key = ex.shared
            self.origin_oracle(c, cur, getattr(src, "m3_ident", None))
            self.fail(
                "C02:verbatim-replay-upgraded",
                f"the recorded M1 and M3 request bodies of a completed exchange (connection {getattr(src, 'conn', '?')}), re-sent "
                f"verbatim on connection {c} by a party that knows no secret, were answered with success",
            )
            if expected:  # only possible when the accessory did not use a fresh key
                r.verified_as = src.verified_uuid
                r.last, r.cur = cur, None
        self.outcomes.append("RX3-" + ("upgrade" if success else _cls(got)))

    def op_V3(self, n, op):
        c = op["conn"]
        if self.closed(c):
            return
        _p, _t, r = self.w.conn(c)
        cur = r.cur
        ex = cur
        if ex is None and r.last is not None and not op.get("madeup"):
            ex = r.last  # replay / re-sign within the exchange that was already completed
        if ex is None:  # no context on this connection: the controller makes everything up
            ex = rc.Exchange(rc.x25519.X25519PrivateKey.from_private_bytes(self._rb(32)))
            ex.sepk = self._rb(32)
            ex.shared = self._rb(32)
            ex.pre = rc.pre_session_key(ex.shared)
        others = [e for e in self.all_ex if e is not cur]
        other = others[op.get("pick", 0) % len(others)] if others else None
        # identifier presented
        if "badid" in op:
            ident = BAD_IDS[op["badid"] % len(BAD_IDS)]
        else:
            ident = spell(op["id"], op["sp"])
        # signed material
        mat = op.get("material", "correct")
        if mat == "swapped":
            material = ex.sepk + ident + ex.cepk
        elif mat == "other_sepk":
            material = ex.cepk + ident + (other.sepk if other else self._rb(32))
        elif mat == "other_cepk":
            material = (other.cepk if other else self._rb(32)) + ident + ex.sepk
        elif mat == "other_exchange":
            material = (other.cepk + ident + other.sepk) if other else (self._rb(32) + ident + self._rb(32))
        elif mat == "other_id":
            material = ex.cepk + spell((op.get("id", 0) + 1) % len(IDS), "upper") + ex.sepk
        elif mat == "no_sepk":
            material = ex.cepk + ident
        elif mat == "no_cepk":
            material = ident + ex.sepk
        else:
            material = ex.cepk + ident + ex.sepk
        key = op.get("key", 0)
        if key == "junk":
            sig = self._rb(64)
        else:
            sig = self.sk[key].sign(material)
            self.signlog.append((self.pub(key), material))
        mal = op.get("mal", "none")
        inner = [(rc.T_ID, ident), (rc.T_PROOF, sig)]
        if mal == "no_id":
            inner = [(rc.T_PROOF, sig)]
        elif mal == "no_proof":
            inner = [(rc.T_ID, ident)]
        elif mal == "sig63":
            inner = [(rc.T_ID, ident), (rc.T_PROOF, sig[:63])]
        elif mal == "empty_proof":
            inner = [(rc.T_ID, ident), (rc.T_PROOF, b"")]
        elif mal == "pad":  # harmless extra item: forces a fragmented ENCRYPTED_DATA value
            inner = [(0x99, self._rb(230)), (rc.T_ID, ident), (rc.T_PROOF, sig)]
        elif mal == "proof_first":
            inner = [(rc.T_PROOF, sig), (rc.T_ID, ident)]
        # outer key
        outer = op.get("outer", "correct")
        if outer == "other":
            okey = other.pre if other else self._rb(32)
        elif outer == "random":
            okey = self._rb(32)
        elif outer == "shared":  # the raw shared secret instead of the derived pre-session key
            okey = ex.shared
        else:
            okey = ex.pre
        enc = rc.aead_seal(okey, rc.NONCE_M3, tlv8.encode(inner))
        if mal == "inner_trailing":
            enc = rc.aead_seal(okey, rc.NONCE_M3, tlv8.encode(inner) + b"\x01")
        elif mal == "trunc":
            enc = enc[:-1]
        elif mal == "flip":
            enc = enc[:5] + bytes([enc[5] ^ 1]) + enc[6:]
        elif mal == "empty":
            enc = b""
        elif mal == "wrong_nonce":
            enc = rc.aead_seal(okey, rc.NONCE_M2, tlv8.encode(inner))
        body = tlv8.encode([(rc.T_STATE, b"\x03"), (rc.T_ENC, enc)])
        if mal == "no_enc":
            body = tlv8.encode([(rc.T_STATE, b"\x03")])
        elif mal == "outer_trailing":
            body += b"\x05"
        elif mal == "no_state":
            body = tlv8.encode([(rc.T_ENC, enc)])
        elif mal == "state5":
            body = tlv8.encode([(rc.T_STATE, b"\x05"), (rc.T_ENC, enc)])
        elif mal == "empty_body":
            body = b""

        # ---- the iff of the property, evaluated by the reference with real primitives, BEFORE the call
        expected, why = self.ref_iff(cur, body)
        # self-check of the harness: a message built honestly from what the controller knows
        # (own context, registered key, untouched material) must satisfy the evaluated iff
        u0 = parse_uuid(ident)
        honest = (
            cur is not None and mat == "correct" and outer == "correct" and mal in ("none", "pad", "proof_first")
            and key != "junk" and u0 is not None and u0 in self.ref_paired
            and self.ref_paired[u0]["key"] == self.pub(key)
        )
        if honest and not expected:
            raise AssertionError(f"harness self-check: honest message judged invalid by the reference ({why}); op={op}")
        if expected and not honest:
            self.coincidences = getattr(self, "coincidences", 0) + 1
        # tables: real AEAD / Ed25519 / uuid answers on this concrete input
        self.fill_tables(body)

        before_verified = r.verified_as
        m = self.w.request(c, rc.http_request("POST", "/pair-verify", body, CT), op.get("split"), op.get("frame"))
        got = canon_resp(m)
        success = got.get("status") == 200 and got.get("tlv") == [[rc.T_STATE, "04"]]
        self.mops.append({"op": "verify", "conn": c, "body": hx(body)})
        self.impl.append({"resp": got, "under": _h(m.get("under"))})
        if success:
            # a controller that is told "verified" switches to the session keys of this exchange
            r.session = rc.Session(ex.shared)
            r.session_key = ex.shared
            self.origin_oracle(c, cur, None if "no_id" == mal else ident)
        if expected:
            u = parse_uuid(ident)
            if not success:
                self.fail("C02:honest-controller-refused", f"valid proof for a currently paired controller ({why}) was answered {got}")
            r.verified_as = u
            r.last = cur
            r.cur = None
            if success:
                cur.m3_body = body  # what an eavesdropper records of a completed exchange
                cur.m3_ident = ident
                cur.verified_uuid = u
        elif success:
            self.fail(
                "C02:upgrade-without-valid-proof",
                f"pair-verify M3 answered with success although the verification conditions fail ({why}); op={_short(op)}",
            )
        self.outcomes.append("V3-" + ("upgrade" if success else _cls(got)) + ("" if expected == success else "-UNEXPECTED"))
        _ = before_verified

    def origin_oracle(self, c: int, cur: Optional[rc.Exchange], ident: Optional[bytes]):
        """Session => the holder of the registered key signed THIS exchange (the statement of C02_session_origin on the
        real code): only the harness holds the controllers' secret keys and it logs every signature it makes."""
        u = parse_uuid(ident) if ident is not None else None
        e = self.ref_paired.get(u) if u is not None else None
        if cur is None or e is None:
            return  # no exchange / nobody registered: reported by the iff oracle
        if (e["key"], cur.cepk + ident + cur.sepk) not in self.signlog:
            self.fail(
                "C02:session-without-holder-signature",
                f"connection {c} was upgraded as controller {u}, but the holder of the key registered for it never signed "
                f"cepk||id||sepk of this exchange (the proof was not bound to both ephemeral keys of the exchange by the key holder)",
            )

    def ref_iff(self, cur: Optional[rc.Exchange], body: bytes):
        """Right-hand side of C02, computed with the reference's own knowledge and real primitives."""
        if not self.ref_paired:
            return False, "accessory has no pairings"
        try:
            d = tlv8.merge_dict(tlv8.records(body))
        except ValueError:
            return False, "malformed TLV"
        if d.get(rc.T_STATE) != b"\x03" or rc.T_ENC not in d:
            return False, "not a final message"
        if cur is None:
            return False, "final step without its first step on this connection"
        inner = rc.aead_open(cur.pre, rc.NONCE_M3, d[rc.T_ENC])
        if inner is None:
            return False, "does not open under this connection's pre-session key"
        try:
            sub = tlv8.merge_dict(tlv8.records(inner))
        except ValueError:
            return False, "malformed inner TLV"
        if rc.T_ID not in sub or rc.T_PROOF not in sub:
            return False, "identifier or proof missing"
        u = parse_uuid(sub[rc.T_ID])
        if u is None:
            return False, "identifier is not a UUID"
        e = self.ref_paired.get(u)
        if e is None:
            return False, "identifier not (or no longer) paired"
        if not rc.ed_verify(e["key"], cur.cepk + sub[rc.T_ID] + cur.sepk, sub[rc.T_PROOF]):
            return False, "signature does not verify under the registered key over cepk||id||sepk of this exchange"
        return True, f"id {u} registered key signs cepk||id||sepk"

    def fill_tables(self, body: bytes):
        try:
            d = tlv8.merge_dict(tlv8.records(body))
        except ValueError:
            # pyhap's decoder is more liberal than the reference reader: take what a dict decoder sees
            d = _liberal(body)
        enc = d.get(rc.T_ENC)
        if enc is None:
            return
        for e in self.all_ex:
            inner = rc.aead_open(e.pre, rc.NONCE_M3, enc)
            self.row("dec", [hx(e.pre), hx(enc), None if inner is None else hx(inner)])
            if inner is None:
                continue
            sub = _liberal(inner)
            ident, proof = sub.get(rc.T_ID), sub.get(rc.T_PROOF)
            if ident is not None:
                u = parse_uuid(ident)
                self.row("uuid", [hx(ident), None if u is None else u.bytes.hex()])
                if proof is not None:
                    msg = e.cepk + ident + e.sepk
                    for k in self.keys_seen:
                        self.row("verify", [hx(k), hx(msg), hx(proof), rc.ed_verify(k, msg, proof)])

    def op_L(self, n, op):
        """POST /pairings (list): shows as which controller the connection is authorised."""
        c = op["conn"]
        if self.closed(c):
            return
        _p, _t, r = self.w.conn(c)
        body = tlv8.encode([(rc.T_METHOD, b"\x05")])
        m = self.w.request(c, rc.http_request("POST", "/pairings", body, CT), op.get("split"), op.get("frame"))
        got = canon_resp(m)
        listed = None
        if got.get("status") == 200 and "tlv" in got and not any(t == rc.T_ERROR for t, _ in got["tlv"]):
            listed = sum(1 for t, _ in tlv8.records(m["body"]) if t == rc.T_ID)
            got = {"status": 200, "listed": listed}
        self.mops.append({"op": "list", "conn": c})
        self.impl.append({"resp": got, "under": _h(m.get("under"))})
        who = r.verified_as
        if listed is not None and (who is None or who not in self.ref_paired or not self.ref_paired[who]["admin"]):
            self.fail(
                "C02:pairings-served-under-unproven-identity",
                f"list-pairings on connection {c} was served although the only identity proven on it is "
                f"{'none' if who is None else ('controller ' + str(who) + ', which is not an admin')}",
            )
        self.outcomes.append("L-" + ("listed" if listed is not None else _cls(got)))

    def op_RP(self, n, op):
        """Remove a pairing through POST /pairings on connection c (the protocol's own path)."""
        c = op["conn"]
        if self.closed(c):
            return
        _p, _t, r = self.w.conn(c)
        ident = spell(op["id"], op.get("sp", "upper"))
        u = parse_uuid(ident)
        who = r.verified_as
        may = who is not None and who in self.ref_paired and self.ref_paired[who]["admin"]
        body = tlv8.encode([(rc.T_METHOD, b"\x04"), (rc.T_ID, ident)])
        m = self.w.request(c, rc.http_request("POST", "/pairings", body, CT), op.get("split"), op.get("frame"))
        got = canon_resp(m)
        acked = got.get("status") == 200 and got.get("tlv") == [[rc.T_STATE, "02"]]
        if may:
            # an admin's removal: the pairing map changes as by unpair (that is all the pair-verify model sees);
            # the accessory then closes the sessions of removed controllers -- later ops on them are skipped
            self.ref_unpair(u)
            self.mops.append({"op": "unpair", "uuid": u.bytes.hex()})
            self.impl.append({"paired": self.paired_obs()})
        elif acked:
            self.fail("C02:pairings-served-under-unproven-identity",
                      f"remove-pairing on connection {c} was acknowledged although no admin identity is proven on it")
        self.outcomes.append("RP-" + ("ack" if acked else _cls(got)))

    def op_G(self, n, op):
        c = op["conn"]
        if self.closed(c):
            return
        _p, _t, r = self.w.conn(c)
        m = self.w.request(c, rc.http_request("GET", "/accessories"), op.get("split"), op.get("frame"))
        got = canon_resp(m)
        self.mops.append({"op": "get", "conn": c})
        self.impl.append({"resp": got, "under": _h(m.get("under"))})
        served = got.get("status") == 200 and got.get("served") is True
        if r.verified_as is None:
            if served or (m.get("status") == 200):
                self.fail(
                    "C02:served-without-verify",
                    f"GET /accessories on connection {c}, which never completed a valid pair-verify, was served",
                )
        elif r.verified_as in self.ref_paired and not served:
            self.fail(
                "C02:verified-session-not-served",
                f"GET /accessories on the session of a verified, still paired controller was not served: {got}",
            )
        self.outcomes.append("G-" + ("served" if served else _cls(got)))

    def model_line(self):
        return {"layer": "pv", "mac": hx(self.w.mac), "tables": self.tables, "ops": self.mops}


def _liberal(data: bytes) -> Dict[int, bytes]:
    """dict view of a TLV byte string that tolerates a cut-off tail (only used to fill answer tables)."""
    d: Dict[int, bytes] = {}
    pos = 0
    while pos + 1 < len(data):
        t, ln = data[pos], data[pos + 1]
        d[t] = d.get(t, b"") + data[pos + 2 : pos + 2 + ln]
        pos += 2 + ln
    return d


def _h(b):
    return None if b is None else hx(b)


def _cls(got):
    if got.get("status") == 200 and "tlv" in got:
        d = dict((t, v) for t, v in got["tlv"])
        return f"M{int(d.get(rc.T_STATE, '00'), 16)}" + ("-err" + d[rc.T_ERROR] if rc.T_ERROR in d else "")
    return str(got.get("status"))


def _short(op):
    return {k: v for k, v in op.items() if k != "split"}


# ----------------------------------------------------------------------------- generators


def P(i, key=None, admin=True, sp="upper"):
    return {"op": "pair", "id": i, "sp": sp, "key": i if key is None else key, "admin": admin}


def U(i, direct=False):
    return {"op": "unpair", "id": i, "direct": direct}


def V1(c, **kw):
    return {"op": "V1", "conn": c, **kw}


def V3(c, i=0, key=None, sp="upper", **kw):
    return {"op": "V3", "conn": c, "id": i, "sp": sp, "key": i if key is None else key, **kw}


def G(c):
    return {"op": "G", "conn": c}


def L(c):
    return {"op": "L", "conn": c}


def RX(c, pick=0):
    return {"op": "RX", "conn": c, "pick": pick}


def RP(c, i, sp="upper"):
    return {"op": "RP", "conn": c, "id": i, "sp": sp}


def T(dt):
    return {"op": "T", "dt": dt}


def LC(what):
    return {"op": "LC", "what": what}


MATERIALS = ["swapped", "other_sepk", "other_cepk", "other_exchange", "other_id", "no_sepk", "no_cepk"]
OUTERS = ["other", "random", "shared"]
MALS = [
    "no_id", "no_proof", "sig63", "empty_proof", "trunc", "flip", "empty", "wrong_nonce", "no_enc",
    "outer_trailing", "inner_trailing", "no_state", "state5", "empty_body",
]
BENIGN = ["pad", "proof_first"]


def boundary_scripts() -> List[List[Dict[str, Any]]]:
    s: List[List[Dict[str, Any]]] = []
    s.append([G(0), P(0), G(0), V1(0), G(0), V3(0), G(0), G(1)])  # happy path, probes around it
    s.append([P(0), V3(0), G(0)])  # final step without its first step
    s.append([V1(0), V3(0), G(0)])  # nothing paired at all
    s.append([P(0), V1(0), V3(0), G(0), V3(0), G(0), V1(0), V3(0), G(0)])  # M3 after a completed verify; re-verify
    s.append([P(0), V1(0), V3(0, key=9), G(0), V3(0), G(0)])  # unregistered key, then a valid retry on the same context
    s.append([P(0), P(1), V1(0), V3(0, key=1), G(0), V3(1, key=0), G(0), V3(1), G(0)])  # somebody else's key
    s.append([P(0), P(1), V1(0), U(0), V3(0), G(0), V3(1), G(0)])  # removed between the steps
    s.append([P(0), V1(0), U(0), V3(0), G(0)])  # removed, nothing left
    s.append([P(0), P(1, admin=False), V1(0), V1(1), U(0), V3(1, i=1), G(1), V3(0), G(0)])  # last admin removed: all gone
    s.append([P(0), V1(0), V3(3, key=0), G(0), V3(0, key=0, sp="lower"), G(0)])  # unknown id; other spelling of a paired id
    s.append([P(0), V1(0), V1(1), V3(0, material="other_exchange"), G(0), V3(0, material="other_sepk"), V3(0, outer="other"), G(0), V3(1), G(1), G(0)])
    s.append([P(0), V1(0), V1(0), V3(0, material="other_exchange"), G(0), V3(0, outer="other"), G(0), V3(0), G(0)])  # stale exchange on the same connection
    s.append([P(0), V1(0), V3(0), V1(1), V3(1, material="other_exchange", pick=0), G(1), V3(1), G(1)])  # replay of a proof from a finished exchange
    s.append([P(0), P(0, key=1), V1(0), V3(0, key=0), G(0), V3(0, key=1), G(0)])  # re-registered with another key
    s.append([P(0, key="junk"), V1(0), V3(0, key=0), G(0)])  # stored key unusable
    for mat in MATERIALS:
        s.append([P(0), P(1), V1(1), V1(0), V3(0, material=mat), G(0), V3(0), G(0)])
    for o in OUTERS:
        s.append([P(0), V1(1), V1(0), V3(0, outer=o), G(0), V3(0), G(0)])
    for mal in MALS + BENIGN:
        s.append([P(0), V1(0), V3(0, mal=mal), G(0), V3(0), G(0)])
    for b in range(len(BAD_IDS)):
        s.append([P(0), V1(0), {"op": "V3", "conn": 0, "badid": b, "key": 0}, G(0), V3(0), G(0)])
    for sp in SPELLINGS:
        s.append([P(0, sp=sp), V1(0), V3(0, sp="upper"), G(0), V1(1), V3(1, sp=sp), G(1)])
    for eph in ("zero", "short", "nokey", "reuse"):
        s.append([P(0), V1(1), V1(0, eph=eph), V3(0), G(0), V1(0), V3(0), G(0)])
    s.append([P(0), V1(0, eph="zero"), V3(0), G(0)])
    s.append([P(0), V1(0), V1(0, eph="zero"), V3(0), G(0)])  # a failed M1 leaves the previous context in place
    s.append([P(0), U(0, direct=True), P(0), V1(0), V3(0), G(0), U(0), G(0), P(0), G(0)])
    # ---- the last-admin sweep: B (and C) disappear implicitly when admin A goes; somebody pairs again; the swept
    # controllers come back with their old keys (after having verified before, or never)
    for how in ("unpair", "direct", "post"):
        rm = {"unpair": [U(0)], "direct": [U(0, direct=True)], "post": [V1(9), V3(9, i=0), RP(9, 0)]}[how]
        for again in (P(3), P(0), P(0, key=2)):
            s.append([P(0), P(1, admin=False), P(2, admin=False), V1(0), V3(0, i=1), G(0), *rm, again,
                      V1(1), V3(1, i=1), G(1), V1(2), V3(2, i=2), G(2), V1(3), V3(3, i=0), G(3)])
    # explicit removal, then re-added with the same / another key, old and new key tried; verified before removal
    for newkey in (1, 2):
        for how in ("unpair", "post"):
            rm = [U(1)] if how == "unpair" else [V1(9), V3(9, i=0), RP(9, 1)]
            s.append([P(0), P(1, admin=False), V1(0), V3(0, i=1), G(0), *rm, V1(1), V3(1, i=1), G(1),
                      P(1, key=newkey, admin=False), V1(2), V3(2, i=1, key=1), G(2), V1(3), V3(3, i=1, key=newkey), G(3)])
    # re-keyed while paired (no removal): the old key must stop working at once, also after it was used
    s.append([P(0), P(1, admin=False), V1(0), V3(0, i=1), P(1, key=2, admin=False), V1(1), V3(1, i=1, key=1), G(1), V1(2), V3(2, i=1, key=2), G(2)])
    # ---- verbatim replay of a completed exchange on a fresh connection: at once, later, much later
    s.append([P(0), V1(0), V3(0), G(0), RX(1), G(1)])
    s.append([P(0), V1(0), V3(0), T(5), RX(1), G(1), T(31), RX(2), G(2), T(4000), RX(3), G(3)])
    s.append([P(0), P(1), V1(0), V3(0), V1(1), V3(1, i=1), RX(2, pick=0), G(2), RX(3, pick=1), G(3), RX(0, pick=1), G(0)])
    # accessory ephemeral keys of consecutive first steps (same and different connections, with and without time between)
    s.append([P(0), V1(0), V1(0), V1(1), T(1), V1(2), T(40), V1(3), V3(3), G(3)])
    # ---- as which controller is a connection authorised: a failed second verify naming somebody else changes nothing
    for bogus in ({"key": 9}, {"key": "junk"}, {"key": 1}, {"mal": "no_proof"}, {"material": "other_id"}):
        s.append([P(0), P(1, admin=False), V1(0), V3(0, i=1), L(0), V1(0), V3(0, i=0, **{"key": 0, **bogus}), L(0), G(0)])
    s.append([P(0), P(1, admin=False), L(0), V1(0), L(0), V3(0, i=0, key=9), L(0), V3(0, i=0), L(0), V1(0), V3(0, i=1, key=9), L(0)])
    s.append([P(0), P(1, admin=False), V1(0), V3(0, i=1), L(0), RP(0, 0), V1(0), V3(0, i=0), L(0), RP(0, 1), V1(1), V3(1, i=1), G(1)])
    # ---- legal framings of the same requests: the body in several reads, chunked transfer encoding -- outside and inside
    # a session (inside, every piece is sealed on its own)
    for fr in FRAMES:
        s.append([P(0), V1(0, frame=fr), V3(0, frame=fr), G(0), {**L(0), "frame": fr}, V1(0, frame=fr), V3(0, frame=fr), G(0), {**L(0), "frame": fr},
                  V1(1), V3(1, frame=fr), G(1), V1(2, frame=fr), V3(2, key=9, frame=fr), G(2)])
    # ---- object lifecycle: started; stopped and started again (same driver object); sessions of before are gone, every
    # registered controller verifies as before, removed ones do not
    s.append([P(0), P(1, admin=False), LC("start"), V1(0), V3(0), G(0), V1(1), V3(1, i=1), G(1), LC("stop"), G(0), LC("start"),
              V1(2), V3(2), G(2), V1(3), V3(3, i=1), G(3), L(2), U(1), V1(4), V3(4, i=1), G(4), LC("stop"), LC("start"), V1(5), V3(5), G(5),
              V1(6), V3(6, i=1), G(6)])
    s.append([LC("start"), P(0), V1(0), V3(0), G(0), LC("stop"), LC("start"), LC("stop"), LC("start"), V1(1), V3(1), G(1), RX(2), G(2)])
    # ---- the rig configuration: application subclasses of AccessoryDriver / Accessory, IPv6 peer names
    core = [s[0], s[3], s[6], s[8], s[-1], [P(0), P(1, admin=False), V1(0), V3(0), G(0), V1(1), V3(1, i=1), G(1), RP(0, 1), G(1), V1(2), V3(2, i=1), G(2),
                                             RX(3), G(3), L(0), U(0), V1(4), V3(4), G(4)]]
    for drv, fam in CONFIGS:
        for sc in core:
            s.append([CFG(drv, fam), *sc])
    return s


def random_script(rng) -> List[Dict[str, Any]]:
    n_conn = rng.choice([1, 2, 2, 3])
    n_ctl = rng.choice([1, 2, 3])
    ops: List[Dict[str, Any]] = []
    # mostly valid: start with some pairings
    for i in range(n_ctl):
        if rng.random() < 0.8:
            ops.append(P(i, admin=(i == 0 or rng.random() < 0.4), sp=rng.choice(SPELLINGS[:3])))
    length = rng.randrange(5, 15)
    pending = set()  # connections with an answered-looking first step (generator's guess, keeps scripts mostly valid)
    started = rng.random() < 0.3  # object lifecycle: the application has started the driver (async_start)
    if started:
        ops.insert(rng.randrange(len(ops) + 1), LC("start"))
    base = 0
    while len(ops) < length:
        x = rng.random()
        if started and rng.random() < 0.06:
            # ... stops it and starts the same object again: every connection of before is gone
            ops += [LC("stop"), LC("start")]
            base += 10
            pending.clear()
        c = base + rng.randrange(n_conn)
        split = rng.choice([None, None, None, 1, 30, 97])
        if x < 0.07:
            i = rng.randrange(n_ctl)
            ops.append(P(i, key=rng.choice([i, i, i, (i + 1) % 3, "junk"]) if rng.random() < 0.3 else i,
                         admin=rng.random() < 0.6, sp=rng.choice(SPELLINGS)))
        elif x < 0.17:
            # removal, often followed by somebody (re-)pairing: the removed / swept ids must stay out
            i = rng.randrange(n_ctl + 1)
            if rng.random() < 0.25:
                ops.append(RP(c, i))
            else:
                ops.append(U(i, direct=rng.random() < 0.3))
            if rng.random() < 0.6:
                j = rng.choice([i % n_ctl, rng.randrange(n_ctl), 3])
                ops.append(P(j, key=rng.choice([j, j, (j + 1) % 3]), admin=rng.random() < 0.6))
        elif x < 0.20:
            ops.append(RX(rng.choice([c, base + n_conn + rng.randrange(3)]), pick=rng.randrange(4)))
            if rng.random() < 0.6:
                ops.append(G(ops[-1]["conn"]))
        elif x < 0.22:
            ops.append(T(rng.choice([1, 10, 29, 31, 600])))
        elif x < 0.26:
            ops.append(L(c))
        elif x < 0.38:
            eph = "fresh" if rng.random() < 0.85 else rng.choice(["zero", "short", "nokey", "reuse"])
            ops.append(V1(c, eph=eph, pick=rng.randrange(4), split=split, **({"frame": rng.choice(FRAMES)} if rng.random() < 0.2 else {})))
            if eph in ("fresh", "reuse"):
                pending.add(c)
        elif x < 0.88:
            if c not in pending and rng.random() < 0.85:
                ops.append(V1(c, split=split, **({"frame": rng.choice(FRAMES)} if rng.random() < 0.2 else {})))
                pending.add(c)
            i = rng.randrange(n_ctl + (1 if rng.random() < 0.15 else 0))
            op = V3(c, i=i, sp=rng.choice(SPELLINGS[:3] if rng.random() < 0.9 else SPELLINGS), pick=rng.randrange(4), split=split)
            y = rng.random()
            if y < 0.45:
                pending.discard(c)  # honest
            elif y < 0.60:
                op["material"] = rng.choice(MATERIALS)
            elif y < 0.70:
                op["outer"] = rng.choice(OUTERS)
            elif y < 0.80:
                op["key"] = rng.choice([9, (i + 1) % 3, (i + 2) % 3, "junk"])
            elif y < 0.92:
                op["mal"] = rng.choice(MALS + BENIGN)
            else:
                op = {"op": "V3", "conn": c, "badid": rng.randrange(len(BAD_IDS)), "key": rng.randrange(3), "pick": 0}
            if rng.random() < 0.25:
                op["frame"] = rng.choice(FRAMES)
            ops.append(op)
            if rng.random() < 0.7:
                ops.append(G(c))
            if rng.random() < 0.2:
                ops.append(L(c))
        else:
            ops.append(G(c))
    return ops


def gen_scripts(ctx: Ctx) -> List[List[Dict[str, Any]]]:
    scripts = boundary_scripts()
    for _ in range(ctx.n(300, 10000)):
        sc = random_script(ctx.rng)
        if ctx.rng.random() < 0.4:  # the rig configuration is a dimension of its own (default: stock classes, IPv4)
            sc = [CFG(*ctx.rng.choice(CONFIGS)), *sc]
        scripts.append(sc)
    return scripts


# ----------------------------------------------------------------------------- run / search / replay


def _execute(ctx: Ctx, script, keyseed) -> Runner:
    return Runner(ctx, script, keyseed).run()


def _report(ctx: Ctx, script, keyseed, r: Runner):
    for sig, desc in r.fails:
        def still(cand, sig=sig):
            try:
                return any(s == sig for s, _ in _execute(ctx, cand, keyseed).fails)
            except Exception:  # noqa: BLE001
                return False

        small = script
        if not any(f.signature == sig for f in ctx.failures):
            from common import delta_min

            small = delta_min(script, still, max_steps=120)
            d2 = [d for s, d in _execute(ctx, small, keyseed).fails if s == sig]
            desc = d2[0] if d2 else desc
        ctx.fail(sig, desc, {"kind": "script", "script": small, "keyseed": keyseed})


def run(ctx: Ctx):
    st = ctx.stats
    st.rule = (
        "scripts of pair / unpair / V1 / V3 / GET ops over <= 3 connections and <= 3 controllers on real "
        "HAPServerProtocol objects with real crypto; deterministic boundary scripts (every material / outer-key / "
        "malformation / identifier-spelling variant, removal between the steps, retries, replays across exchanges) first, "
        "then random ones. A script is non-trivial if it reaches an upgrade or a refusing branch of pair-verify; distinct "
        "by the sequence of (op kind, outcome class)."
    )
    logging.disable(logging.CRITICAL)
    try:
        scripts = gen_scripts(ctx)
        n_boundary = len(boundary_scripts())
        lines, impls, runners = [], [], []
        for k, script in enumerate(scripts):
            keyseed = k if k < n_boundary else ctx.seed * 1000003 + k  # boundary scripts replay identically for every seed
            r = _execute(ctx, script, keyseed)
            runners.append(r)
            lines.append(r.model_line())
            impls.append(r.impl)
            if r.fails:
                _report(ctx, script, keyseed, r)
            for op, oc in zip(script, r.outcomes):
                st.hit("op", op["op"])
                st.hit("outcome", oc)
            st.case([o for o in r.outcomes], any(o.startswith("V3-") or o.startswith("V1-") for o in r.outcomes))
    finally:
        logging.disable(logging.NOTSET)

    model = run_model_parallel("C02", lines)
    for script, line, m, impl, r in zip(scripts, lines, model, impls, runners):
        st.traces_validated += 1
        if "ok" not in m:
            raise ModelError(f"driver answered {str(m)[:300]}")
        for n, (a, i) in enumerate(zip(m["ok"], impl)):
            cm = a if "paired" in a else canon_model(a)
            if "paired" in cm:
                cm = {"paired": sorted(cm["paired"])}
            if cm != i:
                ctx.disagree("pair-verify", {"script": [_short(o) for o in script], "at": n}, cm, i)
                break
    if runners:
        k = len(boundary_scripts())
        st.sample({"script": [_short(o) for o in scripts[0]], "outcomes": runners[0].outcomes})
        st.sample({"script": [_short(o) for o in scripts[10]], "outcomes": runners[10].outcomes})
        if len(scripts) > k:
            st.sample({"script": [_short(o) for o in scripts[k]], "outcomes": runners[k].outcomes})
    st.notes.append("expected-upgrade decided by the reference evaluating the iff with real primitives before each M3")


def search(ctx: Ctx):
    """Deeper oracle-only search on the real code."""
    logging.disable(logging.CRITICAL)
    try:
        for k in range(3000):
            script = random_script(ctx.rng)
            keyseed = 7_000_000 + ctx.seed * 1000003 + k
            r = _execute(ctx, script, keyseed)
            if r.fails:
                _report(ctx, script, keyseed, r)
                if len(ctx.failures) >= 3:
                    break
    finally:
        logging.disable(logging.NOTSET)


def replay(ctx: Ctx, rp):
    logging.disable(logging.CRITICAL)
    try:
        r = _execute(ctx, rp["script"], rp.get("keyseed", 0))
    finally:
        logging.disable(logging.NOTSET)
    for op, oc, i in zip(rp["script"], r.outcomes, r.impl):
        print(f"  {_short(op)} -> {oc}  {i.get('resp', i)}")
    for sig, desc in r.fails:
        print("FAILS:", sig, desc)
    print("verdict:", "property violated on this input" if r.fails else "holds on this input")
    return 1 if r.fails else 0
