"""C03 — Unverified connections can neither read nor change anything.

Real `HAPServerProtocol` objects with a fake transport are driven through every route of
`HAPServerHandler.HANDLERS` (enumerated from the table itself) x connection states short of a
completed pair-verify x bodies.  The oracle states the property on the observed behaviour
(status / canaries / digest); the model (lean/HapModel/Dispatch.lean over the generated
Gen/Routes.lean) predicts the refusal bytes and is diffed against the implementation.
"""
from __future__ import annotations

import asyncio
import hashlib
import importlib
import json
import logging
import os
import sys
import tempfile
import threading
import time
from pathlib import Path
from typing import Any, Dict, List, Optional, Tuple
from urllib.parse import urlparse as _std_urlparse

from common import REPO, VERIF, Ctx, hx, log, run_model_parallel
from ref import httpc
from cryptography.hazmat.primitives import serialization
from cryptography.hazmat.primitives.asymmetric import ed25519

PROP = "C03"
LEAN_MODULE = "Props.C03"
TRUSTED = [
    "Lean 4.33 kernel; axioms propext, Classical.choice, Quot.sound only (audited by #print axioms)",
    "hand-written model lean/HapModel/Dispatch.lean of HAPServerHandler.dispatch + guard shapes; handler bodies, "
    "urlparse and State.is_admin are universally quantified parameters",
    "extract/routes.py (Python ast): routing table, guard shape of each handler (unclassifiable = none), every "
    "assignment to an attribute is_encrypted in pyhap/*.py; validated dynamically by the route x state sweep",
    "assumption tied by extraction, not proved: a handler method without an assignment to self.is_encrypted cannot "
    "change the flag (no setattr/__dict__ tricks); the flag starts False (HAPServerHandler.__init__)",
    "harness/ref/httpc.py reference controller (pair-verify, TLV, h11 client parsing), harness/ref/tlv8.py, generators",
    "h11 (request parsing / response framing) and asyncio are exercised, not modelled, in this property",
    "the oracle's notion of 'verified' is observable: an M4 without error was SENT on the connection; the handler flag is only "
    "a diagnostic. The model takes the flag from the pair-verify body's result, i.e. assumes flag and completed verify are "
    "atomic with respect to exceptions: tied by the extracted statement order (C03_setter_atomic_table) and by the "
    "fault-injection stream (side effects inside the M3 handler raising, then a plaintext sweep)",
    "cross-connection frame (C03_frame / C03_pool_history): that nothing but a connection's own pair-verify raises its flag is "
    "tied by the extracted writer table (C03_only_setter_table) and by the cross-connection stream (admin pairings operations "
    "on another connection, then the sweep)",
    "C03_pump_request lifts the per-request statement through _process_one_event/_process_response (model HapModel/Pump.lean, "
    "tied by C19's transcript replay): nothing parked, no key installed, no teardown, no advertisement refresh",
    "C03_noninterference is per request (dispatch): unsolicited writes to an unverified connection (EVENT messages, a delayed "
    "snapshot shared with another session) are judged by this harness's busy-accessory oracle on the real code, and are the "
    "subject of C12/C13's theorems (events only to verified+subscribed connections; nothing held for a lost connection)",
]

CANARY_VALUE = "CNRYVAL5e1a77"
CANARY_NAME = "CNRYNAME9d0c"
CANARY_SNAPSHOT = b"\xff\xd8CNRYSNAP41c2" + bytes(range(200, 232))
CANARY_CTRL_ID = b"C0DEC0DE-1111-4222-8333-444455556666"
CANARY_USER_ID = b"5EC0BD00-7777-4888-9999-AAAABBBBCCCC"
DB_TOKENS = [b'"iid"', b'"aid"', b'"services"', b'"characteristics"', b'"perms"']
EXEMPT = ("/pair-setup", "/pair-verify")
OTHER_PEER = ("10.9.9.9", 4242)

logging.disable(logging.CRITICAL)


# --------------------------------------------------------------------------- the world


class FakeTransport(asyncio.Transport):
    """What asyncio gives a protocol: records writes, honours close()."""

    def __init__(self, peer):
        super().__init__()
        self.peer = peer
        self.out: List[bytes] = []
        self.ops: List[Tuple] = []  # everything the protocol did to the transport, in order
        self.closed = False
        self.eof = False
        self.close_calls = 0

    def get_extra_info(self, name, default=None):
        return self.peer if name == "peername" else default

    def set_write_buffer_limits(self, high=None, low=None):
        pass

    def write(self, data):
        self.out.append(bytes(data))
        self.ops.append(("write", bytes(data)))

    def writelines(self, lines):
        self.out.extend(bytes(x) for x in lines)
        self.ops.append(("write", b"".join(bytes(x) for x in lines)))

    def write_eof(self):
        self.eof = True
        self.ops.append(("eof",))

    def can_write_eof(self):
        return True

    def close(self):
        self.closed = True
        self.close_calls += 1
        self.ops.append(("close",))

    def abort(self):
        self.closed = True

    def is_closing(self):
        return self.closed


class CallTimeout(BaseException):
    """A call into the implementation did not return in time. A BaseException on purpose: the
    implementation's own `except Exception` clauses must not be able to swallow it (common.Timeout
    is an Exception and is answered with a 500 by HAPServerHandler.dispatch)."""


class call_limit:
    """`with call_limit(5): proto.data_received(...)` -> CallTimeout if the call does not return
    (main thread only), so that a non-terminating implementation is a finding, not a hang.

    The limit is on the CPU time this process consumes (ITIMER_PROF), not on the wall clock: on a loaded machine
    a healthy callback can be descheduled for many seconds (observed: a plain POST /pairings delivered byte by byte
    'did not return within 5 s' while four thorough runs and a seed regression shared the machine).  A call that
    hangs without burning CPU is caught by a wall-clock backstop of 20 x the limit (at least 60 s)."""

    def __init__(self, seconds: float):
        self.seconds = seconds

    def _raise(self, *a):
        raise CallTimeout()

    def __enter__(self):
        import signal

        self.old_prof = signal.signal(signal.SIGPROF, self._raise)
        self.old = signal.signal(signal.SIGALRM, self._raise)
        signal.setitimer(signal.ITIMER_PROF, self.seconds)
        signal.setitimer(signal.ITIMER_REAL, max(60.0, 20.0 * self.seconds))

    def __exit__(self, *a):
        import signal

        signal.setitimer(signal.ITIMER_PROF, 0)
        signal.setitimer(signal.ITIMER_REAL, 0)
        signal.signal(signal.SIGPROF, self.old_prof)
        signal.signal(signal.SIGALRM, self.old)
        return False


CALL_LIMIT = [5.0]  # seconds for one callback of the implementation
HUNG = [0]  # calls that did not return in this run (after 2 the sweeps stop: the budget is for finding, not waiting)


def hung_budget_exhausted() -> bool:
    return HUNG[0] >= 2


def guarded(fn, *args) -> Tuple[Optional[str], bool]:
    """Call fn(*args) under the time limit -> (escaped exception class or None, hung?)."""
    try:
        with call_limit(CALL_LIMIT[0]):
            fn(*args)
    except CallTimeout:
        HUNG[0] += 1
        return None, True
    except Exception as ex:  # noqa: BLE001
        return type(ex).__name__, False
    return None, False


class VLoop(asyncio.SelectorEventLoop):
    """Event loop on a virtual clock: timers (event coalescing, timeouts) fire when `advance` moves
    the clock past them, never by waiting."""

    def __init__(self):
        super().__init__()
        self._vt = 1000.0

    def time(self):
        return self._vt

    def advance(self, dt: float):
        self._vt += dt


def _pyhap():
    """Import pyhap from the tree under check (HAP_REPO or the editable /repo install)."""
    import pyhap  # noqa: F401

    here = Path(sys.modules["pyhap"].__file__).resolve().parent.parent
    if here != REPO.resolve():
        raise RuntimeError(f"pyhap imported from {here}, expected {REPO}")
    from pyhap import accessory, accessory_driver, const, hap_handler, hap_protocol

    return accessory, accessory_driver, const, hap_handler, hap_protocol


class World:
    """One accessory driver with canaries planted, no network, no files."""

    def __init__(self, paired: bool, shape: str = "sync", virtual: bool = False, gated: bool = False):
        accessory, accessory_driver, const, hap_handler, hap_protocol = _pyhap()
        self.mods = (accessory, accessory_driver, const, hap_handler, hap_protocol)
        self.paired, self.shape = paired, shape
        self.loop = VLoop() if virtual else asyncio.new_event_loop()
        # gated: a snapshot, once started, stays in flight until open_gate()
        self.gated, self.gate_open = gated, not gated
        self._agate, self._tgate = asyncio.Event(), threading.Event()
        self.snapshot_fail = False  # the camera raises instead of returning an image
        self.hung: Optional[str] = None  # a loop step did not return
        # everything the loop runs on behalf of a connection (done-callbacks, timers, tasks): what it
        # reports to its exception handler is recorded as (exception class, message)
        self.loop_errors: List[Tuple[str, str]] = []
        self.loop.set_exception_handler(
            lambda _l, c: self.loop_errors.append((type(c.get("exception")).__name__ if c.get("exception") is not None else "-",
                                                   str(c.get("message"))))
        )
        asyncio.set_event_loop(self.loop)
        self.tmp = tempfile.mkdtemp(prefix="verif-c03-")
        self.snapshot_calls = 0
        world = self

        d = accessory_driver.AccessoryDriver(
            loop=self.loop, address="127.0.0.1", port=51999,
            persist_file=os.path.join(self.tmp, "accessory.state"),
            pincode=b"031-45-154", mac="AA:BB:CC:DD:EE:FF",
        )
        # no files, no mDNS: these are outside the property
        d.persist = lambda: None
        d.async_persist = lambda: None
        self.finish_pair_calls = 0  # advertisement refreshes requested after a pairing change

        def _finish_pair():
            world.finish_pair_calls += 1

        d.finish_pair = _finish_pair
        d.update_advertisement = lambda: None
        d.async_update_advertisement = lambda: None
        d.aio_stop_event = asyncio.Event()  # what async_start creates; event delivery consults it
        self.driver = d

        def sync_snapshot(_self, info):
            world.snapshot_calls += 1
            if world.gated:
                world._tgate.wait(30)
            if world.snapshot_fail:
                raise RuntimeError("camera failed")
            return CANARY_SNAPSHOT

        async def async_snapshot(_self, info):
            world.snapshot_calls += 1
            if world.gated:
                await world._agate.wait()
            if world.snapshot_fail:
                raise RuntimeError("camera failed")
            return CANARY_SNAPSHOT

        def mk(name, aid, with_snapshot):
            ns: Dict[str, Any] = {"category": const.CATEGORY_CAMERA}
            if with_snapshot and shape in ("sync", "bridge"):
                ns["get_snapshot"] = sync_snapshot
            if with_snapshot and shape == "async":
                ns["async_get_snapshot"] = async_snapshot
            cls = type("CanaryAccessory", (accessory.Accessory,), ns)
            a = cls(d, name, aid=aid)
            a.set_info_service(firmware_revision="1.0", manufacturer="verif", model="m", serial_number=CANARY_VALUE)
            sv = a.add_preload_service("Lightbulb", chars=["Brightness"])
            sv.configure_char("On", value=True)
            sv.configure_char("Brightness", value=73)
            return a

        if shape == "bridge":
            top = accessory.Bridge(d, CANARY_NAME + "-bridge")
            top.add_accessory(mk(CANARY_NAME, 2, True))
        else:
            top = mk(CANARY_NAME, 1, True)
        d.add_accessory(top)
        self.top = top

        # controllers (known long-term keys): one admin, one user
        self.admin_key = ed25519.Ed25519PrivateKey.from_private_bytes(bytes(range(32)))
        self.user_key = ed25519.Ed25519PrivateKey.from_private_bytes(bytes(range(32, 64)))
        self.admin_ltpk = httpc._raw_pub(self.admin_key.public_key())
        self.user_ltpk = httpc._raw_pub(self.user_key.public_key())
        if paired:
            d.state.add_paired_client(CANARY_CTRL_ID, self.admin_ltpk, b"\x01")
            d.state.add_paired_client(CANARY_USER_ID, self.user_ltpk, b"\x00")
        # somebody else's subscription and prepared write: must survive
        some_iid = self.char_ids()[-1]
        d.topics[f"{some_iid[0]}.{some_iid[1]}"] = {OTHER_PEER}
        d.prepared_writes[OTHER_PEER] = {7: 4102444800.0}
        self.connections: Dict[Any, Any] = d.http_server.connections
        self._port = 1000

    # -- observation -------------------------------------------------------
    def accessories(self):
        accs = getattr(self.top, "accessories", None)
        return [self.top] + (list(accs.values()) if accs else [])

    def char_ids(self) -> List[Tuple[int, int]]:
        res = []
        for a in self.accessories():
            for s in a.services:
                for c in s.characteristics:
                    res.append((a.aid, a.iid_manager.get_iid(c)))
        return res

    def writable(self) -> Tuple[int, int]:
        for a in self.accessories():
            for s in a.services:
                if s.display_name == "Lightbulb":
                    return a.aid, a.iid_manager.get_iid(s.get_characteristic("On"))
        raise RuntimeError("no Lightbulb")

    def snapshot_aid(self) -> int:
        return 2 if self.shape == "bridge" else 1

    def digest(self) -> Dict[str, Any]:
        d = self.driver
        values = {}
        for a in self.accessories():
            for s in a.services:
                for c in s.characteristics:
                    values[f"{a.aid}.{a.iid_manager.get_iid(c)}"] = repr(c.value)
        return {
            "values": values,
            "topics": {k: sorted(map(repr, v)) for k, v in sorted(d.topics.items())},
            "prepared": {repr(k): sorted((repr(p), repr(t)) for p, t in v.items()) for k, v in d.prepared_writes.items()},
            "paired_clients": {str(k): v.hex() for k, v in d.state.paired_clients.items()},
            "client_properties": {str(k): repr(v) for k, v in d.state.client_properties.items()},
            "uuid_to_bytes": {str(k): v.hex() for k, v in d.state.uuid_to_bytes.items()},
            "snapshot_calls": self.snapshot_calls,
        }

    def canaries(self) -> List[Tuple[str, bytes]]:
        c = [
            ("characteristic value", CANARY_VALUE.encode()),
            ("accessory name", CANARY_NAME.encode()),
            ("snapshot bytes", CANARY_SNAPSHOT[2:14]),
        ]
        if self.paired:
            for label, ident, key in (("admin", CANARY_CTRL_ID, self.admin_ltpk), ("user", CANARY_USER_ID, self.user_ltpk)):
                c += [
                    (f"{label} controller id", ident),
                    (f"{label} controller id (lower)", ident.lower()),
                    (f"{label} controller key", key),
                    (f"{label} controller key (hex)", key.hex().encode()),
                ]
        return c + [("attribute database " + t.decode(), t) for t in DB_TOKENS]

    # -- driving -----------------------------------------------------------
    def connect(self):
        self._port += 1
        return Conn(self, ("10.1.1.1", self._port))

    def spin(self, n: int = 8):
        """Run what is ready (callbacks, task steps), without waiting for anything."""
        try:
            with call_limit(CALL_LIMIT[0] * 2):
                for _ in range(n):
                    self.loop.run_until_complete(asyncio.sleep(0))
        except CallTimeout:
            HUNG[0] += 1
            self.hung = "a loop step (callback / task of a connection)"

    def advance(self, dt: float):
        """Move the virtual clock and run the timers that became due."""
        self.loop.advance(dt)
        self.spin()

    def open_gate(self):
        self.gate_open = True
        self._agate.set()
        self._tgate.set()

    def drain(self):
        loop = self.loop
        if not self.gate_open:
            self.spin()  # a snapshot is deliberately in flight: do not wait for it
            return
        try:
            with call_limit(30):
                for _ in range(40):
                    loop.run_until_complete(asyncio.sleep(0))
                    pending = [t for t in asyncio.all_tasks(loop) if not t.done()]
                    if not pending:
                        break
                    loop.run_until_complete(asyncio.wait(pending, timeout=5))
                loop.run_until_complete(asyncio.sleep(0))
        except CallTimeout:
            HUNG[0] += 1
            self.hung = "a loop step (callback / task of a connection)"

    def close(self):
        try:
            self.open_gate()
            self.drain()
            self.loop.run_until_complete(self.loop.shutdown_default_executor())
        finally:
            self.loop.close()
            try:
                for f in os.listdir(self.tmp):
                    os.unlink(os.path.join(self.tmp, f))
                os.rmdir(self.tmp)
            except OSError:
                pass


class Conn:
    def __init__(self, world: World, peer):
        self.world = world
        self.t = FakeTransport(peer)
        self.p = world.mods[4].HAPServerProtocol(world.loop, world.connections, world.driver)
        self.p.connection_made(self.t)

    def send(self, raw: bytes, method: bytes = b"POST") -> Dict[str, Any]:
        """Feed one request, let delayed work finish, return what the peer saw."""
        before = len(self.t.out)
        escaped, hung = None, False
        if not self.t.closed:
            # an escaping exception is C19's concern (recorded; C03 judges the effects); a call that does
            # not return is a request that is never answered
            escaped, hung = guarded(self.p.data_received, raw)
        self.world.drain()
        written = b"".join(self.t.out[before:])
        resps, trailing = httpc.parse_responses(written, [method], eof=self.t.closed)
        return {"written": written, "responses": resps, "trailing": trailing, "closed": self.t.closed, "escaped": escaped,
                "hung": hung or bool(self.world.hung)}

    def request(self, method: bytes, target: bytes, body: bytes = b"") -> Dict[str, Any]:
        return self.send(httpc.http_request(method, target, body), method)


STATES = ["fresh", "setup-m1", "setup-m3-failed", "verify-m1", "verify-m3-garbage", "verify-m3-badsig", "verify-m3-unknown"]


def states_for(paired: bool) -> List[str]:
    # pair-setup is only open while unpaired; pair-verify needs a pairing to get past M1
    return ["fresh", "setup-m1", "verify-m1"] + (
        ["verify-m3-garbage", "verify-m3-badsig", "verify-m3-unknown"] if paired else ["setup-m3-failed"]
    )


def reach(world: World, state: str, conn: Optional["Conn"] = None) -> Tuple[Conn, List[str]]:
    """Open a connection (or take `conn`) and bring it into `state`; returns the connection and a trace
    of what the exempt routes answered (diagnostics)."""
    c = conn if conn is not None else world.connect()
    trace: List[str] = []

    def post(path: bytes, body: bytes):
        r = c.request(b"POST", path, body)
        trace.append(f"{path.decode()} -> {[x.status for x in r['responses']]} {r['responses'][0].body[:12].hex() if r['responses'] else ''}")
        return r

    if state == "fresh":
        return c, trace
    if state in ("setup-m1", "setup-m3-failed"):
        post(b"/pair-setup", httpc.setup_m1())
        if state == "setup-m3-failed":
            post(b"/pair-setup", httpc.setup_m3_wrong(b"\x02" + b"\x11" * 383))
        return c, trace
    vc = httpc.VerifyClient(CANARY_CTRL_ID, world.admin_key)
    r = post(b"/pair-verify", vc.m1())
    if state == "verify-m1":
        return c, trace
    if not r["responses"]:
        return c, trace
    if state == "verify-m3-garbage":
        post(b"/pair-verify", httpc.tlv8.encode([(6, b"\x03"), (5, b"\x99" * 40)]))
        return c, trace
    vc.read_m2(r["responses"][0].body)
    if state == "verify-m3-badsig":
        post(b"/pair-verify", vc.m3(signer=world.user_key))  # right id, signed with somebody else's key
    elif state == "verify-m3-unknown":
        post(b"/pair-verify", vc.m3(identifier=b"0BADF00D-0000-4000-8000-000000000000"))
    elif state == "verify-ok":  # control only: not an unverified state
        post(b"/pair-verify", vc.m3())
    return c, trace


# --------------------------------------------------------------------------- cases


def route_table(world: World) -> List[Tuple[str, str, str]]:
    h = world.mods[3].HAPServerHandler.HANDLERS
    return [(m, p, name) for m, paths in h.items() for p, name in paths.items()]


def valid_bodies(world: World, method: str, path: str) -> List[Tuple[bytes, bytes]]:
    """(target, body) pairs that a verified controller could legitimately send to this route."""
    aid, iid = world.writable()
    ids = ",".join(f"{a}.{i}" for a, i in world.char_ids()[:6])
    p = path.encode()
    if path == "/accessories":
        return [(p, b"")]
    if path == "/characteristics" and method == "GET":
        return [(p + b"?id=" + ids.encode(), b""), (p + b"?id=" + ids.encode() + b"&meta=1&perms=1&type=1&ev=1", b"")]
    if path == "/characteristics":
        return [
            (p, json.dumps({"characteristics": [{"aid": aid, "iid": iid, "value": False}]}).encode()),
            (p, json.dumps({"characteristics": [{"aid": aid, "iid": iid, "ev": True}]}).encode()),
            (p, json.dumps({"characteristics": [{"aid": aid, "iid": iid, "value": 0, "pid": 7}]}).encode()),
        ]
    if path == "/prepare":
        return [(p, json.dumps({"ttl": 5000, "pid": 11}).encode())]
    if path == "/pairings":
        new_ltpk = bytes(range(100, 132))
        return [
            (p, httpc.pairings_list()),
            (p, httpc.pairings_add(b"ADDED000-0000-4000-8000-000000000001", new_ltpk, True)),
            (p, httpc.pairings_remove(CANARY_CTRL_ID)),
        ]
    if path == "/resource":
        q = {"image-width": 640, "image-height": 480, "resource-type": "image", "aid": world.snapshot_aid()}
        return [(p, json.dumps(q).encode())]
    # a route this harness does not know: JSON and TLV shaped bodies
    return [(p, b"{}"), (p, httpc.pairings_list())]


def junk_bodies(rng, n: int) -> List[bytes]:
    out = [b"", b"\x00", b"{", b"[]", b"null", b"\xff\xfe\xfd", b"{}" * 3, b"\x06\x01", bytes(range(256)),
           # TLV shapes: lone trailing tag byte, item cut inside its value, declared length past the end
           b"\x06", b"\x06\x01\x01\x00", b"\x06\x01\x03\x05", b"\x00\x01\x00\x06\x01\x01\x03",
           b"\x06\x01\x01\x03\xff\x01\x02", b"\x06\x01\x03\x05\x20" + b"\x99" * 7, b"\x06\x01\x01\x00\x01\x00\x06"]
    while len(out) < n:
        k = rng.choice([1, 2, 7, 33, 200, 1500])
        out.append(bytes(rng.randrange(256) for _ in range(rng.randrange(1, k + 1))))
    return out[:n]


def target_variants(path: str) -> List[bytes]:
    p = path.encode()
    return [p, p + b"?x=1", p + b"#f", p + b";v=1", b"http://hap.local" + p, p + b"/", b"/" + p, p.upper(), p + b"%20"]


METHODS = [b"GET", b"POST", b"PUT", b"DELETE", b"HEAD", b"OPTIONS", b"PATCH", b"get", b"CONNECT"]


def urlparse_field(target: bytes) -> Dict[str, str]:
    """What `urlparse(target.decode()).path` does on this input — oracle field for the model
    (urlparse is a parameter of the model)."""
    try:
        s = target.decode()
    except UnicodeDecodeError:
        return {"err": "ValueError"}  # never consulted: decoding fails first
    try:
        return {"ok": hx(_std_urlparse(s).path.encode())}
    except Exception as ex:  # noqa: BLE001
        return {"err": type(ex).__name__}


def is_exempt_target(target: bytes) -> bool:
    """Does this request go to pair-setup / pair-verify (as the server's own urlparse routes it)?"""
    f = urlparse_field(target)
    return "ok" in f and bytes.fromhex(f["ok"]).decode() in EXEMPT


# --------------------------------------------------------------------------- oracle


def judge(ctx: Ctx, world: World, state: str, method: bytes, target: bytes, body: bytes, before, res, after, replay):
    """The property, on the observed behaviour of one non-exempt request on an unverified connection."""
    what = f"{method.decode(errors='replace')} {target.decode(errors='replace')} in state {state} ({'paired' if world.paired else 'unpaired'} accessory, {world.shape})"
    problems: List[Tuple[str, str]] = []
    if res.get("hung"):
        problems.append(("C03:request-not-answered", f"the call into the server did not return within {CALL_LIMIT[0]:.0f} s: the request is "
                         "neither refused nor is the connection closed, and nothing else is served meanwhile"))
    served = [r for r in res["responses"] if 200 <= r.status < 300 and not httpc.is_pairing_auth_error(r.body)]
    if served:
        problems.append(("C03:unverified-request-served",
                         f"answered {served[0].status} with {len(served[0].body)} body bytes (not a refusal)"))
    for label, needle in world.canaries():
        if needle in res["written"]:
            problems.append(("C03:canary-in-response", f"the response contains the {label}"))
            break
    if before != after:
        changed = [k for k in before if before[k] != after[k]]
        problems.append(("C03:state-changed", f"{', '.join(changed)} changed"))
    if problems:
        # one finding per request; the signature names the gravest aspect
        ctx.fail(problems[0][0], f"{what}: " + "; ".join(d for _, d in problems), replay)


def expected_from_model(m: Dict[str, Any]) -> Optional[Dict[str, Any]]:
    if m.get("invoked"):
        return None  # the model enters a handler body: no prediction (bodies are arbitrary)
    ct = [v for k, v in m["headers"] if k == "Content-Type"]
    return {"status": m["status"], "content_type": ct[-1] if ct else None, "body": m["body"]}


def observed(res) -> Dict[str, Any]:
    if not res["responses"]:
        return {"closed_without_response": res["closed"], "escaped": res["escaped"]}
    r = res["responses"][0]
    ct = r.header(b"content-type")
    return {"status": r.status, "content_type": ct.decode() if ct else None, "body": hx(r.body)}


# --------------------------------------------------------------------------- busy accessory

REUSED_PEER = ("10.3.3.3", 3333)
V1_PEER, V2_PEER, ADMIN_PEER, FRESH_PEER = ("10.3.0.1", 4001), ("10.3.0.2", 4002), ("10.3.0.3", 4003), ("10.3.0.9", 4009)
TERMINATIONS = ["connection-close", "idle-timeout", "bad-frame", "bad-http", "pairing-removed", "peer"]


def _verified_conn(world: World, peer, ident: bytes = CANARY_CTRL_ID) -> Conn:
    """A controller session (plaintext inside the session, as C19 drives it): the privilege flag and
    the controller id are what pair-verify would have set."""
    import uuid

    c = Conn(world, peer)
    c.p.handler.is_encrypted = True
    c.p.handler.client_uuid = uuid.UUID(ident.decode())
    return c


def _chars(world: World):
    cached = getattr(world, "_busy_chars", None)
    if cached is None:
        cached = world._busy_chars = _find_chars(world)
    return cached


def _find_chars(world: World):
    serial = on = bright = None
    for a in world.accessories():
        for sv in a.services:
            for ch in sv.characteristics:
                if ch.value == CANARY_VALUE and serial is None:
                    serial = (a, ch)
            if sv.display_name == "Lightbulb" and on is None:
                on, bright = (a, sv.get_characteristic("On")), (a, sv.get_characteristic("Brightness"))
    return serial, on, bright


def _subscribe_and_prepare(world: World, c: Conn):
    items = [{"aid": a.aid, "iid": a.iid_manager.get_iid(ch), "ev": True} for a, ch in _chars(world)]
    c.request(b"PUT", b"/characteristics", json.dumps({"characteristics": items}).encode())
    c.request(b"PUT", b"/prepare", json.dumps({"ttl": 5000, "pid": 21}).encode())


def _app_changes(world: World, n: int):
    """The application changes values (the string one keeps carrying the canary)."""
    (_, serial), (_, on), (_, bright) = _chars(world)
    serial.set_value(f"{CANARY_VALUE}-{n}")
    bright.set_value(20 + n)
    on.set_value(n % 2 == 0)


def _snapshot_body(world: World, dims: str) -> bytes:
    w, h = (640, 480) if dims == "same" else (320, 240)
    return json.dumps({"image-width": w, "image-height": h, "resource-type": "image", "aid": world.snapshot_aid()}).encode()


def _terminate(world: World, x: Conn, cause: str):
    """End connection x; for the accessory-initiated causes the loop then reports the loss."""
    if cause == "connection-close":
        x.send(httpc.http_request(b"GET", b"/accessories", headers=[(b"Connection", b"close")]), b"GET")
    elif cause == "idle-timeout":
        x.p.check_idle(time.time() + 91 * 3600)
    elif cause == "bad-frame":
        x.p.hap_crypto = world.mods[4].HAPCrypto(b"\x11" * 32)
        try:
            x.p.data_received(b"\x05\x00" + b"\x99" * 21)
        except Exception:  # noqa: BLE001  (C04/C19's concern)
            pass
    elif cause == "bad-http":
        x.send(b"\x00\x01 not http\r\n\r\n")
    elif cause == "pairing-removed":
        admin = _verified_conn(world, ADMIN_PEER)
        admin.request(b"POST", b"/pairings", httpc.pairings_remove(CANARY_USER_ID))
    world.spin()
    try:
        x.p.connection_lost(None)  # asyncio reports the loss (after a close, or because the peer left)
    except Exception:  # noqa: BLE001
        pass
    world.spin()


def run_busy(spec: Dict[str, Any]) -> Dict[str, Any]:
    """One unverified connection on a busy accessory; returns everything written to it after it
    reached its state, and the digest changes in the window of each of its requests."""
    world = World(True, spec["shape"], virtual=True, gated=True)
    try:
        v1 = _verified_conn(world, V1_PEER)
        _subscribe_and_prepare(world, v1)
        if spec["kind"] == "busy":
            v2 = _verified_conn(world, V2_PEER)
            v2.request(b"POST", b"/resource", _snapshot_body(world, spec.get("dims", "same")))
            for _ in range(200):  # the snapshot is now in flight (executor thread started / coroutine awaiting)
                if world.snapshot_calls:
                    break
                time.sleep(0.005)
                world.spin(2)
            _app_changes(world, 1)
            world.advance(1.0)
            u = Conn(world, FRESH_PEER)
        else:
            x = _verified_conn(world, REUSED_PEER, CANARY_USER_ID if spec["cause"] == "pairing-removed" else CANARY_CTRL_ID)
            _subscribe_and_prepare(world, x)
            _app_changes(world, 1)
            world.advance(1.0)
            _terminate(world, x, spec["cause"])
            u = Conn(world, REUSED_PEER)  # same source address and port, never verifies
        u, trace = reach(world, spec["state"], conn=u)
        mark = len(u.t.out)
        windows = []
        hung = False
        method = bytes.fromhex(spec["method"])
        for tgt, body in spec["requests"]:
            if u.t.closed:
                break
            before = world.digest()
            r_ = u.send(httpc.http_request(method, bytes.fromhex(tgt), bytes.fromhex(body)), method)
            hung = hung or r_["hung"]
            after = world.digest()
            windows.append([k for k in before if before[k] != after[k]])
        _app_changes(world, 2)
        world.advance(1.0)
        world.open_gate()
        world.drain()
        _app_changes(world, 3)
        world.advance(1.0)
        world.spin()
        return {"hung": hung or bool(world.hung), "tail": b"".join(u.t.out[mark:]), "windows": windows, "trace": trace, "verified_flag": bool(u.p.handler.is_encrypted),
                "v1_events": b"".join(v1.t.out).count(b"EVENT/1.0")}
    finally:
        world.close()


def busy_problems(spec: Dict[str, Any], res: Dict[str, Any]) -> List[Tuple[str, str]]:
    """Everything written to the unverified transport until quiescence is judged."""
    import re

    tail = res["tail"]
    problems: List[Tuple[str, str]] = []
    if res.get("hung"):
        problems.append(("C03:request-not-answered", "a call into the server did not return"))
    served = []
    if b"EVENT/1.0" not in tail:
        resps, _trailing = httpc.parse_responses(tail, [bytes.fromhex(spec["method"])] * 50, eof=False)
        served = [r.status for r in resps if 200 <= r.status < 300 and not httpc.is_pairing_auth_error(r.body)]
    else:
        served = [int(x) for x in re.findall(rb"HTTP/1\.1 (2\d\d) [^\r\n]*\r\n[Cc]ontent-[Tt]ype: (?:image/jpeg|application/hap\+json)", tail)]
    if served:
        problems.append(("C03:unverified-request-served", f"answered {served[0]} (not a refusal)"))
    if b"EVENT/1.0" in tail:
        problems.append(("C03:event-sent-to-unverified-connection",
                         f"{tail.count(b'EVENT/1.0')} unsolicited EVENT message(s) with characteristic values written to the unverified connection"))
    for label, needle in [("characteristic value", CANARY_VALUE.encode()), ("accessory name", CANARY_NAME.encode()),
                          ("snapshot bytes", CANARY_SNAPSHOT[2:14]), ("admin controller id", CANARY_CTRL_ID),
                          ("user controller id", CANARY_USER_ID)] + [("attribute database " + t.decode(), t) for t in DB_TOKENS]:
        if needle in tail:
            problems.append(("C03:canary-in-response", f"bytes written to the unverified connection contain the {label}"))
            break
    changed = sorted({k for win in res["windows"] for k in win})
    if changed:
        problems.append(("C03:state-changed", f"{', '.join(changed)} changed in the window of the unverified request"))
    return problems


def busy_specs(ctx: Ctx, world: World, deep: bool) -> List[Dict[str, Any]]:
    rng = ctx.rng
    specs = []
    shapes = ["async", "sync", "bridge"] if deep else ["async"]
    states = states_for(True) if deep else ["fresh", "verify-m1", "verify-m3-badsig"]
    routes = [(m, p) for m, p, _h in route_table(world) if p not in EXEMPT]
    for shape in shapes:
        w = world if world.shape == shape else None
        tmp = w or World(True, shape)
        try:
            for m, p in routes:
                reqs = [[hx(t), hx(b)] for t, b in valid_bodies(tmp, m, p)] + [[hx(p.encode()), hx(b)] for b in junk_bodies(rng, 2)]
                # one request per connection: a second request behind a delayed answer makes the pump close
                for st_ in states:
                    for dims in (["same", "other"] if p == "/resource" else ["same"]):
                        for rq in (reqs if deep or st_ == "fresh" else reqs[:1]):
                            specs.append({"kind": "busy", "shape": shape, "state": st_, "method": hx(m.encode()), "requests": [rq],
                                          "dims": dims, "route": f"{m} {p}"})
                for cause in TERMINATIONS:
                    for st_ in (["fresh", "verify-m1"] if deep else ["fresh"]):
                        for rq in (reqs[:3] if deep else reqs[:1]):
                            specs.append({"kind": "reuse", "shape": shape, "state": st_, "method": hx(m.encode()), "requests": [rq],
                                          "cause": cause, "route": f"{m} {p}"})
        finally:
            if w is None:
                tmp.close()
    return specs


def run_busy_cases(ctx: Ctx, deep: bool):
    st = ctx.stats
    probe = World(True, "async")
    try:
        specs = busy_specs(ctx, probe, deep)
    finally:
        probe.close()
    for spec in specs:
        if hung_budget_exhausted():
            break
        res = run_busy(spec)
        problems = busy_problems(spec, res)
        tag = f"busy:{spec['dims']}-snapshot-in-flight" if spec["kind"] == "busy" else f"reuse-after:{spec['cause']}"
        st.hit("op", tag)
        st.hit("outcome", "busy:PROBLEM" if problems else "busy:refused-and-silent")
        if res["v1_events"]:
            st.hit("outcome", "busy:events-delivered-to-the-subscribed-controller")
        st.case(["busy", spec], True)
        if problems and not any(f.signature == problems[0][0] for f in ctx.failures):
            sig = problems[0][0]
            best = spec
            for rq in spec["requests"]:  # shrink to one request if one suffices
                cand = dict(spec, requests=[rq])
                if any(s_ == sig for s_, _ in busy_problems(cand, run_busy(cand))):
                    best = cand
                    break
            what = (f"{spec['route']} in state {spec['state']} on a busy accessory (verified controllers subscribed, prepared write, "
                    f"{spec.get('dims')}-dimension snapshot in flight, values changing, {spec['shape']})") if spec["kind"] == "busy" else (
                    f"{spec['route']} in state {spec['state']} on a connection reusing the address of a verified, subscribed "
                    f"connection ended by {spec['cause']} ({spec['shape']})")
            ctx.fail(sig, f"{what}: " + "; ".join(d for _, d in problems), best)


# --------------------------------------------------------------------------- cross-connection histories

ADMIN_OPS = ["remove-user", "remove-unknown", "remove-admin-self", "add", "list"]


def _admin_op(world: World, admin: Conn, op: str):
    body = {
        "remove-user": httpc.pairings_remove(CANARY_USER_ID),
        "remove-unknown": httpc.pairings_remove(b"0BADF00D-0000-4000-8000-000000000000"),
        "remove-admin-self": httpc.pairings_remove(CANARY_CTRL_ID),
        "add": httpc.pairings_add(b"ADDED000-0000-4000-8000-000000000001", bytes(range(100, 132)), False),
        "list": httpc.pairings_list(),
    }[op]
    return admin.request(b"POST", b"/pairings", body)


def run_cross(spec: Dict[str, Any]) -> Dict[str, Any]:
    """An unverified connection and a verified admin on one driver / registry: the unverified one is
    opened and brought into its state FIRST, then the admin administers pairings, then the
    unverified connection sends its request(s). Returns, per request, what conn.send saw and the
    digest changes in its window."""
    world = World(True, spec["shape"])
    try:
        u, trace = reach(world, spec["state"], conn=Conn(world, FRESH_PEER))
        admin = _verified_conn(world, ADMIN_PEER)
        ops = []
        for op in spec["admin_ops"]:
            r = _admin_op(world, admin, op)
            ops.append((op, [x.status for x in r["responses"]]))
        out = []
        method = bytes.fromhex(spec["method"])
        for tgt, body in spec["requests"]:
            if u.t.closed:
                break
            before = world.digest()
            res = u.send(httpc.http_request(method, bytes.fromhex(tgt), bytes.fromhex(body)), method)
            after = world.digest()
            out.append((res, before, after))
        return {"results": out, "trace": trace, "admin": ops, "flag": bool(u.p.handler.is_encrypted), "world": world}
    finally:
        world.close()


def _judge_single(world_like, what: str, res, before, after) -> List[Tuple[str, str]]:
    """The C03 oracle for one request of a connection that never completed pair-verify."""
    problems: List[Tuple[str, str]] = []
    if res.get("hung"):
        problems.append(("C03:request-not-answered", "the call into the server did not return"))
    served = [r for r in res["responses"] if 200 <= r.status < 300 and not httpc.is_pairing_auth_error(r.body)]
    if served:
        problems.append(("C03:unverified-request-served", f"answered {served[0].status} with {len(served[0].body)} body bytes (not a refusal)"))
    for label, needle in world_like.canaries():
        if needle in res["written"]:
            problems.append(("C03:canary-in-response", f"the response contains the {label}"))
            break
    if before != after:
        problems.append(("C03:state-changed", f"{', '.join(k for k in before if before[k] != after[k])} changed"))
    return problems


def _route_requests(world: World, rng, n_junk: int = 1) -> List[Tuple[str, str, List[List[str]]]]:
    out = []
    for m, p, _h in route_table(world):
        if p in EXEMPT:
            continue
        reqs = [[hx(t), hx(b)] for t, b in valid_bodies(world, m, p)] + [[hx(p.encode()), hx(b)] for b in junk_bodies(rng, n_junk)]
        out.append((m, p, reqs))
    return out


def run_cross_cases(ctx: Ctx, deep: bool):
    st = ctx.stats
    probe = World(True, "sync")
    try:
        routes = _route_requests(probe, ctx.rng)
    finally:
        probe.close()
    states = states_for(True) if deep else ["fresh", "verify-m1", "verify-m3-badsig"]
    op_lists = [[op] for op in ADMIN_OPS] + ([["list", "add", "remove-user"], ["remove-unknown", "remove-unknown"]] if deep else [])
    shapes = ["sync", "async", "bridge"] if deep else ["sync"]
    for shape in shapes:
        for state in states:
            for ops in op_lists:
                for m, p, reqs in routes:
                    if hung_budget_exhausted():
                        return
                    spec = {"kind": "cross", "shape": shape, "state": state, "admin_ops": ops, "method": hx(m.encode()),
                            "requests": reqs, "route": f"{m} {p}"}
                    r = run_cross(spec)
                    st.hit("op", "cross:" + "+".join(ops))
                    for (res, before, after), rq in zip(r["results"], reqs):
                        probs = _judge_single(r["world"], "", res, before, after)
                        st.case(["cross", shape, state, ops, m, rq], True)
                        st.hit("outcome", "cross:PROBLEM" if probs else "cross:refused")
                        if probs and not any(f.signature == probs[0][0] for f in ctx.failures):
                            one = dict(spec, requests=[rq])
                            ctx.fail(probs[0][0],
                                     f"{m} {p} in state {state} after a verified admin on another connection did pairings "
                                     f"{'+'.join(ops)} ({shape}): " + "; ".join(d for _, d in probs), one)


# --------------------------------------------------------------------------- faults inside the pair-verify M3 handler

FAULTS = ["none", "async_persist-raises", "run_in_executor-raises", "state-write-raises"]


def run_fault(spec: Dict[str, Any]) -> Dict[str, Any]:
    """A real pair-verify (reference controller, right key) during which a side effect inside the
    M3 handler raises. 'Verified' is judged by what was SENT: an M4 without error. If none was sent,
    pair-verify did not complete and the connection is swept in plaintext as an unverified one."""
    import uuid as _uuid

    world = World(True, spec["shape"])
    try:
        d = world.driver
        if spec["legacy"]:
            d.state.uuid_to_bytes.pop(_uuid.UUID(CANARY_CTRL_ID.decode()), None)  # state saved by an old version

        def boom(*a, **k):
            raise RuntimeError("cannot schedule new futures after shutdown")

        f = spec["fault"]
        if f == "async_persist-raises":
            d.async_persist = boom
        elif f == "run_in_executor-raises":
            del d.async_persist  # the real method: loop.run_in_executor(None, self.persist)
            world.loop.run_in_executor = boom
        elif f == "state-write-raises":
            class Refusing(dict):
                def __setitem__(self, k, v):
                    raise RuntimeError("state is read-only")

            d.state.uuid_to_bytes = Refusing(d.state.uuid_to_bytes)
        c = Conn(world, FRESH_PEER)
        vc = httpc.VerifyClient(CANARY_CTRL_ID, world.admin_key)
        r1 = c.request(b"POST", b"/pair-verify", vc.m1())
        m4_sent = False
        m3_status = None
        if r1["responses"]:
            vc.read_m2(r1["responses"][0].body)
            r3 = c.request(b"POST", b"/pair-verify", vc.m3())
            if r3["responses"]:
                m3_status = r3["responses"][0].status
                tl = httpc.tlv8.merge_dict(httpc.tlv8.decode_list(r3["responses"][0].body)) if m3_status == 200 else {}
                m4_sent = m3_status == 200 and tl.get(httpc.T_STATE) == b"\x04" and httpc.T_ERROR not in tl
        out = []
        if not m4_sent:
            method = bytes.fromhex(spec["method"])
            for tgt, body in spec["requests"]:
                if c.t.closed:
                    break
                before = world.digest()
                res = c.send(httpc.http_request(method, bytes.fromhex(tgt), bytes.fromhex(body)), method)
                after = world.digest()
                out.append((res, before, after))
        return {"results": out, "m4_sent": m4_sent, "m3_status": m3_status, "flag": bool(c.p.handler.is_encrypted),
                "crypto": c.p.hap_crypto is not None, "world": world}
    finally:
        world.close()


def run_fault_cases(ctx: Ctx, deep: bool):
    st = ctx.stats
    probe = World(True, "sync")
    try:
        routes = _route_requests(probe, ctx.rng)
    finally:
        probe.close()
    for shape in (["sync", "bridge"] if deep else ["sync"]):
        for legacy in (True, False):
            for fault in FAULTS:
                for m, p, reqs in routes:
                    if hung_budget_exhausted():
                        return
                    spec = {"kind": "fault", "shape": shape, "legacy": legacy, "fault": fault, "method": hx(m.encode()),
                            "requests": reqs, "route": f"{m} {p}"}
                    r = run_fault(spec)
                    st.hit("op", f"fault:{fault}:{'legacy' if legacy else 'current'}-state")
                    st.hit("outcome", "fault:verify-" + ("completed (M4 sent)" if r["m4_sent"] else f"not-completed (M3 answered {r['m3_status']})"))
                    for (res, before, after), rq in zip(r["results"], reqs):
                        probs = _judge_single(r["world"], "", res, before, after)
                        st.case(["fault", shape, legacy, fault, m, rq], True)
                        st.hit("outcome", "fault:PROBLEM" if probs else "fault:refused")
                        if probs and not any(f_.signature == probs[0][0] for f_ in ctx.failures):
                            one = dict(spec, requests=[rq])
                            ctx.fail(probs[0][0],
                                     f"{m} {p} in plaintext after a pair-verify that did NOT complete (M3 answered {r['m3_status']}, no M4, "
                                     f"no session key; fault: {fault}, {'legacy' if legacy else 'current'} state, {shape}): "
                                     + "; ".join(d for _, d in probs), one)
                    if r["m4_sent"]:
                        break  # a completed verify: nothing to sweep, one control per (legacy, fault) is enough


# --------------------------------------------------------------------------- run


def plan(ctx: Ctx, world: World, deep: bool) -> List[Tuple[str, bytes, bytes, bytes, str]]:
    """[(state, method, target, body, kind)] for this world."""
    rng = ctx.rng
    cases = []
    routes = route_table(world)
    states = states_for(world.paired)
    n_junk = 6 if not deep else 120
    for (m, p, _h) in routes:
        if p in EXEMPT:
            continue
        for st in states:
            for tgt, body in valid_bodies(world, m, p):
                cases.append((st, m.encode(), tgt, body, "valid"))
            for jb in junk_bodies(rng, n_junk):
                cases.append((st, m.encode(), p.encode(), jb, "junk"))
    # all methods x all paths (and spellings urlparse maps onto a route) on fresh / half-verified connections
    paths = sorted({p for _, p, _ in routes} | {"/", "/identify", "/secure-message", "*"})
    cross_states = ["fresh", "verify-m1"] if not deep else states
    for st in cross_states:
        for p in paths:
            for tv in target_variants(p):
                if is_exempt_target(tv):
                    continue
                for m in METHODS:
                    if not deep and rng.random() < 0.5 and tv != p.encode():
                        continue
                    body = b"" if m in (b"GET", b"HEAD") else rng.choice([b"", b"{}", httpc.pairings_list()])
                    cases.append((st, m, tv, body, "cross"))
    return cases


def run_world(ctx: Ctx, world: World, cases, lines, impls, metas):
    st = ctx.stats
    by_key: Dict[Tuple[str, bytes, bytes], List] = {}
    for c in cases:
        by_key.setdefault((c[0], c[1], c[2] if c[4] == "cross" else c[2].split(b"?")[0]), []).append(c)
    for (state, method, _), group in by_key.items():
        if hung_budget_exhausted():
            st.notes.append("sweep stopped after two calls that did not return")
            break
        conn, trace = reach(world, state)
        for (_, _, target, body, kind) in group:
            if hung_budget_exhausted():
                break
            if conn.t.closed:
                conn, trace = reach(world, state)
            before = world.digest()
            raw = httpc.http_request(method, target, body)
            res = conn.send(raw, method)
            after = world.digest()
            replay = {"kind": "request", "paired": world.paired, "shape": world.shape, "state": state,
                      "method": hx(method), "target": hx(target), "body": hx(body)}
            judge(ctx, world, state, method, target, body, before, res, after, replay)
            obs = observed(res)
            lines.append({"layer": "dispatch", "op": "dispatch", "method": hx(method), "target": hx(target),
                          "headers": [[hx(b"Host"), hx(b"hap.local")]], "body": hx(body),
                          "verified": bool(conn.p.handler.is_encrypted), "has_uuid": conn.p.handler.client_uuid is not None,
                          "is_admin": False, "urlparse": urlparse_field(target)})
            impls.append(obs)
            metas.append({"state": state, "method": method.decode(errors="replace"), "target": target.decode(errors="replace"),
                          "kind": kind, "paired": world.paired, "shape": world.shape, "body_len": len(body)})
            outcome = str(obs.get("status", "closed"))
            st.hit("op", f"{kind}:{state}")
            st.hit("outcome", outcome)
            st.case([world.paired, world.shape, state, hx(method), hx(target), hx(body)], True)


def control_verify_succeeds(ctx: Ctx, world: World):
    """Non-vacuity of the verify states: with the right key the very same client completes
    pair-verify (so the failed-M3 states differ from success only by the credential)."""
    c, trace = reach(world, "verify-ok")
    ok = bool(c.p.handler.is_encrypted)
    ctx.stats.hit("outcome", "control-verify-" + ("completed" if ok else "NOT-completed"))
    if not ok:
        ctx.stats.notes.append(f"control pair-verify with the paired admin key did not complete: {trace}")
        ctx.disagree("harness-control", {"what": "reference pair-verify with the right key"}, "session established", trace)


def extract(ctx: Ctx):
    sys.path.insert(0, str(VERIF / "extract"))
    import routes as ex

    importlib.reload(ex)
    data = ex.main()
    bad = [r for r in data["routes"] if r["guard"] == ".none" and r["path"] not in EXEMPT]
    for r in bad:
        msg = f"route without a recognised privilege guard: {r['method']} {r['path']} -> {r['handler']} ({r['note']})"
        log(f"[C03] {msg}")
        ctx.stats.notes.append(msg)
    for site, val in data["writers"]:
        if val != "False" and site != "routes: POST /pair-verify":
            msg = f"the privilege flag has another writer: {site} assigns `{val}`"
            log(f"[C03] {msg}")
            ctx.stats.notes.append(msg)
    for site, ok, why in data.get("order", []):
        if not ok:
            msg = f"{site}: {why} (privileged without a completed pair-verify if that raises)"
            log(f"[C03] {msg}")
            ctx.stats.notes.append(msg)
    ctx._extracted = data  # type: ignore[attr-defined]


def worlds_for(ctx: Ctx):
    if ctx.quick:
        return [(True, "sync"), (False, "async")]
    return [(True, "sync"), (True, "async"), (True, "bridge"), (False, "sync"), (False, "bridge")]


def run(ctx: Ctx, model: bool = True, deep: Optional[bool] = None):
    st = ctx.stats
    deep = (not ctx.quick) if deep is None else deep
    st.rule = (
        "one case = one request on an unverified connection of a real HAPServerProtocol: every non-exempt route of "
        "HANDLERS x connection state (fresh, after setup M1, after failed setup M3, after verify M1, after failed verify "
        "M3 by garbage / wrong key / unknown id) x (valid bodies for the route + junk bodies), plus methods x paths x "
        "target spellings. Every case reaches a refusing branch (or the defect), so all count as non-trivial; distinct "
        "by (world, state, method, target, body)."
    )
    lines: List[Dict[str, Any]] = []
    impls: List[Dict[str, Any]] = []
    metas: List[Dict[str, Any]] = []
    extracted = getattr(ctx, "_extracted", None)
    for paired, shape in worlds_for(ctx):
        world = World(paired, shape)
        try:
            if extracted is not None:
                tab = sorted((m, p, h) for m, p, h in route_table(world))
                ext = sorted((r["method"], r["path"], r["handler"]) for r in extracted["routes"])
                if tab != ext:
                    ctx.disagree("extractor", {"what": "HANDLERS at run time vs extracted table"}, ext, tab)
            if paired:
                control_verify_succeeds(ctx, world)
            run_world(ctx, world, plan(ctx, world, deep), lines, impls, metas)
        finally:
            world.close()
    run_busy_cases(ctx, deep)
    run_cross_cases(ctx, deep)
    run_fault_cases(ctx, deep)
    if not model:
        return
    answers = run_model_parallel("C03", lines)
    shown = 0
    for ln, meta, m, i in zip(lines, metas, answers, impls):
        st.traces_validated += 1
        if "fatal" in m:
            ctx.disagree("dispatch", meta, m, i)
            continue
        exp = expected_from_model(m)
        if exp is None:
            st.hit("outcome", "model:body-entered")
            continue
        if "status" not in i:
            # no response at all: h11 refused to frame the answer (HEAD with a body) and the pump closed;
            # the pump is C19's model, here only dispatch is compared
            st.hit("outcome", "impl:closed-without-response")
            if meta["method"] != "HEAD":
                ctx.disagree("dispatch", meta, exp, i)
            continue
        if exp != i:
            ctx.disagree("dispatch", meta, exp, i)
        elif shown < 3 and meta["kind"] == "valid":
            shown += 1
            st.sample({"case": meta, "model": exp, "impl": i})
    st.notes.append(f"worlds: {worlds_for(ctx)}; canaries planted: value, name, snapshot, controller ids and keys, database tokens")


def search(ctx: Ctx):
    """Deeper oracle-only search (the proof or the tie broke)."""
    saved = ctx.tier
    ctx.tier = "thorough"
    try:
        run(ctx, model=False, deep=False)
    finally:
        ctx.tier = saved


def replay(ctx: Ctx, r):
    if r.get("kind") in ("cross", "fault"):
        o = run_cross(r) if r["kind"] == "cross" else run_fault(r)
        if r["kind"] == "cross":
            print("scenario: unverified connection in state", r["state"], "; then a verified admin on another connection:", o["admin"])
        else:
            print(f"scenario: pair-verify with fault {r['fault']} ({'legacy' if r['legacy'] else 'current'} state): M3 answered",
                  o["m3_status"], "M4 sent:", o["m4_sent"], "session key installed:", o["crypto"])
        print("handler flag (diagnostic):", o["flag"])
        for (res, before, after), rq in zip(o["results"], r["requests"]):
            print("request:", bytes.fromhex(r["method"]), bytes.fromhex(rq[0]), bytes.fromhex(rq[1])[:80])
            print("response:", res["responses"], "closed:", res["closed"], "digest changed:", [k for k in before if before[k] != after[k]])
            probs = _judge_single(o["world"], "", res, before, after)
            if probs:
                ctx.fail(probs[0][0], "; ".join(d for _, d in probs), r)
        for f in ctx.failures:
            print("FAILS:", f.signature, f.description)
        print("verdict:", "property violated on this input" if ctx.failures else "holds on this input")
        return 1 if ctx.failures else 0
    if r.get("kind") in ("busy", "reuse"):
        res = run_busy(r)
        probs = busy_problems(r, res)
        print("scenario:", r["kind"], {k: r[k] for k in ("shape", "state", "route", "dims", "cause") if k in r})
        print("state reached via:", res["trace"], "verified flag:", res["verified_flag"])
        for tgt, body in r["requests"]:
            print("unverified request:", bytes.fromhex(r["method"]), bytes.fromhex(tgt), bytes.fromhex(body)[:80])
        print("written to the unverified transport:", res["tail"][:400])
        print("digest changes per request window:", res["windows"])
        if probs:
            ctx.fail(probs[0][0], "; ".join(d for _, d in probs), r)
        for f in ctx.failures:
            print("FAILS:", f.signature, f.description)
        print("verdict:", "property violated on this input" if ctx.failures else "holds on this input")
        return 1 if ctx.failures else 0
    world = World(r["paired"], r["shape"])
    try:
        conn, trace = reach(world, r["state"])
        method, target, body = bytes.fromhex(r["method"]), bytes.fromhex(r["target"]), bytes.fromhex(r["body"])
        before = world.digest()
        res = conn.send(httpc.http_request(method, target, body), method)
        after = world.digest()
        judge(ctx, world, r["state"], method, target, body, before, res, after, r)
        print("state reached via:", trace)
        print("request:", method, target, body[:80])
        print("verified flag:", conn.p.handler.is_encrypted)
        print("response:", res["responses"], "closed:", res["closed"], "escaped:", res["escaped"])
        print("digest changed:", [k for k in before if before[k] != after[k]])
    finally:
        world.close()
    for f in ctx.failures:
        print("FAILS:", f.signature, f.description)
    print("verdict:", "property violated on this input" if ctx.failures else "holds on this input")
    return 1 if ctx.failures else 0
