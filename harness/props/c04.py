"""C04 — Inbound encrypted transport delivers exactly the authentic byte stream."""
from __future__ import annotations

import bisect
import importlib
import sys
from pathlib import Path
from unittest import mock

from common import LEAN, REPO, VERIF, Ctx, hx, run_model_parallel
from ref import frames as ref

sys.path.insert(0, str(VERIF / "extract"))
import crypto_consts  # noqa: E402

PROP = "C04"
LEAN_MODULE = "Props.C04"
TRUSTED = [
    "Lean 4.33 kernel; axioms propext, Classical.choice, Quot.sound only (audited by #print axioms)",
    "AEAD security is a hypothesis, not a theorem: C04_authentic assumes `Correct` (opens what it sealed), "
    "C04_tamper assumes `Ideal` (only what the sender sealed opens, at its own counter); both have proved instances",
    "hand-written model lean/HapModel/Frame.lean of HAPCrypto.decrypt / data_received, tied by the differential run "
    "(transparent mock AEAD on both sides) and by constants regenerated from pyhap/hap_crypto.py (extract/crypto_consts.py)",
    "nonce packing, AAD and key derivation are abstracted by the mock; they are validated against the independent "
    "reference codec harness/ref/frames.py with real ChaCha20-Poly1305 (testing, not proof)",
    "asyncio contract: no data_received after transport.close(); chacha20poly1305_reuseable / cryptography libraries",
]
SHARED = bytes(range(32))


def extract(ctx: Ctx):
    crypto_consts.write(REPO, LEAN)


def _mods():
    import pyhap.hap_crypto as hc

    return importlib.reload(hc)


class PyMock:
    """Stand-in for pyhap.hap_crypto.ChaCha20Poly1305 (same interface, transparent tag)."""

    def __init__(self, key):
        self.m = ref.Mock(bytes(key))

    @staticmethod
    def _ctr(nonce):
        assert bytes(nonce[:4]) == b"\0\0\0\0"
        return int.from_bytes(bytes(nonce[4:12]), "little")

    def encrypt(self, nonce, data, aad):
        return self.m.seal(self._ctr(nonce), bytes(aad or b""), bytes(data))

    def decrypt(self, nonce, data, aad):
        from cryptography.exceptions import InvalidTag

        r = self.m.open(self._ctr(nonce), bytes(aad or b""), bytes(data))
        if r is None:
            raise InvalidTag
        return r


# ------------------------------------------------------------------ generators


def payload(rng, n):
    s = rng.randrange(1, 255)
    return bytes(((s + i * 13) % 251) + 1 for i in range(n))


def cuts_to_reads(stream: bytes, cuts):
    cuts = sorted(set(c for c in cuts if 0 < c < len(stream)))
    pts = [0] + cuts + [len(stream)]
    return [stream[a:b] for a, b in zip(pts, pts[1:]) if b > a]


TAMPERS = ["flip", "swap", "dup", "drop", "trunc", "lenprefix", "wrongkey", "wrongctr", "append-garbage", "none"]


def tamper(rng, cipher_cls, key, other_key, payloads, kind):
    c = cipher_cls(key)
    frames = ref.seal_frames(c, payloads)
    fr = list(frames)
    if kind == "flip" and fr:
        i = rng.randrange(len(fr))
        b = bytearray(fr[i])
        pos = rng.randrange(len(b))
        b[pos] ^= 1 << rng.randrange(8)
        fr[i] = bytes(b)
    elif kind == "swap" and len(fr) >= 2:
        i = rng.randrange(len(fr) - 1)
        fr[i], fr[i + 1] = fr[i + 1], fr[i]
    elif kind == "dup" and fr:
        i = rng.randrange(len(fr))
        fr.insert(i + 1, fr[i])
    elif kind == "drop" and len(fr) >= 2:
        del fr[rng.randrange(len(fr) - 1)]
    elif kind == "trunc" and fr:
        s = b"".join(fr)
        return frames, s[: rng.randrange(len(s))]
    elif kind == "lenprefix" and fr:
        i = rng.randrange(len(fr))
        newlen = rng.choice([0, 1, len(payloads[i]) - 1, len(payloads[i]) + 1, 1024, 1025, 65535]) % 65536
        fr[i] = newlen.to_bytes(2, "little") + fr[i][2:]
    elif kind == "wrongkey" and fr:
        i = rng.randrange(len(fr))
        fr[i] = ref.seal_frames(cipher_cls(other_key), [payloads[i]], start=i)[0]
    elif kind == "wrongctr" and fr:
        i = rng.randrange(len(fr))
        fr[i] = ref.seal_frames(c, [payloads[i]], start=i + rng.choice([1, 2, 255, 256]))[0]
    elif kind == "append-garbage":
        fr.append(bytes(rng.randrange(256) for _ in range(rng.choice([1, 5, 19, 40]))))
    return frames, b"".join(fr)


def gen_cases(ctx: Ctx):
    """(payloads, tamper kind, stream, reads) with the mock cipher."""
    rng = ctx.rng
    key_in = ref.hkdf(SHARED, ref.SALT, ref.C2A)
    other = bytes([key_in[0] ^ 0x55]) + key_in[1:]
    cases = []

    def add(payloads, kind, stream, reads):
        cases.append({"payloads": payloads, "kind": kind, "stream": stream, "reads": reads})

    M = ref.Mock
    # single frames of boundary sizes, whole and in two reads at every position (small ones)
    for n in [1, 2, 3, 17, 18, 19, 1023, 1024]:
        ps = [payload(rng, n)]
        _, s = tamper(rng, M, key_in, other, ps, "none")
        add(ps, "none", s, [s])
        add(ps, "none", s, [bytes([b]) for b in s] if n <= 19 else cuts_to_reads(s, [1, 2, 3, len(s) - 1]))
    # multi-frame streams ending in a 1-byte-payload frame (19-byte tail), and around 1024/1025/2049
    for sizes in [[1], [1, 1], [5, 1], [1024, 1], [1024, 1024, 1], [1, 1024], [3, 2, 1], [1, 1, 1, 1]]:
        ps = [payload(rng, n) for n in sizes]
        _, s = tamper(rng, M, key_in, other, ps, "none")
        add(ps, "none", s, [s])
        ends, pos = [], 0
        for n in sizes:
            pos += n + 18
            ends.append(pos)
        add(ps, "none", s, cuts_to_reads(s, ends))  # every read ends exactly on a frame boundary
        add(ps, "none", s, cuts_to_reads(s, [e - 1 for e in ends] + [e + 1 for e in ends]))
    # exhaustive 2-cut chunkings of short streams
    lim = 60 if ctx.quick else 120
    for sizes in [[1, 1], [2, 1], [1, 3, 1]] if ctx.quick else [[1, 1], [2, 1], [1, 3, 1], [20, 1], [1, 1, 1, 1, 1]]:
        ps = [payload(rng, n) for n in sizes]
        _, s = tamper(rng, M, key_in, other, ps, "none")
        if len(s) > lim:
            continue
        for a in range(1, len(s)):
            for b in range(a + 1, len(s)) if (ctx.quick is False or a % 3 == 0) else [min(a + 19, len(s) - 1)]:
                add(ps, "none", s, cuts_to_reads(s, [a, b]))
    # byte-at-a-time up to ~3 KB
    ps = [payload(rng, n) for n in ([700, 1, 1024, 300, 1] if ctx.quick else [1024, 1, 1024, 1024, 700, 1])]
    _, s = tamper(rng, M, key_in, other, ps, "none")
    add(ps, "none", s, [bytes([b]) for b in s])
    # random tamper scripts
    for _ in range(ctx.n(400, 20000)):
        k = rng.choice([1, 2, 3, 4, 6])
        ps = [payload(rng, rng.choice([1, 1, 2, 5, 17, 40, 300, 1023, 1024])) for _ in range(k)]
        kind = rng.choice(TAMPERS)
        _, s = tamper(rng, M, key_in, other, ps, kind)
        ncut = rng.choice([0, 1, 2, 3, 5, 8])
        reads = cuts_to_reads(s, [rng.randrange(1, max(2, len(s))) for _ in range(ncut)]) if s else []
        if rng.random() < 0.3 and ps:  # some reads end exactly on frame boundaries
            pos, ends = 0, []
            for p in ps:
                pos += len(p) + 18
                ends.append(pos)
            reads = cuts_to_reads(s, ends + [rng.randrange(1, max(2, len(s)))])
        add(ps, kind, s, reads)
    # many complete frames in ONE read (no per-call limit on how many frames a read may carry), and the
    # same stream in two and three reads; small payloads keep this cheap enough for the quick tier
    for nfr in ([17, 33, 70] if ctx.quick else [17, 33, 70, 200, 513]):
        ps = [payload(rng, rng.choice([1, 1, 2, 7])) for _ in range(nfr)]
        _, s = tamper(rng, M, key_in, other, ps, "none")
        add(ps, "none", s, [s])
        add(ps, "none", s, cuts_to_reads(s, [len(s) // 2]))
        add(ps, "none", s, cuts_to_reads(s, [19, len(s) - 1]))
    for nfr in [17, 40]:  # ... with full-size frames (what a large request body looks like)
        ps = [payload(rng, 1024) for _ in range(nfr)] + [payload(rng, 1)]
        _, s = tamper(rng, M, key_in, other, ps, "none")
        add(ps, "none", s, [s])
    # long random streams (thorough)
    if not ctx.quick:
        for _ in range(30):
            ps = [payload(rng, rng.choice([1, 1024, 1024, 1024, 512, 7])) for _ in range(rng.randrange(20, 64))]
            _, s = tamper(rng, M, key_in, other, ps, "none")
            add(ps, "none", s, cuts_to_reads(s, [rng.randrange(1, len(s)) for _ in range(rng.randrange(0, 40))]))
    return cases, key_in


# ------------------------------------------------------------------ implementation runs


def impl_rx(hc, reads):
    """Feed reads to a real HAPCrypto; per-read observation, stopping at the first InvalidTag
    (HAPServerProtocol closes the connection there)."""
    from cryptography.exceptions import InvalidTag

    crypto = hc.HAPCrypto(SHARED)
    obs = []
    closed = False
    for r in reads:
        if closed:
            obs.append({"closed": True})
            continue
        try:
            crypto.receive_data(r)
            out = crypto.decrypt()
        except InvalidTag:
            obs.append({"err": "InvalidTag"})
            closed = True
            continue
        except Exception as ex:  # noqa: BLE001
            obs.append({"err": type(ex).__name__})
            closed = True
            continue
        obs.append({"out": hx(out)})
    return obs


_DEBUG_LOGGING = [False]


def judge(ctx: Ctx, cipher, case, obs, replay_kind, rep_override=None):
    """The property, stated on the observed behaviour with the reference receiver."""
    stream, reads, payloads = case["stream"], case["reads"], case["payloads"]
    frames, fail_end, consumed = ref.receive(cipher, stream)
    # only frames that are the sender's authentic ones may open; the reference receiver opens
    # exactly those that are authentic *in position*
    ends = [e for e, _ in frames]
    cum = [0]
    for _, p in frames:
        cum.append(cum[-1] + len(p))
    authentic = b"".join(p for _, p in frames)
    n = 0
    delivered = b""
    failed = False
    if case.get("replay") is not None:
        # cases too long to be recorded byte by byte are regenerated from their plan
        rep = dict(case["replay"])
    else:
        rep = {
            "kind": replay_kind,
            "payload_sizes": [len(p) for p in payloads],
            "tamper": case["kind"],
            "stream": hx(stream),
            "reads": [len(r) for r in reads],
        }
    if rep_override is not None:
        rep = dict(rep_override, connection_payload_sizes=rep["payload_sizes"], connection_tamper=case["kind"])
    if _DEBUG_LOGGING[0]:
        rep["logging"] = "pyhap-debug"
    for r, o in zip(reads, obs):
        n += len(r)
        if failed:
            if "out" in o and o["out"]:
                ctx.fail("C04:delivered-after-failure", "bytes handed over after a frame failed authentication", rep)
            continue
        n_complete = bisect.bisect_right(ends, n)
        want = authentic[: cum[n_complete]]
        must_fail = fail_end is not None and n >= max(fail_end, consumed + 19)
        may_fail = fail_end is not None and n >= fail_end
        if "err" in o:
            if o["err"] != "InvalidTag":
                ctx.fail("C04:unexpected-exception", f"decrypt raised {o['err']}", rep)
            elif not may_fail:
                ctx.fail("C04:authentic-stream-rejected", f"InvalidTag after {n} bytes of an authentic (prefix of a) stream", rep)
            failed = True
            continue
        delivered += bytes.fromhex(o.get("out", ""))
        if must_fail:
            ctx.fail(
                "C04:tampered-frame-not-rejected",
                f"a complete non-authentic frame (tamper={case['kind']}) ending at offset {fail_end} was not rejected after {n} bytes",
                rep,
            )
            return
        if delivered != want:
            if want.startswith(delivered):
                ctx.fail(
                    "C04:complete-frame-not-delivered",
                    f"after {n} bytes {n_complete} authentic frames are complete but only "
                    f"{len(delivered)} of {len(want)} payload bytes were handed over (payload sizes {_short([len(p) for p in payloads])})",
                    rep,
                )
            else:
                ctx.fail("C04:delivered-bytes-differ", f"handed-over bytes differ from the authentic payloads after {n} bytes", rep)
            return


def run_mock_stream(ctx: Ctx, hc):
    st = ctx.stats
    cases, key_in = gen_cases(ctx)
    cipher = ref.Mock(key_in)
    lines, impls = [], []
    with mock.patch.object(hc, "ChaCha20Poly1305", PyMock):
        for c in cases:
            obs = impl_rx(hc, c["reads"])
            impls.append(obs)
            judge(ctx, cipher, c, obs, "mock-rx")
            lines.append({"layer": "frame", "op": "rx", "key": key_in[0], "reads": [hx(r) for r in c["reads"]]})
            frames, fail_end, _ = ref.receive(cipher, c["stream"])
            st.case(
                ["rx", [len(p) for p in c["payloads"]], c["kind"], [len(r) for r in c["reads"]], hx(c["stream"][:8])],
                len(c["payloads"]) >= 2 or len(c["reads"]) >= 2 or c["kind"] != "none",
            )
            st.hit("op", "tamper:" + c["kind"])
            st.hit("outcome", "rejected" if any("err" in o for o in obs) else "all-delivered" if frames and frames[-1][0] == len(c["stream"]) else "partial-buffered")
            if any(len(p) == 1 for p in c["payloads"][-1:]) and c["kind"] == "none":
                st.hit("outcome", "19-byte-frame-at-tail")
    model = run_model_parallel("C04", lines)
    for c, m, i in zip(cases, model, impls):
        st.traces_validated += 1
        if m.get("reads") != i:
            ctx.disagree(
                "frame-rx",
                {"payload_sizes": [len(p) for p in c["payloads"]], "tamper": c["kind"], "reads": [len(r) for r in c["reads"]]},
                _short(m.get("reads", m)),
                _short(i),
            )
    k = min(len(cases) - 1, 20)
    st.sample({"payload_sizes": [len(p) for p in cases[k]["payloads"]], "tamper": cases[k]["kind"],
               "reads": [len(r) for r in cases[k]["reads"]], "impl": _short(impls[k]), "model": _short(model[k].get("reads"))})
    st.sample({"payload_sizes": [len(p) for p in cases[-1]["payloads"]][:8], "tamper": cases[-1]["kind"],
               "reads": [len(r) for r in cases[-1]["reads"]][:8], "impl": _short(impls[-1])})


def run_real_stream(ctx: Ctx, hc):
    """Real ChaCha20-Poly1305: frames of the independent reference controller vs real HAPCrypto."""
    rng = ctx.rng
    st = ctx.stats
    key_in = ref.hkdf(SHARED, ref.SALT, ref.C2A)
    other = ref.hkdf(b"\x01" * 32, ref.SALT, ref.C2A)
    cipher = ref.Real(key_in)
    # single reads far beyond 64 KiB (asyncio hands over up to 256 KiB per call): a large request body in full frames,
    # thousands of tiny frames, and a big read arriving behind a pending partial frame
    big = []
    for sizes, cuts in ([[1024] * 70, []], [[1024] * 130 + [1], []], [[1] * 4000, []], [[1024] * 66, [117]], [[300] * 260, [65536]]):
        ps = [payload(rng, n) for n in sizes]
        _, s = tamper(rng, ref.Real, key_in, other, ps, "none")
        big.append({"payloads": ps, "kind": "none", "stream": s, "reads": cuts_to_reads(s, cuts)})
    for case in big:
        judge(ctx, cipher, case, impl_rx(hc, case["reads"]), "real-rx")
        st.case(["real-big", len(case["payloads"]), [len(r) for r in case["reads"]]], True)
        st.hit("op", "real-crypto:big-read")
        st.hit("outcome", "read-over-64KiB")
    for _ in range(ctx.n(150, 3000)):
        k = rng.choice([1, 2, 3, 5])
        ps = [payload(rng, rng.choice([1, 1, 2, 19, 300, 1023, 1024])) for _ in range(k)]
        kind = rng.choice(TAMPERS)
        _, s = tamper(rng, ref.Real, key_in, other, ps, kind)
        reads = cuts_to_reads(s, [rng.randrange(1, max(2, len(s))) for _ in range(rng.choice([0, 1, 3]))]) if s else []
        case = {"payloads": ps, "kind": kind, "stream": s, "reads": reads}
        obs = impl_rx(hc, reads)
        judge(ctx, cipher, case, obs, "real-rx")
        st.case(["real", [len(p) for p in ps], kind, [len(r) for r in reads], hx(s[:8])], True)
        st.hit("op", "real-crypto:" + kind)


def _xrng(ctx: Ctx, tag: str):
    """generator of a stream added later: independent of ctx.rng, so that the cases the older streams draw for a
    given VERIF_SEED stay what they were"""
    import random as _random

    return _random.Random(f"C04:{tag}:{ctx.seed}")


LONG_FRAMES = 65536  # the frame counter leaves its two low nonce bytes after this many frames


def long_rx_case(plan):
    """A LONG session of one connection, regenerated from its plan: more than 65536 inbound frames sealed by the
    independent reference codec (nonce = 4 zero bytes || LE64 frame number, whatever the number), mostly 1-byte
    payloads so that the whole session is ~1.3 MB of ciphertext.
      authentic-then-stale  : 65536 + extra authentic frames, then a replay of an earlier frame of the session
      replay-first-at-65536 : frames 0..65535, then frame 0 again in the place of frame 65536
      wrong-counter-at-65536: frames 0..65535, then a fresh payload sealed under counter 0 instead of 65536"""
    import random as _random

    r = _random.Random(plan["seed"])
    variant = plan["variant"]
    n_auth = LONG_FRAMES + (plan["extra"] if variant == "authentic-then-stale" else 0)
    key_in = ref.hkdf(SHARED, ref.SALT, ref.C2A)
    cipher = ref.Real(key_in)
    s0 = r.randrange(251)
    ps = [bytes([1 + (s0 + i * 7) % 251]) for i in range(n_auth)]
    for _ in range(60):  # a few larger frames anywhere, and right around the boundary
        i = r.randrange(n_auth)
        ps[i] = payload(r, r.choice([2, 19, 300, 1024]))
    for i in (LONG_FRAMES - 2, LONG_FRAMES - 1, LONG_FRAMES, LONG_FRAMES + 1):
        if i < n_auth and r.random() < 0.5:
            ps[i] = payload(r, r.choice([1, 2, 40]))
    fr = ref.seal_frames(cipher, ps)
    if variant == "authentic-then-stale":
        fr.append(fr[r.choice([0, 1, 255, 256, n_auth - LONG_FRAMES, r.randrange(n_auth)])])
    elif variant == "replay-first-at-65536":
        fr.append(fr[0])
    else:
        fr.append(ref.seal_frames(cipher, [payload(r, 5)], start=0)[0])
    stream = b"".join(fr)
    pos, boundary = 0, []
    for i, f in enumerate(fr):
        pos += len(f)
        if i in (LONG_FRAMES - 1, LONG_FRAMES):
            boundary.append(pos)
    cuts = [r.randrange(1, len(stream)) for _ in range(r.choice([12, 25, 40]))]
    # reads that end exactly on the last byte of frame 65535 / of frame 65536, or one byte off
    cuts += [b + r.choice([0, 0, -1, 1]) for b in boundary]
    return {"payloads": ps, "kind": variant, "stream": stream, "reads": cuts_to_reads(stream, cuts),
            "replay": {"kind": "long-rx", "plan": plan}}, cipher


def run_long_session(ctx: Ctx, hc, only=None):
    """One connection that lives for more than 65536 inbound frames (real ChaCha20-Poly1305, reference sealer): every
    authentic payload must still be handed over in order and a replayed / re-countered frame must still be rejected,
    whichever byte of the nonce the frame number has reached."""
    st = ctx.stats
    if only is not None:
        plans = [only]
    else:
        xr = _xrng(ctx, "long")
        variants = ["authentic-then-stale", "replay-first-at-65536"] + ([] if ctx.quick else ["wrong-counter-at-65536"])
        plans = [{"variant": v, "extra": xr.choice([40, 300, 700]), "seed": xr.randrange(1 << 30)} for v in variants]
    for plan in plans:
        case, cipher = long_rx_case(plan)
        obs = impl_rx(hc, case["reads"])
        judge(ctx, cipher, case, obs, "long-rx")
        st.case(["long-rx", plan["variant"], plan["extra"], plan["seed"]], True)
        st.hit("op", "long-session:" + plan["variant"])
        st.hit("outcome", "long-session:" + ("rejected-at-end" if any("err" in o for o in obs[-1:]) else "no-rejection" if not any("err" in o for o in obs) else "rejected-early"))


def run_pending_response(ctx: Ctx, hc, only=None):
    """Frames that arrive WHILE A DELAYED RESPONSE IS PENDING (a camera snapshot: POST /resource on an accessory with
    async_get_snapshot). The receive side of the property does not know about responses: a complete authentic frame
    arriving in that window is handed to the HTTP parser by the read that carries its last byte, a non-authentic one
    closes the connection at that read. What the HTTP layer then does with a pipelined request (pyhap closes the
    connection) is not C04's business and is not judged. Real pair-verify by the reference controller; observed:
    the bytes handed to the HTTP parser (`proto.conn.receive_data`) and `transport.close`, per read; which frames are
    authentic is decided by the reference receiver, never by the name of the case. Mock-AEAD runs are also compared
    with the model (`rxp`: reads interleaved with changes of the pending flag)."""
    import json as _json
    import random as _random

    from cryptography.hazmat.primitives.asymmetric import ed25519

    from props.c05 import IDENT, build_accessory
    from ref import pv_client
    from rig import Rig

    st = ctx.stats
    windows = ["auth-one-read", "auth-bytewise", "auth-split", "auth-two-frames", "auth-19-byte-frame", "auth-partial-only",
               "flip", "replay", "wrongctr", "wrongkey", "lenprefix", "auth-then-dup", "flip-bytewise"]
    if only is not None:
        plans = [only]
    else:
        xr = _xrng(ctx, "pending" + ("-debug" if _DEBUG_LOGGING[0] else ""))
        plans = [{"window": w, "mode": m, "before": 0, "seed": xr.randrange(1 << 30)} for w in windows for m in ("real", "mock")]
        for _ in range(ctx.n(14, 400)):
            plans.append({"window": xr.choice(windows), "mode": xr.choice(["real", "mock"]),
                          "before": xr.choice([0, 1, 3]), "seed": xr.randrange(1 << 30)})
        if ctx.budget_scale < 0.5:  # bounded repeats (debug logging, interpreter variant): a sample of the fixed plans
            plans = plans[:: 3]
    lines, impls = [], []
    for plan in plans:
        r = _random.Random(plan["seed"])
        window, mode = plan["window"], plan["mode"]
        cipher_cls = ref.Mock if mode == "mock" else ref.Real
        rep = {"kind": "pending-response", "plan": plan}
        if _DEBUG_LOGGING[0]:
            rep["logging"] = "pyhap-debug"
        size = plan["before"] * 20 + windows.index(window)
        patches = []
        if mode == "mock":
            pm = mock.patch.object(hc, "ChaCha20Poly1305", PyMock)
            pm.start()
            patches.append(pm)
        rig = Rig()
        try:
            driver = rig.driver
            acc, chars = build_accessory(driver)
            ltsk = ed25519.Ed25519PrivateKey.generate()
            driver.state.add_paired_client(IDENT, pv_client.pub_bytes(ltsk), b"\x01")
            proto, tr = rig.connect()
            iid = driver.accessory.iid_manager.get_iid(chars[0])
            v = pv_client.Verifier(IDENT, ltsk)
            proto.data_received(pv_client.http_post("/pair-verify", v.m1()))
            msgs, _ = ref.split_messages(tr.data())
            proto.data_received(pv_client.http_post("/pair-verify", v.m3(msgs[-1][3])))
            rig.loop.settle()
            if tr.closed:
                ctx.fail("C04:session-not-established", "an honest pair-verify did not secure the connection", rep)
                continue
            key = ref.hkdf(v.shared, ref.SALT, ref.C2A)
            cipher = cipher_cls(key)
            other = cipher_cls(bytes([key[0] ^ 0x55]) + key[1:])
            handed = []
            orig_r = proto.conn.receive_data
            proto.conn.receive_data = lambda d, _o=orig_r, _h=handed: (_h.append(bytes(d)), _o(d))[1]
            events, obs = [], []  # model input / per-read observation
            sent_frames = []  # every authentic frame sent so far (material for replays)

            def seal(parts):
                fr = ref.seal_frames(cipher, parts, start=len(sent_frames))
                sent_frames.extend(fr)
                return fr

            def feed(read):
                """one read, then loop iterations only (virtual time does not move: a pending snapshot stays pending);
                returns the bytes handed to the HTTP parser by it"""
                before = sum(len(x) for x in handed)
                proto.data_received(read)
                rig.loop.settle()
                events.append({"read": hx(read)})
                return b"".join(handed)[before:]

            # ---- ordinary authentic traffic, then the snapshot request: leaves a delayed response pending
            sent_plain = b""
            pre = [b"GET /characteristics?id=1.%d&n=%d HTTP/1.1\r\nHost: a\r\n\r\n" % (iid, i) for i in range(plan["before"])]
            body = _json.dumps({"aid": 1, "size": r.choice([1, 900, 3000]), "delay": 1.0}).encode()
            snap = b"POST /resource HTTP/1.1\r\nHost: a\r\nContent-Length: %d\r\n\r\n" % len(body) + body
            if r.random() < 0.5:
                pre.append(snap)
            else:
                h = r.randrange(1, len(snap))
                pre += [snap[:h], snap[h:]]
            ok = True
            for part in pre:
                got_now = feed(seal([part])[0])
                obs.append({"out": hx(got_now)})
                sent_plain += part
                if tr.closed or b"".join(handed) != sent_plain:
                    # nothing is pending yet: this is the ordinary protocol-level case (judged with the same words)
                    total = b"".join(handed)
                    sig = ("C04:authentic-stream-rejected" if tr.closed and total != sent_plain else
                           "C04:complete-frame-not-delivered" if sent_plain.startswith(total) else "C04:delivered-bytes-differ")
                    if total != sent_plain:
                        ctx.fail(sig, f"before the snapshot request was complete: HTTP layer has {len(total)} of {len(sent_plain)} authentic bytes", rep, size=size)
                    ok = False
                    break
            if not ok:
                st.hit("outcome", "pending:setup-ended-early")
                continue
            events.append({"pending": True})
            # ---- the window: further reads while the response is pending
            ctr0 = len(sent_frames)
            nxt = b"GET /characteristics?id=1.%d&w=1 HTTP/1.1\r\nHost: a\r\n\r\n" % iid
            if window == "auth-one-read":
                wreads = [seal([nxt])[0]]
            elif window == "auth-bytewise":
                w = seal([nxt])[0]
                wreads = [w[k : k + 1] for k in range(len(w))]
            elif window == "auth-split":
                w = seal([nxt])[0]
                c = r.choice([1, 2, 3, len(w) - 17, len(w) - 16, len(w) - 1, r.randrange(1, len(w))])
                wreads = [w[:c], w[c:]]
            elif window == "auth-two-frames":
                h = r.randrange(1, len(nxt))
                wreads = seal([nxt[:h], nxt[h:]])
            elif window == "auth-19-byte-frame":
                wreads = seal([nxt[:1]])
            elif window == "auth-partial-only":
                w = seal([nxt])[0]
                wreads = [w[: r.randrange(1, len(w))]]
            elif window == "auth-then-dup":
                w = seal([nxt[:7]])[0]
                wreads = [w, w] if r.random() < 0.5 else [w + w]
            elif window in ("flip", "flip-bytewise"):
                w = bytearray(seal([nxt])[0])
                w[r.randrange(len(w))] ^= 1 << r.randrange(8)
                ln = int.from_bytes(w[:2], "little")
                w += bytes(max(0, 2 + ln + 16 - len(w)))  # a forged longer length: complete the forged frame
                w = bytes(w)
                if window == "flip":
                    wreads = [w]
                else:  # byte-wise (a forged length can make the forged frame tens of KB long: then only its last bytes singly)
                    head = max(0, len(w) - 400)
                    wreads = ([w[:head]] if head else []) + [w[k : k + 1] for k in range(head, len(w))]
            elif window == "replay":
                wreads = [r.choice(sent_frames)]
            elif window == "wrongctr":
                wreads = [ref.seal_frames(cipher, [nxt], start=ctr0 + r.choice([1, 2, 255, 256]))[0]]
            elif window == "wrongkey":
                wreads = [ref.seal_frames(other, [nxt], start=ctr0)[0]]
            else:  # lenprefix
                w = seal([nxt])[0]
                wreads = [(len(nxt) - 1).to_bytes(2, "little") + w[2:]]
            frames, fail_end, consumed = ref.receive(cipher, b"".join(wreads), start=ctr0)
            base = len(sent_plain)
            n = 0
            for rd in wreads:
                if tr.closed:
                    break
                got_now = feed(rd)
                n += len(rd)
                want = b"".join(p for e, p in frames if e <= n)
                got = b"".join(handed)[base:]
                if fail_end is not None and n >= max(fail_end, consumed + 19):
                    obs.append({"err": "InvalidTag"} if tr.closed and not got_now else {"out": hx(got_now)})
                    if not want.startswith(got):
                        ctx.fail("C04:non-authentic-frame-delivered", f"a delayed response (snapshot) is pending: bytes of a frame that is not "
                                 f"authentic ('{window}') reached the HTTP layer", rep, size=size)
                    elif not tr.closed:
                        ctx.fail("C04:not-closed-after-failure", f"a complete non-authentic frame ('{window}') arrived while a delayed response "
                                 "(snapshot) was pending and the connection was not closed", rep, size=size)
                    break
                obs.append({"out": hx(got_now)})
                if got != want:
                    if tr.closed and not got_now:
                        ctx.fail("C04:authentic-stream-rejected", f"an authentic frame arriving while a delayed response (snapshot) was pending "
                                 f"('{window}') closed the connection without being handed over", rep, size=size)
                    else:
                        sig = "C04:complete-frame-not-delivered" if want.startswith(got) else "C04:delivered-bytes-differ"
                        ctx.fail(sig, f"a delayed response (snapshot) is pending: after the read that carries the last byte of an authentic "
                                 f"frame ('{window}') the HTTP layer has {len(got)} of {len(want)} bytes of the authentic frames that are "
                                 f"complete", rep, size=size)
                    break
            in_window = sum(len(x) for x in handed)
            # let the snapshot complete: nothing that was withheld in the window may show up only now
            rig.loop.advance(1.5)
            late = b"".join(handed)[in_window:]
            if late:
                ctx.fail("C04:complete-frame-not-delivered", f"{len(late)} bytes were handed to the HTTP layer only when the delayed response "
                         f"completed, not when their frame arrived ('{window}')", rep, size=size)
            if mode == "mock":
                lines.append({"layer": "frame", "op": "rxp", "key": key[0], "events": events})
                impls.append({"obs": obs, "plan": plan})
            st.case(["pending-response", window, mode, plan["before"], plan["seed"]], True)
            st.hit("op", "pending-response:" + window)
            st.hit("outcome", "pending:closed" if tr.closed else "pending:open")
        except (AssertionError, KeyError, IndexError, ValueError, TypeError) as ex:
            # the reference controller could not establish the session: not this scenario's business
            st.hit("outcome", "pending-aborted:" + type(ex).__name__)
        finally:
            for pm in patches:
                pm.stop()
            rig.close()
    if only is None and lines:
        model = run_model_parallel("C04", lines)
        for m, i in zip(model, impls):
            st.traces_validated += 1
            if m.get("reads") != i["obs"]:
                ctx.disagree("pending-response", i["plan"], _short(m.get("reads", m)), _short(i["obs"]))


def run_interleaved(ctx: Ctx, hc, only=None):
    """Several sessions alive at once in one process: each connection has its own HAPCrypto (created when its first
    read arrives, i.e. often while another connection is in the middle of a frame), reads are interleaved across
    connections. Oracle: every connection gets exactly what the reference receiver gives for ITS stream alone.
    Mock-AEAD schedules are also compared with the model's pool (`Pool.run`)."""
    from cryptography.exceptions import InvalidTag

    rng = ctx.rng
    st = ctx.stats
    lines, impls = [], []
    plans = []
    if only is not None:
        plans = [only]
    else:
        for it in range(ctx.n(70, 2000)):
            plans.append({"mode": "mock" if it % 2 == 0 else "real", "nconn": rng.choice([2, 2, 3]), "seed": rng.randrange(1 << 30)})
    for plan in plans:
        import random as _random

        r = _random.Random(plan["seed"])
        mode, nconn = plan["mode"], plan["nconn"]
        cls = ref.Mock if mode == "mock" else ref.Real
        shared = [bytes([17 * (i + 1) + r.randrange(8)]) * 32 for i in range(nconn)]
        keys = [ref.hkdf(sk, ref.SALT, ref.C2A) for sk in shared]
        other = ref.hkdf(b"\x01" * 32, ref.SALT, ref.C2A)
        conns = []
        for i in range(nconn):
            ps = [payload(r, r.choice([1, 2, 19, 40, 300, 1024])) for _ in range(r.choice([1, 2, 3, 5]))]
            kind = r.choice(["none", "none", "none", "none", "flip", "dup", "wrongkey"])
            _, s = tamper(r, cls, keys[i], other, ps, kind)
            # cut so that reads end INSIDE frames most of the time
            cuts = [r.randrange(1, max(2, len(s))) for _ in range(r.choice([1, 2, 3, 5]))]
            conns.append({"payloads": ps, "kind": kind, "stream": s, "reads": cuts_to_reads(s, cuts)})
        order = [i for i, c in enumerate(conns) for _ in c["reads"]]
        r.shuffle(order)
        pos = [0] * nconn
        sched = []
        for i in order:
            sched.append((i, conns[i]["reads"][pos[i]]))
            pos[i] += 1
        rep = {"kind": "interleaved", "plan": plan}
        patches = []
        if mode == "mock":
            pm = mock.patch.object(hc, "ChaCha20Poly1305", PyMock)
            pm.start()
            patches.append(pm)
        try:
            inst, closed = {}, set()
            obs = [[] for _ in range(nconn)]
            outs = []
            for i, rd in sched:
                if i in closed:
                    obs[i].append({"closed": True})
                    outs.append([i, ""])
                    continue
                if i not in inst:
                    inst[i] = hc.HAPCrypto(shared[i])  # a new session starts while others may be mid-frame
                try:
                    inst[i].receive_data(rd)
                    out = inst[i].decrypt()
                    obs[i].append({"out": hx(out)})
                    outs.append([i, hx(out)])
                except InvalidTag:
                    obs[i].append({"err": "InvalidTag"})
                    outs.append([i, ""])
                    closed.add(i)
                except Exception as ex:  # noqa: BLE001
                    obs[i].append({"err": type(ex).__name__})
                    outs.append([i, ""])
                    closed.add(i)
        finally:
            for pm in patches:
                pm.stop()
        for i in range(nconn):
            judge(ctx, cls(keys[i]), conns[i], obs[i], "interleaved", rep_override=rep)
        if mode == "mock":
            lines.append({"layer": "frame", "op": "pool", "keys": [k[0] for k in keys], "sched": [[i, hx(rd)] for i, rd in sched]})
            impls.append({"outs": outs, "closed": [i in closed for i in range(nconn)], "plan": plan})
        st.case(["interleaved", plan["mode"], plan["nconn"], plan["seed"]], True)
        st.hit("op", "interleaved:" + mode)
        st.hit("outcome", "interleaved-some-closed" if closed else "interleaved-all-open")
    if only is None:
        model = run_model_parallel("C04", lines)
        for m, i in zip(model, impls):
            st.traces_validated += 1
            if (m.get("outs"), m.get("closed")) != (i["outs"], i["closed"]):
                ctx.disagree("pool", i["plan"], _short(m), _short({"outs": i["outs"], "closed": i["closed"]}))


def run_protocol_level(ctx: Ctx, hc):
    """HAPServerProtocol.data_received with an installed cipher: what reaches the HTTP layer,
    which requests get dispatched, and whether the transport is closed on a bad frame."""
    import asyncio

    import pyhap.hap_protocol as hp

    hp = importlib.reload(hp)
    from vloop import FakeTransport

    rng = ctx.rng
    st = ctx.stats
    key_in = ref.hkdf(SHARED, ref.SALT, ref.C2A)
    other = ref.hkdf(b"\x01" * 32, ref.SALT, ref.C2A)
    cipher = ref.Real(key_in)
    loop = asyncio.new_event_loop()
    try:
        for it in range(ctx.n(60, 800)):
            nreq = rng.choice([1, 2, 3])
            reqs = []
            for _ in range(nreq):
                pad = rng.choice([0, 1, 7, 950, 980, 1000, 1100])
                reqs.append(b"GET /x?p=" + b"a" * pad + b" HTTP/1.1\r\nHost: h\r\n\r\n")
            if it == 0:  # a large request body (72 KB) arriving in ONE read
                reqs = [b"PUT /big HTTP/1.1\r\nHost: h\r\nContent-Length: 72000\r\n\r\n" + b"b" * 72000]
            plain = b"".join(reqs)
            # cut the plaintext into frames, forcing 1-byte tail frames often
            ps, pos = [], 0
            while pos < len(plain):
                rest = len(plain) - pos
                n = min(rest, rng.choice([1024, 1024, 512, 33]))
                if rest > 1 and rng.random() < 0.5:
                    n = min(n, rest - 1)
                ps.append(plain[pos : pos + n])
                pos += n
            kind = rng.choice(["none", "none", "none", "flip", "swap", "dup", "drop", "wrongkey", "wrongctr"])
            if it == 0:
                kind = "none"
            _, s = tamper(rng, ref.Real, key_in, other, ps, kind)
            reads = cuts_to_reads(s, [rng.randrange(1, max(2, len(s))) for _ in range(rng.choice([0, 1, 2, 4]))])
            if it == 0:
                reads = [s]
            driver = mock.MagicMock()
            driver.accessory.display_name = "acc"
            conns = {}
            proto = hp.HAPServerProtocol(loop, conns, driver)
            tr = FakeTransport()
            proto.connection_made(tr)
            proto.hap_crypto = hc.HAPCrypto(SHARED)
            handed, dispatched = [], []
            orig = proto.conn.receive_data
            proto.conn.receive_data = lambda d, _o=orig: (handed.append(bytes(d)), _o(d))[1]

            def fake_dispatch(request, body=None, _d=dispatched):
                _d.append(bytes(request.target))
                from pyhap.hap_handler import HAPResponse

                r = HAPResponse()
                r.status_code, r.reason = 200, "OK"
                return r

            proto.handler.dispatch = fake_dispatch
            frames, fail_end, consumed = ref.receive(cipher, s)
            rep = {"kind": "protocol", "payload_sizes": [len(p) for p in ps], "tamper": kind, "stream": hx(s), "reads": [len(r) for r in reads]}
            n = 0
            for r in reads:
                if tr.closed:
                    break
                proto.data_received(r)
                n += len(r)
                want = b"".join(p for e, p in frames if e <= n)
                got = b"".join(handed)
                if fail_end is not None and n >= max(fail_end, consumed + 19):
                    if not tr.closed:
                        ctx.fail("C04:not-closed-after-failure", f"transport not closed after a non-authentic frame (tamper={kind})", rep)
                    break
                if tr.closed and not (fail_end is not None and n >= fail_end):
                    ctx.fail("C04:authentic-stream-rejected", "connection closed on an authentic stream", rep)
                    break
                if got != want and not tr.closed:
                    sig = "C04:complete-frame-not-delivered" if want.startswith(got) else "C04:delivered-bytes-differ"
                    ctx.fail(sig, f"HTTP layer got {len(got)} of {len(want)} authentic bytes after {n} stream bytes (protocol level)", rep)
                    break
            if kind == "none" and not ctx.failures:
                exp = [r.split(b" ")[1] for r in reqs]
                if dispatched != exp:
                    ctx.fail("C04:requests-not-dispatched", f"{len(dispatched)} of {len(exp)} complete authentic requests were dispatched", rep)
            st.case(["proto", [len(p) for p in ps], kind, [len(r) for r in reads]], True)
            st.hit("op", "protocol:" + kind)
            st.hit("outcome", "closed" if tr.closed else "open")
    finally:
        loop.close()


def run_upgrade_boundary(ctx: Ctx, hc):
    """The moment the connection becomes secured: bytes that reached the HTTP parser in PLAINTEXT before
    the session existed (e.g. appended by an on-path attacker to the segment that carries the controller's
    pair-verify M3) are not payloads of authentic frames and must not be processed on the secured
    connection. Real pair-verify with the reference controller, real ChaCha20-Poly1305."""
    import json as _json

    from cryptography.hazmat.primitives.asymmetric import ed25519

    from props.c05 import IDENT, build_accessory
    from ref import pv_client
    from rig import Rig

    rng = ctx.rng
    st = ctx.stats
    upgrade_lines, upgrade_impl = [], []
    kinds = ["none", "get", "put", "garbage", "partial-put", "put+get"]
    cases = [(k, n) for k in kinds for n in (0, 1, 2)] + [(rng.choice(kinds), rng.choice([0, 1, 2])) for _ in range(ctx.n(10, 200))]
    for kind, n_auth in cases:
        rig = Rig()
        try:
            driver = rig.driver
            acc, chars = build_accessory(driver)
            ltsk = ed25519.Ed25519PrivateKey.generate()
            driver.state.add_paired_client(IDENT, pv_client.pub_bytes(ltsk), b"\x01")
            proto, tr = rig.connect()
            iid = driver.accessory.iid_manager.get_iid(chars[0])
            chars[0].set_value("original", should_notify=False)
            dispatched = []
            orig = proto.handler.dispatch

            def spy(request, body=None, _o=orig, _d=dispatched, _h=proto.handler):
                _d.append((bytes(request.method), bytes(request.target), _h.is_encrypted))
                return _o(request, body)

            proto.handler.dispatch = spy
            v = pv_client.Verifier(IDENT, ltsk)
            proto.data_received(pv_client.http_post("/pair-verify", v.m1()))
            msgs, _ = ref.split_messages(tr.data())
            m3 = pv_client.http_post("/pair-verify", v.m3(msgs[-1][3]))
            body = _json.dumps({"characteristics": [{"aid": 1, "iid": iid, "value": "INJECTED"}]}).encode()
            put = b"PUT /characteristics HTTP/1.1\r\nHost: a\r\nContent-Length: %d\r\n\r\n" % len(body) + body
            get = b"GET /accessories HTTP/1.1\r\nHost: a\r\n\r\n"
            leftover = {"none": b"", "get": get, "put": put, "garbage": b"\x00\x17\x03junk", "partial-put": put[:-9],
                        "put+get": put + get}[kind]
            proto.data_received(m3 + leftover)
            rig.loop.settle()
            closed_at_upgrade = tr.closed
            # authentic traffic of the real controller afterwards
            cipher = ref.Real(ref.hkdf(v.shared, ref.SALT, ref.C2A))
            auth_targets = []
            ctr = 0
            for i in range(n_auth):
                if tr.closed:
                    break
                req = b"GET /characteristics?id=1.%d HTTP/1.1\r\nHost: a\r\n\r\n" % iid
                frames = ref.seal_frames(cipher, [req], start=ctr)
                ctr += 1
                auth_targets.append(b"/characteristics?id=1.%d" % iid)
                proto.data_received(b"".join(frames))
                rig.loop.settle()
            secured = [(m, t) for m, t, enc in dispatched if enc]
            rep = {"kind": "upgrade-boundary", "leftover": kind, "authentic_requests": n_auth}
            non_auth = [(m, t) for m, t in secured if t not in auth_targets]
            if non_auth:
                ctx.fail(
                    "C04:plaintext-processed-on-secured-connection",
                    f"bytes received in plaintext before the session existed (leftover '{kind}' behind the pair-verify M3) were "
                    f"dispatched as request(s) {non_auth} of the secured session"
                    + ("; the injected write was executed" if chars[0].value == "INJECTED" else ""),
                    rep,
                    size=len(kind) + n_auth,
                )
            elif chars[0].value == "INJECTED":
                ctx.fail("C04:plaintext-processed-on-secured-connection", "an injected plaintext write changed a value", rep)
            elif kind == "none" and not tr.closed and [t for _, t in secured] != auth_targets:
                ctx.fail("C04:requests-not-dispatched", f"authentic requests after a clean upgrade: dispatched {secured}", rep)
            upgrade_lines.append({"layer": "frame", "op": "upgrade", "key": 0, "leftover": hx(leftover), "reads": []})
            upgrade_impl.append({"closed_at_upgrade": closed_at_upgrade, "kind": kind})
            st.case(["upgrade", kind, n_auth], kind != "none")
            st.hit("op", "upgrade:" + kind)
            st.hit("outcome", "upgrade-closed" if tr.closed else "upgrade-open")
        finally:
            rig.close()
    # correspondence: the model's `upgrade` closes exactly when the parser held leftover plaintext
    model = run_model_parallel("C04", upgrade_lines)
    for m, i in zip(model, upgrade_impl):
        st.traces_validated += 1
        if m.get("closed") != i["closed_at_upgrade"]:
            ctx.disagree("upgrade-boundary", {"leftover": i["kind"]}, m, i)


def run_rekey(ctx: Ctx, hc):
    """A second pair-verify completed INSIDE a secured session replaces the session: from then on the
    authentic frames are the ones the controller seals under the new key from counter 0 (they must be
    delivered), and a frame still produced under the superseded key, or under the new key with the old
    counter, is 'produced under another key or counter' (never delivered, connection closed).
    Real protocol + handler + pair-verify; mock-AEAD runs are also compared with the model (`rekey`)."""
    from cryptography.hazmat.primitives.asymmetric import ed25519

    from props.c05 import IDENT, build_accessory, split_all
    from ref import pv_client
    from rig import Rig

    rng = ctx.rng
    st = ctx.stats
    lines, impls = [], []
    afters = ["k2", "k2-split", "k1-stale", "k1-then-k2", "k2-old-counter", "k2-then-k1"]
    cases = [(a, n1, m) for a in afters for n1 in (0, 2) for m in ("mock", "real")]
    cases += [(rng.choice(afters), rng.choice([0, 1, 3]), rng.choice(["mock", "real"])) for _ in range(ctx.n(12, 300))]
    for after, n1, mode in cases:
        cipher_cls = ref.Mock if mode == "mock" else ref.Real
        patches = []
        if mode == "mock":
            p = mock.patch.object(hc, "ChaCha20Poly1305", PyMock)
            p.start()
            patches.append(p)
        rig = Rig()
        rep = {"kind": "rekey", "after": after, "requests_in_first_session": n1, "aead": mode}
        handed, sent1, tr = [], [], None
        try:
            driver = rig.driver
            acc, chars = build_accessory(driver)
            ltsk = ed25519.Ed25519PrivateKey.generate()
            driver.state.add_paired_client(IDENT, pv_client.pub_bytes(ltsk), b"\x01")
            proto, tr = rig.connect()
            iid = driver.accessory.iid_manager.get_iid(chars[0])
            dispatched = []
            orig_d = proto.handler.dispatch

            def spy(request, body=None, _o=orig_d, _d=dispatched):
                _d.append(bytes(request.target))
                return _o(request, body)

            proto.handler.dispatch = spy
            # session 1: plaintext pair-verify
            v1 = pv_client.Verifier(IDENT, ltsk)
            proto.data_received(pv_client.http_post("/pair-verify", v1.m1()))
            msgs, _ = ref.split_messages(tr.data())
            proto.data_received(pv_client.http_post("/pair-verify", v1.m3(msgs[-1][3])))
            rig.loop.settle()
            if tr.closed or proto.hap_crypto is None:
                ctx.fail("C04:session-not-established", "an honest pair-verify did not secure the connection", rep)
                continue
            marks, shared = {0: len(tr.data())}, [v1.shared]
            k1 = ref.hkdf(v1.shared, ref.SALT, ref.C2A)
            c1 = cipher_cls(k1)
            orig_r = proto.conn.receive_data
            proto.conn.receive_data = lambda d, _o=orig_r: (handed.append(bytes(d)), _o(d))[1]
            reads1, ctr1 = [], 0

            def send1(plain):
                nonlocal ctr1
                sent1.append(plain)
                data = b"".join(ref.seal_frames(c1, [plain], start=ctr1))
                ctr1 += 1
                reads1.append(data)
                proto.data_received(data)
                rig.loop.settle()

            def get(tag):
                return b"GET /characteristics?id=1.%d&s=%s HTTP/1.1\r\nHost: a\r\n\r\n" % (iid, tag)

            want1, n0 = [], len(dispatched)
            for i in range(n1):
                send1(get(b"one-%d" % i))
                want1.append(b"/characteristics?id=1.%d&s=one-%d" % (iid, i))
            # session 2: pair-verify again, carried in frames of session 1
            v2 = pv_client.Verifier(IDENT, ltsk)
            send1(pv_client.http_post("/pair-verify", v2.m1()))
            resp = [m for m in split_all(tr, marks, shared, cipher_cls)[0] if m[0] == "response"]
            send1(pv_client.http_post("/pair-verify", v2.m3(resp[-1][3])))
            out1 = b"".join(handed)
            handed.clear()
            closed_before = tr.closed
            k2 = ref.hkdf(v2.shared, ref.SALT, ref.C2A)
            c2 = cipher_cls(k2)
            n_disp1 = len(dispatched)
            if dispatched[n0 : n0 + len(want1)] != want1:
                ctx.fail("C04:requests-not-dispatched", f"first session: dispatched {dispatched} for {want1}", rep)
            a, b = get(b"two-0"), get(b"two-1")
            f2 = lambda plain, ctr: b"".join(ref.seal_frames(c2, [plain], start=ctr))  # noqa: E731
            f1 = lambda plain, ctr: b"".join(ref.seal_frames(c1, [plain], start=ctr))  # noqa: E731
            if after == "k2":
                reads2 = [f2(a, 0), f2(b, 1)]
            elif after == "k2-split":
                s = f2(a, 0) + f2(b, 1)
                cut = sorted(rng.sample(range(1, len(s)), 3))
                reads2 = [s[i:j] for i, j in zip([0] + cut, cut + [len(s)])]
            elif after == "k1-stale":
                reads2 = [f1(a, ctr1)]
            elif after == "k1-then-k2":
                reads2 = [f1(a, ctr1), f2(b, 0)]
            elif after == "k2-old-counter":
                reads2 = [f2(a, ctr1)]
            else:  # k2-then-k1
                reads2 = [f2(a, 0), f1(b, ctr1)]
            stream2 = b"".join(reads2)
            frames, fail_end, consumed = ref.receive(c2, stream2)
            n = 0
            for r in reads2:
                if tr.closed:
                    break
                proto.data_received(r)
                rig.loop.settle()
                n += len(r)
                want = b"".join(p for e, p in frames if e <= n)
                got = b"".join(handed)
                if fail_end is not None and n >= fail_end:
                    if got != want:
                        ctx.fail("C04:non-authentic-frame-delivered-after-rekey",
                                 f"after the re-key a frame that is not authentic under the new session ('{after}') reached the HTTP layer "
                                 f"({len(got)} bytes handed over, {len(want)} authentic)", rep, size=n1 + len(after))
                    elif not tr.closed:
                        ctx.fail("C04:not-closed-after-failure", f"connection still open after a frame of another key/counter ('{after}') following a re-key", rep)
                    break
                if tr.closed:
                    ctx.fail("C04:authentic-stream-rejected",
                             f"after pair-verify completed again inside the session, the controller's authentic frames under the NEW key "
                             f"(counter 0 onward) were rejected and the connection closed ('{after}')", rep, size=n1 + len(after))
                    break
                if got != want:
                    sig = "C04:complete-frame-not-delivered" if want.startswith(got) else "C04:delivered-bytes-differ"
                    ctx.fail(sig, f"after a re-key the HTTP layer got {len(got)} of {len(want)} authentic bytes ('{after}')", rep, size=n1 + len(after))
                    break
            # the requests the reference receiver (same cipher class as the run) accepts under the NEW session, in order.
            # (Derived from `frames`, never from the case name: under the transparent mock AEAD a superseded-key frame
            # collides with a new-key tag once in 256 key pairs, and is then authentic for oracle and accessory alike.)
            exp2 = [ln.split(b" ")[1] for ln in b"".join(pl for _, pl in frames).split(b"\r\n") if ln.startswith(b"GET ")]
            if not ctx.failures and dispatched[n_disp1:] != exp2 and not closed_before:
                ctx.fail("C04:requests-not-dispatched", f"second session ('{after}'): dispatched {dispatched[n_disp1:]}, authentic requests {exp2}", rep)
            if mode == "mock":
                lines.append({"layer": "frame", "op": "rekey", "key1": k1[0], "key2": k2[0],
                              "reads1": [hx(r) for r in reads1], "reads2": [hx(r) for r in reads2]})
                impls.append({"closed": tr.closed, "out1": hx(out1), "out2": hx(b"".join(handed)), "after": after, "n1": n1})
            st.case(["rekey", after, n1, mode], True)
            st.hit("op", "rekey:" + after)
            st.hit("outcome", "rekey-closed" if tr.closed else "rekey-open")
        except (AssertionError, KeyError, IndexError, ValueError, TypeError) as ex:
            # the reference controller could not go on. Everything it sent so far in the first session was
            # authentic: judge what the accessory did with THOSE frames; anything else is not C04's business.
            got, want = b"".join(handed), b"".join(sent1)
            if tr.closed:
                ctx.fail("C04:authentic-stream-rejected", f"connection closed on the authentic frames of the first session (reference controller: {type(ex).__name__}: {str(ex)[:120]})", rep)
            elif got != want:
                sig = "C04:complete-frame-not-delivered" if want.startswith(got) else "C04:delivered-bytes-differ"
                ctx.fail(sig, f"first session: the HTTP layer got {len(got)} of {len(want)} authentic bytes (reference controller: {type(ex).__name__}: {str(ex)[:120]})", rep)
            else:
                st.hit("outcome", "rekey-aborted:" + type(ex).__name__)
        finally:
            for p in patches:
                p.stop()
            rig.close()
    model = run_model_parallel("C04", lines)
    for m, i in zip(model, impls):
        st.traces_validated += 1
        if (m.get("closed"), m.get("out1"), m.get("out2")) != (i["closed"], i["out1"], i["out2"]):
            ctx.disagree("rekey", {"after": i["after"], "requests_in_first_session": i["n1"]}, _short(m), _short({k: i[k] for k in ("closed", "out1", "out2")}))


def _short(x):
    s = str(x)
    return s if len(s) < 200 else s[:200] + f"...<{len(s)} chars>"


def run_packing(ctx: Ctx, hc):
    """Byte-level packing (stream `pack`): the nonces and length prefixes the code really hands to the cipher,
    frame by frame, compared with the model's `packNonce` / `packLength` (theorems C04_nonce, C05_wire_bytes,
    C05_nonce_unique), plus the module-level packers at and beyond their limits where they are reachable by name."""
    import struct

    st = ctx.stats
    rng = ctx.rng
    calls = []

    class Rec:
        """records (kind, nonce, aad, len) of every cipher call; seals transparently, opens everything"""

        def __init__(self, key):
            pass

        def encrypt(self, nonce, data, aad):
            calls.append(("enc", bytes(nonce), bytes(aad or b""), len(data)))
            return bytes(data) + b"\0" * 16

        def decrypt(self, nonce, data, aad):
            calls.append(("dec", bytes(nonce), bytes(aad or b""), len(data) - 16))
            return bytes(data[:-16])

    n_msgs = ctx.n(6, 40)
    sizes = [1, 1023, 1024, 1025, 2048, 2049] + [rng.choice([1, 5, 300, 1024, 3000, 5000]) for _ in range(n_msgs)]
    with mock.patch.object(hc, "ChaCha20Poly1305", Rec):
        c = hc.HAPCrypto(SHARED)
        for n in sizes:
            b"".join(c.encrypt(bytes(n)))
        tx = [x for x in calls if x[0] == "enc"]
        del calls[:]
        c2 = hc.HAPCrypto(SHARED)
        rx_lens = [1, 2, 255, 256, 1024] + [rng.randrange(1, 1025) for _ in range(ctx.n(20, 200))]
        stream = b"".join(l.to_bytes(2, "little") + bytes(l + 16) for l in rx_lens)
        pos = 0
        while pos < len(stream):
            k = rng.choice([1, 7, 19, 300, 5000])
            c2.receive_data(stream[pos : pos + k])
            c2.decrypt()
            pos += k
        rx = [x for x in calls if x[0] == "dec"]
        # long sessions: more than 65536 frames sent and received by ONE HAPCrypto (1-byte payloads; the recording
        # cipher makes this cheap) -- the frame number leaves the two low bytes of the nonce
        long_tx, long_rx = [], []
        if ctx.budget_scale >= 0.5:
            del calls[:]
            n_long = LONG_FRAMES + _xrng(ctx, "pack").choice([3, 300, 1000])
            c3 = hc.HAPCrypto(SHARED)
            for i in range(n_long):
                c3.encrypt(b"\x07")
            long_tx = [x for x in calls if x[0] == "enc"]
            del calls[:]
            c4 = hc.HAPCrypto(SHARED)
            stream = (b"\x01\x00" + bytes(17)) * n_long
            for pos in range(0, len(stream), 19 * 2048 + 5):
                c4.receive_data(stream[pos : pos + 19 * 2048 + 5])
                c4.decrypt()
            long_rx = [x for x in calls if x[0] == "dec"]
    direct_counters = [0, 1, 255, 256, 65535, 2**32 - 1, 2**32, 2**63, 2**64 - 1, 2**64, 2**64 + 5] + [
        rng.randrange(2**64) for _ in range(ctx.n(10, 100))
    ]
    direct_lengths = [0, 1, 255, 256, 1023, 1024, 1025, 65535, 65536, 70000]

    def call(f, v):
        try:
            return hx(f(v))
        except Exception:  # which exception class refuses an out-of-range value is not behaviour anyone relies on
            return "struct.error"

    pn, pl = getattr(hc, "PACK_NONCE", None), getattr(hc, "PACK_LENGTH", None)
    lines = [
        {"layer": "frame", "op": "pack", "counters": list(range(len(tx))), "lengths": [x[3] for x in tx]},
        {"layer": "frame", "op": "pack", "counters": list(range(len(rx))), "lengths": [x[3] for x in rx]},
        {"layer": "frame", "op": "pack", "counters": direct_counters, "lengths": direct_lengths},
    ]
    if long_tx or long_rx:
        lines.append({"layer": "frame", "op": "pack", "from": 0, "count": max(len(long_tx), len(long_rx)), "lengths": [1]})
    model = run_model_parallel("C04", lines)
    for name, recs in (("tx", long_tx), ("rx", long_rx)):
        if not recs:
            continue
        st.hit("op", f"pack:long-{name}-frames", len(recs))
        st.traces_validated += 1
        want = model[3].get("nonces", [])[: len(recs)]
        got = [hx(x[1]) for x in recs]
        aad_ok = all(hx(x[2]) == model[3].get("lengths", [None])[0] for x in recs)
        if want != got or not aad_ok:
            bad = next((i for i, (a, b) in enumerate(zip(want, got)) if a != b), None)
            ctx.disagree("pack", {"direction": name, "long_session_frames": len(recs), "first_nonce_mismatch_at_frame": bad},
                         _short({"nonce_at_mismatch": want[bad] if bad is not None else None, "aad": model[3].get("lengths")}),
                         _short({"nonce_at_mismatch": got[bad] if bad is not None else None, "aad_all_equal_model": aad_ok}))
        st.case(("pack", "long-" + name, len(recs)), True)
    for name, recs, m in (("tx", tx, model[0]), ("rx", rx, model[1])):
        st.hit("op", f"pack:{name}-frames", len(recs))
        st.traces_validated += 1
        impl = {"nonces": [hx(x[1]) for x in recs], "lengths": [hx(x[2]) for x in recs]}
        if (m.get("nonces"), m.get("lengths")) != (impl["nonces"], impl["lengths"]):
            bad = next((i for i, (a, b) in enumerate(zip(m.get("nonces", []), impl["nonces"])) if a != b), None)
            ctx.disagree("pack", {"direction": name, "frames": len(recs), "first_nonce_mismatch_at_frame": bad},
                         _short({"nonces": m.get("nonces", [])[:3], "lengths": m.get("lengths", [])[:3]}),
                         _short({"nonces": impl["nonces"][:3], "lengths": impl["lengths"][:3]}))
        st.case(("pack", name, len(recs)), len(recs) > 1)
    if pn is not None and pl is not None:
        impl = {"nonces": [call(pn, n) for n in direct_counters], "lengths": [call(pl, n) for n in direct_lengths]}
        st.traces_validated += 1
        st.hit("op", "pack:direct", len(direct_counters) + len(direct_lengths))
        st.hit("outcome", "pack:struct.error", impl["nonces"].count("struct.error") + impl["lengths"].count("struct.error"))
        if (model[2].get("nonces"), model[2].get("lengths")) != (impl["nonces"], impl["lengths"]):
            ctx.disagree("pack", {"direct": True, "counters": [str(x) for x in direct_counters[:11]]},
                         _short(model[2]), _short(impl))
        st.case(("pack", "direct", len(direct_counters)), True)
    else:
        st.notes.append("PACK_NONCE / PACK_LENGTH not reachable by name: limits beyond the recorded frames not compared")


def run(ctx: Ctx):
    hc = _mods()
    ctx.stats.rule = (
        "cases = (payload sizes, tamper op, chunking into reads): boundary single frames, multi-frame streams with "
        "19-byte tail frames, exhaustive 2-cut chunkings of short streams, byte-at-a-time, random tamper scripts (mock "
        "AEAD, model vs HAPCrypto), many (17..513) frames in one read, random real-ChaCha streams vs the reference codec, "
        "HAPServerProtocol-level runs, the plaintext->secure upgrade boundary with leftover parser bytes, and re-keying "
        "(second pair-verify inside the session; frames of the new key from counter 0, of the superseded key, of the new "
        "key with the old counter; mock runs compared with the model's `rekey`), single reads beyond 64 KiB, and several "
        "sessions alive at once with reads interleaved across connections (solo-run oracle per connection; mock runs "
        "compared with the model's `Pool.run`), and the byte-level packing stream (nonce and length prefix handed to the cipher "
        "for every frame of a sent and a received stream incl. one session of more than 65536 frames in each direction, "
        "module-level packers at and beyond 2^64 / 2^16, vs the model), LONG sessions (more than 65536 inbound frames of the "
        "reference sealer with real ChaCha: all authentic then a stale frame; a replay of frame 0 in the place of frame 65536), "
        "and reads that arrive while a delayed (snapshot) response is pending (authentic whole / byte-wise / split / 19-byte, "
        "flipped, replayed, re-countered, re-keyed, forged length; per read: bytes handed to the HTTP parser and close; mock "
        "runs compared with the model's `rxp`). "
        "Non-trivial = more than one frame or more than one read or a tamper op; distinct by sizes, tamper, chunking."
    )
    ctx.assumptions.append("host is little-endian (Struct('H') is native order): " + sys.byteorder)
    run_mock_stream(ctx, hc)
    run_packing(ctx, hc)
    run_real_stream(ctx, hc)
    if ctx.budget_scale >= 0.5:  # not in the bounded interpreter-variant repeat
        run_long_session(ctx, hc)
    run_protocol_level(ctx, hc)
    run_pending_response(ctx, hc)
    run_upgrade_boundary(ctx, hc)
    run_rekey(ctx, hc)
    run_interleaved(ctx, hc)
    # a bounded repeat with the pyhap logger at DEBUG (behaviour must not depend on the logging configuration)
    from common import pyhap_debug_logging

    saved = ctx.budget_scale
    ctx.budget_scale = 0.2 * saved
    try:
        with pyhap_debug_logging():
            _DEBUG_LOGGING[0] = True
            run_real_stream(ctx, hc)
            run_protocol_level(ctx, hc)
            run_pending_response(ctx, hc)
            ctx.stats.hit("op", "repeat-under-debug-logging")
    finally:
        _DEBUG_LOGGING[0] = False
        ctx.budget_scale = saved


def search(ctx: Ctx):
    hc = _mods()
    saved = ctx.tier
    ctx.tier = "thorough"
    ctx.budget_scale = 0.25
    try:
        cases, key_in = gen_cases(ctx)
        cipher = ref.Mock(key_in)
        with mock.patch.object(hc, "ChaCha20Poly1305", PyMock):
            for c in cases:
                judge(ctx, cipher, c, impl_rx(hc, c["reads"]), "mock-rx")
        run_real_stream(ctx, hc)
        run_long_session(ctx, hc)
        run_protocol_level(ctx, hc)
        run_pending_response(ctx, hc)
        run_upgrade_boundary(ctx, hc)
        run_rekey(ctx, hc)
        run_interleaved(ctx, hc)
    finally:
        ctx.tier = saved
        ctx.budget_scale = 1.0


def replay(ctx: Ctx, r):
    hc = _mods()
    if r["kind"] == "interleaved":
        run_interleaved(ctx, hc, only=r["plan"])
        for f in ctx.failures:
            print("FAILS:", f.signature, f.description)
        print("verdict:", "property violated on this input" if ctx.failures else "holds on this input")
        return 1 if ctx.failures else 0
    if r["kind"] in ("long-rx", "pending-response"):
        import contextlib

        from common import pyhap_debug_logging

        with pyhap_debug_logging() if r.get("logging") else contextlib.nullcontext():
            (run_long_session if r["kind"] == "long-rx" else run_pending_response)(ctx, hc, only=r["plan"])
        print("plan", r["plan"])
        for f in ctx.failures:
            print("FAILS:", f.signature, f.description)
        print("verdict:", "property violated on this input" if ctx.failures else "holds on this input")
        return 1 if ctx.failures else 0
    if r["kind"] in ("upgrade-boundary", "rekey"):
        (run_upgrade_boundary if r["kind"] == "upgrade-boundary" else run_rekey)(ctx, hc)
        for f in ctx.failures:
            print("FAILS:", f.signature, f.description)
        print("verdict:", "property violated on this input" if ctx.failures else "holds on this input")
        return 1 if ctx.failures else 0
    stream = bytes.fromhex(r["stream"])
    reads, pos = [], 0
    for n in r["reads"]:
        reads.append(stream[pos : pos + n])
        pos += n
    key_in = ref.hkdf(SHARED, ref.SALT, ref.C2A)
    case = {"payloads": [b"?" * n for n in r["payload_sizes"]], "kind": r["tamper"], "stream": stream, "reads": reads}
    import contextlib

    from common import pyhap_debug_logging

    if r["kind"] == "mock-rx":
        with mock.patch.object(hc, "ChaCha20Poly1305", PyMock):
            obs = impl_rx(hc, reads)
        judge(ctx, ref.Mock(key_in), case, obs, "mock-rx")
    else:
        with pyhap_debug_logging() if r.get("logging") else contextlib.nullcontext():
            obs = impl_rx(hc, reads)
        judge(ctx, ref.Real(key_in), case, obs, "real-rx")
    print("reads", r["reads"], "->", _short(obs))
    for f in ctx.failures:
        print("FAILS:", f.signature, f.description)
    print("verdict:", "property violated on this input" if ctx.failures else "holds on this input")
    return 1 if ctx.failures else 0
