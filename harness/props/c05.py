"""C05 — Everything written after the upgrade is a well-formed encrypted frame stream."""
from __future__ import annotations

import asyncio
import importlib
import json
import sys
from unittest import mock
from uuid import UUID

from common import LEAN, REPO, VERIF, Ctx, hx, run_model
from ref import frames as ref
from ref import pv_client

PROP = "C05"
LEAN_MODULE = "Props.C05"
TRUSTED = [
    "Lean 4.33 kernel; axioms propext, Classical.choice, Quot.sound only (audited by #print axioms)",
    "AEAD correctness (`Correct`) is a hypothesis with a proved instance; confidentiality is not claimed",
    "hand-written model lean/HapModel/Frame.lean (`encrypt`, `Tx.write`, `Tx.step`): one write call per message and "
    "write-then-install ordering are tied to HAPServerProtocol by the differential run (mock AEAD) and judged by an "
    "independent reference controller (harness/ref/frames.py, pv_client.py) with real ChaCha20-Poly1305",
    "h11 produces each response as head+body+end in one send_response call (library behaviour, exercised)",
    "asyncio run-to-completion of callbacks on one thread; virtual-time loop harness/vloop.py",
    "write flow control: the model has no pause/resume step because HAPServerProtocol does not override "
    "pause_writing/resume_writing (writes go to the transport in production order whatever the transport's buffer "
    "state); tied by scripts in which the fake transport pauses/resumes the protocol as asyncio transports do "
    "(harness/vloop.py FakeTransport.flow_high/drain) while messages are produced and a write is due in the drain iteration",
    "the session switch is judged at the END OF THE M4 RESPONSE (reference controller switches keys there), not at "
    "whatever the accessory had written when the harness looked",
]
IDENT = b"AAAAAAAA-1111-2222-3333-444444444444"

sys.path.insert(0, str(VERIF / "extract"))
import crypto_consts  # noqa: E402


def extract(ctx: Ctx):
    crypto_consts.write(REPO, LEAN)


def _reload():
    import pyhap.hap_crypto as hc
    import pyhap.hap_event as he
    import pyhap.hap_handler as hh
    import pyhap.hap_protocol as hp

    importlib.reload(hc)
    importlib.reload(he)
    importlib.reload(hh)
    importlib.reload(hp)
    return hc, hp


NSTR = 6  # string characteristics 0..5; index 6 is the button


def text(rng, n):
    """n characters, sometimes with multi-byte UTF-8 ones"""
    pool = rng.choice(["abcxyz", "abcxyz", "aü", "厨房k", "é€𝄞z"])
    return "".join(rng.choice(pool) for _ in range(n))


_SNAP_PERIOD = bytes((i * 7 + 1) % 256 for i in range(256))


def snapshot_bytes(n: int) -> bytes:
    """the image the test camera returns for size n: byte i is (7 i + 1) mod 256 (period 256)"""
    return (_SNAP_PERIOD * (n // 256 + 1))[:n]


def build_accessory(driver, nchars=NSTR):
    from pyhap.accessory import Accessory
    from pyhap.characteristic import Characteristic
    from pyhap.service import Service

    class Cam(Accessory):
        snapshots_done = 0  # how many snapshots the application has handed back so far

        async def async_get_snapshot(self, info):
            await asyncio.sleep(info.get("delay", 0))
            self.snapshots_done += 1
            return snapshot_bytes(info["size"])

    acc = Cam(driver, "Acc")
    svc = Service(UUID("0000F000-0000-1000-8000-0026BB765291"), "Strs")
    chars = []
    for i in range(nchars):
        ch = Characteristic(
            f"S{i}",
            UUID(f"0000F1{i:02d}-0000-1000-8000-0026BB765291"),
            {"Format": "string", "Permissions": ["pr", "pw", "ev"], "maxLen": 256},
        )
        svc.add_characteristic(ch)
        chars.append(ch)
    button = Characteristic(
        "Btn",
        UUID("00000126-0000-1000-8000-0026BB765291"),  # Button Event: flushed without the coalescing window
        {"Format": "uint8", "Permissions": ["pr", "ev"], "minValue": 0, "maxValue": 255},
    )
    svc.add_characteristic(button)
    chars.append(button)
    acc.add_service(svc)
    driver.add_accessory(acc)
    return acc, chars


class Session:
    """Controller side of one connection (reference implementation)."""

    def __init__(self, cipher_cls):
        self.cipher_cls = cipher_cls
        self.tx = None  # controller -> accessory cipher
        self.tx_count = 0

    def install(self, shared):
        self.tx = self.cipher_cls(ref.hkdf(shared, ref.SALT, ref.C2A))
        self.tx_count = 0

    def wrap(self, rng, plain: bytes) -> bytes:
        if self.tx is None:
            return plain
        ps, pos = [], 0
        while pos < len(plain):
            n = min(len(plain) - pos, rng.choice([1024, 1024, 300]))
            ps.append(plain[pos : pos + n])
            pos += n
        out = b"".join(ref.seal_frames(self.tx, ps, start=self.tx_count))
        self.tx_count += len(ps)
        return out


def gen_script(rng, quick):
    ops = []
    if rng.random() < 0.25:
        ops.append(["legacy"])
    if rng.random() < 0.5:
        ops.append(["sub", sorted(rng.sample(range(6), rng.randrange(1, 6)))])
    n = rng.randrange(3, 10 if quick else 16)
    for _ in range(n):
        k = rng.random()
        if k < 0.14:
            ops.append(["get_acc"])
        elif k < 0.30:
            ops.append(["get", sorted(rng.sample(range(7), rng.randrange(1, 6)))])
        elif k < 0.42:
            ops.append(["put", rng.randrange(6), rng.choice([0, 1, 50, 200, 255, 256])])
        elif k < 0.56:
            ops.append(["sub", sorted(rng.sample(range(6), rng.randrange(1, 6)))])
        elif k < 0.76:
            ops.append(["appset", rng.randrange(6), rng.choice([1, 30, 200, 250, 256])])
        elif k < 0.88:
            ops.append(["advance", rng.choice([0.125, 0.25, 0.5, 1.0])])
        elif k < 0.94:
            ops.append(["snapshot", rng.choice([1, 900, 940, 1024, 2000, 3000]), rng.choice([0, 0.25, 1.0]), 0])
        elif k < 0.97:
            # a large delayed response while button events arrive at arbitrary loop-iteration boundaries
            ops.append(["sub", [6]])
            ops.append(["snapshot", rng.choice([66000, 70000, 140000] if quick else [66000, 70000, 140000, 300000]), rng.choice([0, 0.25]), rng.choice([2, 5])])
        elif k < 0.985:
            if rng.random() < 0.5:
                # an event still queued (coalescing window open) or produced in the same iteration
                ops.append(["sub", [rng.randrange(6), 6]])
                ops.append(rng.choice([["appset", rng.randrange(6), 30], ["button"]]))
            ops.append(["reverify"])
        else:
            ops.append(["bad_request"])
    if rng.random() < 0.12:
        # the peer stops reading: the transport pauses the protocol, messages are produced meanwhile,
        # then the socket drains while another write is due in the same loop iteration
        ops = [["flow", rng.choice([4096, 65536])], ["sub", [0, 6]]] + ops
        at = rng.randrange(2, len(ops) + 1)
        ops[at:at] = [["snapshot", rng.choice([70000, 140000]), 0, 0], ["get", [0, 1]], ["appset", 0, 40],
                      ["drain_then", rng.choice(["button", "get", "timer"])]]
    return ops


def size_targeting_script(rng, target):
    """get requests whose response size is steered towards `target` bytes by value lengths."""
    return [["appset", i, 256] for i in range(4)] + [["fit_get", target], ["get", [0]]]


def vary_request(rng, plain: bytes, kind: str):
    """The same request as another conforming controller may put it on the wire. Returns the pieces to send one after
    the other.  "expect": `Expect: 100-continue` (RFC 7231 5.1.1), head first, body after a moment;
    "chunked": the body in chunked transfer coding instead of Content-Length."""
    head, sep, body = plain.partition(b"\r\n\r\n")
    if kind == "expect":
        head += b"\r\nExpect: 100-continue"
        return [head + sep, body] if body else [head + sep]
    if kind == "chunked" and body and b"\r\nContent-Length: %d" % len(body) in head:
        head = head.replace(b"\r\nContent-Length: %d" % len(body), b"\r\nTransfer-Encoding: chunked", 1)
        out, pos = b"", 0
        while pos < len(body):
            n = rng.choice([1, 7, 64, len(body)])
            out += b"%x\r\n" % len(body[pos : pos + n]) + body[pos : pos + n] + b"\r\n"
            pos += n
        return [head + sep + out + b"0\r\n\r\n"]
    return [plain]


def run_script(ctx: Ctx, hc, hp, ops, mode, seed):
    """Drive the real protocol; returns observations for oracle and correspondence."""
    import random

    from rig import Rig

    rng = random.Random(seed)
    legacy = any(o[0] == "legacy" for o in ops)
    cipher_cls = ref.Mock if mode == "mock" else ref.Real
    rig = Rig()
    patches = []
    if mode == "mock":
        from props.c04 import PyMock

        p = mock.patch.object(hc, "ChaCha20Poly1305", PyMock)
        p.start()
        patches.append(p)
    try:
        driver = rig.driver
        acc, chars = build_accessory(driver)
        from cryptography.hazmat.primitives.asymmetric import ed25519

        ltsk = ed25519.Ed25519PrivateKey.generate()
        driver.state.add_paired_client(IDENT, pv_client.pub_bytes(ltsk), b"\x01")
        proto, tr = rig.connect()
        sess = Session(cipher_cls)
        iid = {i: driver.accessory.iid_manager.get_iid(c) for i, c in enumerate(chars)}
        expected = []  # kinds of the responses in request order
        shared_keys = []
        marks = {}

        hdr = {"kind": None, "left": 0}  # request-header variety for the next `left` requests (op "hdr")
        if any(o[0] == "hdr0" for o in ops):
            hdr.update(kind=[o for o in ops if o[0] == "hdr0"][0][1], left=2)  # ... on the initial pair-verify exchange

        def send(plain, kind):
            if tr.closed:  # asyncio delivers nothing after close(); the controller has gone away
                return
            expected.append(kind)
            parts = [plain]
            if hdr["left"] > 0:
                hdr["left"] -= 1
                parts = vary_request(rng, plain, hdr["kind"])
            for part in parts:
                data = sess.wrap(rng, part)
                cuts = sorted(rng.sample(range(1, len(data)), min(len(data) - 1, rng.choice([0, 0, 1, 3])))) if len(data) > 1 else []
                pts = [0] + cuts + [len(data)]
                for a, b in zip(pts, pts[1:]):
                    proto.data_received(data[a:b])
                if len(parts) > 1:
                    rig.loop.settle()  # head and body travel separately (the controller waits a moment for an interim response)

        def verify():
            if tr.closed:
                return
            if legacy:
                # a state file written before identifier bytes were stored: pair-verify back-fills them
                # and schedules a save from inside the M3 handler
                from uuid import UUID as _U

                driver.state.uuid_to_bytes.pop(_U(IDENT.decode()), None)
            v = pv_client.Verifier(IDENT, ltsk)
            n0 = len(split_all(tr, marks, shared_keys, cipher_cls)[0])
            send(pv_client.http_post("/pair-verify", v.m1()), "pv-m2")
            msgs = split_all(tr, marks, shared_keys, cipher_cls)[0]
            m2 = [m for m in msgs if m[0] == "response"][-1]
            send(pv_client.http_post("/pair-verify", v.m3(m2[3])), "pv-m4")
            # a conforming controller switches keys at the END OF THE M4 RESPONSE: the old regime ends there,
            # whatever the accessory wrote after M4 must already be a frame of the new session
            marks[len(shared_keys)] = end_of_m4(tr, marks, shared_keys, cipher_cls)
            shared_keys.append(v.shared)
            sess.install(v.shared)

        abort = None
        try:
            verify()
            for op in ops:
                k = op[0]
                if k == "get_acc":
                    send(b"GET /accessories HTTP/1.1\r\nHost: a\r\n\r\n", "accessories")
                elif k == "get":
                    ids = ",".join(f"1.{iid[i]}" for i in op[1])
                    send(f"GET /characteristics?id={ids} HTTP/1.1\r\nHost: a\r\n\r\n".encode(), "characteristics")
                elif k == "fit_get":
                    ids = ",".join(f"1.{iid[i]}" for i in range(4))
                    req = f"GET /characteristics?id={ids} HTTP/1.1\r\nHost: a\r\n\r\n".encode()
                    # steer the size: observe the size of this response, then shorten one value so that the
                    # next response to the same read has exactly op[1] bytes
                    for _ in range(4):
                        if tr.closed:
                            break
                        send(req, "characteristics")
                        msgs_now = split_all(tr, marks, shared_keys, cipher_cls)[0]
                        last = [m for m in msgs_now if m[0] == "response"][-1]
                        size = last[4]
                        delta = size - op[1]
                        cur = len(chars[3].value)
                        if delta == 0 or not (0 <= cur - delta <= 256):
                            break
                        chars[3].set_value("x" * (cur - delta), should_notify=False)
                elif k == "put":
                    body = json.dumps({"characteristics": [{"aid": 1, "iid": iid[op[1]], "value": text(rng, op[2])}]}).encode()
                    send(b"PUT /characteristics HTTP/1.1\r\nHost: a\r\nContent-Length: %d\r\n\r\n" % len(body) + body, "put")
                elif k == "sub":
                    body = json.dumps({"characteristics": [{"aid": 1, "iid": iid[i], "ev": True} for i in op[1]]}).encode()
                    send(b"PUT /characteristics HTTP/1.1\r\nHost: a\r\nContent-Length: %d\r\n\r\n" % len(body) + body, "put")
                elif k == "appset":
                    chars[op[1]].set_value(text(rng, op[2]))
                elif k == "advance":
                    rig.loop.advance(op[1])
                elif k == "snapshot":
                    body = json.dumps({"aid": 1, "size": op[1], "delay": op[2]}).encode()
                    send(b"POST /resource HTTP/1.1\r\nHost: a\r\nContent-Length: %d\r\n\r\n" % len(body) + body, "snapshot:%d" % op[1])
                    if op[2] > 0 and rng.random() < 0.5:
                        # an event may be produced while the delayed response is pending
                        chars[0].set_value("w" * rng.choice([3, 250]))
                    inject = [op[3] if len(op) > 3 else 0]
                    when_ready = len(op) > 4 and op[4] == "ready"
                    done0 = acc.snapshots_done

                    def hook(_i=inject, _r=when_ready, _d=done0):
                        # application activity between two loop iterations (as call_soon_threadsafe
                        # from a worker thread would produce): a button press -> immediate event
                        if _r:
                            # ... on every one of the loop iterations that follow the moment the application has
                            # handed the image back (the doorbell rings while the response is being written)
                            if _i[0] > 0 and acc.snapshots_done > _d:
                                _i[0] -= 1
                                chars[6].set_value(rng.randrange(1, 255))
                        elif _i[0] > 0 and rng.random() < 0.6:
                            _i[0] -= 1
                            chars[6].set_value(rng.randrange(1, 255))

                    rig.loop.hook = hook if inject[0] else None
                    # h11 will not process a pipelined request before the response is out: wait for it
                    rig.loop.advance(op[2] + 0.125)
                    rig.loop.hook = None
                elif k == "reverify":
                    verify()
                elif k == "button":
                    chars[6].set_value(rng.randrange(1, 255))
                elif k == "flow":
                    tr.flow_high = op[1]
                elif k == "drain":
                    tr.drain()
                elif k == "drain_then":
                    # the socket drains (the transport calls resume_writing()) and, in the SAME loop iteration,
                    # another write is due: an immediate event, a request that has just arrived, or the
                    # coalescing timer coming due -- no loop turn in between
                    if op[1] == "timer":
                        chars[0].set_value(text(rng, 20))
                        rig.loop.hook = lambda _t=tr: _t.drain()  # drain at a loop-iteration boundary while the timer comes due
                        rig.loop.advance(0.75)
                        rig.loop.hook = None
                        tr.drain()
                    else:
                        tr.drain()
                        if op[1] == "button":
                            chars[6].set_value(rng.randrange(1, 255))
                        else:
                            send(f"GET /characteristics?id=1.{iid[0]} HTTP/1.1\r\nHost: a\r\n\r\n".encode(), "characteristics")
                elif k == "bad_request":
                    # a correctly encrypted request that the HTTP parser rejects
                    bad = rng.choice([
                        b"GET /accessories HTTP/1.1\r\nHost: a\r\nContent-Length: twelve\r\n\r\n",
                        b"\x00\x01garbage\r\n\r\n",
                        b"PUT /characteristics HTTP/1.1\r\nHost: a\r\nContent-Length: 5\r\nContent-Length: 7\r\n\r\n",
                    ])
                    if not tr.closed:
                        data = sess.wrap(rng, bad)
                        proto.data_received(data)
                        if not tr.closed:
                            # the parser accepted it after all: then it is a request and is owed one response
                            expected.append("any")
                elif k == "hdr":
                    hdr.update(kind=op[1], left=op[2] if len(op) > 2 else 1)
                elif k in ("legacy", "hdr0"):
                    pass
                rig.loop.settle()
        except Exception as ex:  # noqa: BLE001  the reference controller could not go on
            abort = f"{type(ex).__name__}: {ex}"[:200]
        rig.loop.advance(2.0)
        return {
            "writes": list(tr.writes),
            "marks": dict(marks),
            "shared": list(shared_keys),
            "expected": expected,
            "closed": tr.closed,
            "after_close": list(tr.after_close),
            "abort": abort,
        }
    finally:
        for p in patches:
            p.stop()
        rig.close()


def end_of_m4(tr, marks, shared_keys, cipher_cls):
    """Offset (in the accessory->controller byte stream) at which the latest pair-verify response ends,
    seen under the regime that is in force before the switch."""
    data = tr.data()
    start = marks[max(marks)] if marks else 0
    seg = data[start:]
    if not shared_keys:
        frames, plain = None, seg
    else:
        cipher = cipher_cls(ref.hkdf(shared_keys[-1], ref.SALT, ref.A2C))
        frames, _, _ = ref.receive(cipher, seg)
        plain = b"".join(p for _, p in frames)
    m, _ = ref.split_messages(plain)
    off, target = 0, None
    for x in m:
        off += x[4]
        if x[0] == "response" and x[2].get(b"content-type", b"") == b"application/pairing+tlv8":
            target = off
    if target is None:
        return len(data)
    if frames is None:
        return start + target
    cum = 0
    for e, pl in frames:
        cum += len(pl)
        if cum >= target:
            return start + e
    return len(data)


def split_all(tr, marks, shared_keys, cipher_cls):
    """Reference controller view of everything on the transport so far:
    (messages, problems, frame_sizes). Regime i (0 = plaintext) covers bytes up to marks[i]."""
    data = tr.data()
    bounds = [marks[i] for i in sorted(marks)] + [len(data)]
    msgs, problems, sizes = [], [], []
    start = 0
    for i, end in enumerate(bounds):
        seg = data[start:end]
        if i == 0:
            plain = seg
        else:
            cipher = cipher_cls(ref.hkdf(shared_keys[i - 1], ref.SALT, ref.A2C))
            frames, fail_end, consumed = ref.receive(cipher, seg)
            if fail_end is not None:
                problems.append(f"session {i}: frame ending at {fail_end} does not authenticate under counter {len(frames)}")
            elif consumed != len(seg):
                rest = seg[consumed:]
                what = (f" -- they read {rest[:24]!r}: plaintext written inside the encrypted session"
                        if rest.startswith((b"HTTP/1.", b"EVENT/1.")) else "")
                problems.append(f"session {i}: the {len(rest)} bytes after the first {len(frames)} frame(s) are not a complete frame{what}")
            prev = 0
            for e, p in frames:
                sizes.append(len(p))
                prev = e
            plain = b"".join(p for _, p in frames)
        m, left = ref.split_messages(plain)
        if left:
            inside = next((x for x in m if x[0] == "response" and b"EVENT/1.0 " in x[3] and x[2].get(b"content-type") == b"image/jpeg"), None)
            what = (f" -- an EVENT message begins at offset {inside[3].find(b'EVENT/1.0 ')} inside the {len(inside[3])}-byte body of a response "
                    f"(a response and an event interleaved)" if inside else "")
            problems.append(f"regime {i}: {len(left)} bytes do not parse as complete HTTP/EVENT messages{what}")
        msgs += m
        start = end
    return msgs, problems, sizes


_DEBUG_LOGGING = [False]


def judge(ctx: Ctx, obs, ops, mode, seed):
    """The property on the captured byte stream, as seen by the reference controller."""

    class T:  # minimal transport view
        def __init__(self, writes):
            self.writes = writes

        def data(self):
            return b"".join(d for _, d in self.writes)

    cipher_cls = ref.Mock if mode == "mock" else ref.Real
    msgs, problems, sizes = split_all(T(obs["writes"]), obs["marks"], obs["shared"], cipher_cls)
    rep = {"kind": "script", "ops": ops, "mode": mode, "seed": seed}
    if _DEBUG_LOGGING[0]:
        rep["logging"] = "pyhap-debug"
    if problems:
        ctx.fail("C05:stream-not-wellformed", problems[0], rep)
        return msgs
    if obs.get("abort"):
        ctx.fail("C05:reference-controller-stuck", "the reference controller could not continue: " + obs["abort"], rep)
        return msgs
    if any(s < 1 or s > 1024 for s in sizes):
        ctx.fail("C05:frame-size-out-of-range", f"frame payload sizes {sorted(set(s for s in sizes if s < 1 or s > 1024))}", rep)
    # plaintext regime must end with the pair-verify completion; nothing after mark 0 is plaintext
    # an interim 1xx response (to `Expect: 100-continue`) is a complete HTTP message of its own, not the answer
    responses = [m for m in msgs if m[0] == "response" and not 100 <= m[1] < 200]
    if len(responses) != len(obs["expected"]):
        ctx.fail(
            "C05:response-count",
            f"{len(responses)} complete responses for {len(obs['expected'])} requests at quiescence",
            rep,
        )
        return msgs
    for kind, m in zip(obs["expected"], responses):
        ct = m[2].get(b"content-type", b"")
        ok = True
        if kind.startswith("pv-"):
            ok = m[1] == 200 and ct == b"application/pairing+tlv8"
        elif kind == "accessories":
            ok = m[1] == 200 and m[3].startswith(b'{"accessories"')
        elif kind == "characteristics":
            ok = m[1] in (200, 207) and m[3].startswith(b'{"characteristics"')
        elif kind == "put":
            ok = m[1] in (204, 207)
        elif kind.startswith("snapshot:"):
            n_ = int(kind.split(":")[1])
            ok = m[1] == 200 and ct == b"image/jpeg" and m[3] == snapshot_bytes(n_)
        if not ok:
            ctx.fail("C05:response-out-of-order", f"response to {kind} is {m[1]} {ct!r} ({len(m[3])} bytes)", rep)
            break
    for m in msgs:
        if m[0] == "event":
            try:
                json.loads(m[3])
            except Exception:  # noqa: BLE001
                ctx.fail("C05:event-body-garbled", "an EVENT body is not valid JSON", rep)
    if obs["after_close"]:
        ctx.fail("C05:write-after-close", "bytes written after close", rep)
    return msgs


def to_model_line(obs, mode):
    """Messages (observed, by decrypting each write separately) -> model input; and impl writes."""
    cipher_cls = ref.Mock
    msgs = []
    keys = [ref.hkdf(s, ref.SALT, ref.A2C)[0] for s in obs["shared"]]
    data_pos = 0
    regime = 0
    counters = {}
    marks = [obs["marks"][i] for i in sorted(obs["marks"])]
    impl = []
    n_resp = 0
    for kind, d in obs["writes"]:
        while regime < len(marks) and data_pos >= marks[regime]:
            regime += 1
        if regime == 0:
            plain = d
            impl.append({"plain": hx(d)})
        else:
            cipher = cipher_cls(ref.hkdf(obs["shared"][regime - 1], ref.SALT, ref.A2C))
            c0 = counters.get(regime, 0)
            frames, fail_end, consumed = ref.receive(cipher, d, start=c0)
            counters[regime] = c0 + len(frames)
            plain = b"".join(p for _, p in frames)
            impl.append({"frames": hx(d), "key": regime - 1, "counter": c0, "nblocks": len(frames)})
        is_event = plain.startswith(b"EVENT/1.0")
        carries = False
        if not is_event:
            carries = obs["expected"][n_resp] == "pv-m4" if n_resp < len(obs["expected"]) else False
            n_resp += 1
        msgs.append({"kind": "event" if is_event else "response", "data": hx(plain), "key": carries})
        data_pos += len(d)
    return {"layer": "frame", "op": "tx", "keys": keys, "msgs": msgs}, impl


def run_encrypt_sequences(ctx: Ctx, hc):
    """HAPCrypto.encrypt called once per message for SEQUENCES of messages with boundary sizes (exact multiples of
    1024 followed by further messages included): the reference controller (real ChaCha20-Poly1305) must open every
    frame under counters 0,1,2,... and recover exactly the messages; frame payloads are 1024,...,1024,rest."""
    rng = ctx.rng
    st = ctx.stats
    key = bytes(range(7, 39))
    bsizes = [1, 2, 1023, 1024, 1025, 2047, 2048, 2049, 3072, 4096, 5000]
    seqs = [[a, b] for a in bsizes for b in (1, 1024)] + [[1024, 1024, 1024, 1], [2048, 2048, 5], [3072, 1, 1024, 2]]
    for _ in range(ctx.n(60, 1500)):
        seqs.append([rng.choice(bsizes + [rng.randrange(1, 7000)]) for _ in range(rng.randrange(2, 6))])
    for sizes in seqs:
        c = hc.HAPCrypto(key)
        msgs = [bytes((i * 13 + j) % 251 for j in range(n)) for i, n in enumerate(sizes)]
        rep = {"kind": "encrypt-seq", "sizes": sizes}
        try:
            wire = b"".join(b"".join(bytes(x) for x in c.encrypt(m)) for m in msgs)
        except Exception as ex:  # noqa: BLE001
            ctx.fail("C05:encrypt-raised", f"encrypt raised {type(ex).__name__} for message sizes {sizes}", rep)
            continue
        frames, fail_end, consumed = ref.receive(ref.Real(ref.hkdf(key, ref.SALT, ref.A2C)), wire)
        want_sizes = [s_ for n in sizes for s_ in [1024] * (n // 1024) + ([n % 1024] if n % 1024 else [])]
        if fail_end is not None:
            ctx.fail("C05:stream-not-wellformed", f"message sizes {sizes}: frame ending at {fail_end} does not authenticate under counter {len(frames)}", rep, size=len(sizes))
        elif consumed != len(wire) or b"".join(p for _, p in frames) != b"".join(msgs):
            ctx.fail("C05:stream-not-wellformed", f"message sizes {sizes}: the frames do not carry exactly the messages", rep, size=len(sizes))
        elif [len(p) for _, p in frames] != want_sizes:
            ctx.fail("C05:frame-size-out-of-range", f"message sizes {sizes}: frame payload sizes {[len(p) for _, p in frames][:12]} instead of {want_sizes[:12]}", rep)
        st.case(["encrypt-seq", sizes], len(sizes) >= 2)
        st.hit("op", "encrypt-seq")
        if any(n % 1024 == 0 for n in sizes[:-1]):
            st.hit("outcome", "exact-multiple-followed-by-message")


def run_event_format(ctx: Ctx):
    """create_hap_event vs the model (HapModel/Event.lean) and vs the independent splitter."""
    import pyhap.hap_event as he
    from pyhap.util import to_hap_json

    rng = ctx.rng
    st = ctx.stats
    cases = []
    pool = ["", "a", "Küche", "厨房", "é€𝄞z", "x" * 9, "y" * 99, "z" * 999, "\u00e9\u20ac", "\"quoted\"", "\r\n\r\n"]
    for i in range(ctx.n(120, 2000)):
        k = rng.choice([1, 1, 2, 5])
        data = []
        for _ in range(k):
            v = rng.choice([rng.choice(pool) * rng.choice([1, 1, 3]), rng.randrange(-5, 10**6), True, None, 1.5])
            data.append({"aid": rng.randrange(1, 50), "iid": rng.randrange(1, 300), "value": v})
        cases.append(data)
    # lengths whose decimal representation changes width (9/10, 99/100, 999/1000 body bytes)
    for n in (1, 5, 55, 56, 57, 955, 956, 957, 9955, 9956):
        cases.append([{"aid": 1, "iid": 2, "value": "v" * n}])
    lines, impl = [], []
    for data in cases:
        body = to_hap_json({"characteristics": data})
        msg = he.create_hap_event(data)
        impl.append({"msg": hx(msg)})
        lines.append({"layer": "frame", "op": "event", "body": hx(body)})
        # oracle: the message, followed by another message, splits cleanly and carries the body
        follow = b"HTTP/1.1 204 No Content\r\n\r\n"
        msgs, left = ref.split_messages(msg + follow)
        if left or len(msgs) != 2 or msgs[0][0] != "event" or msgs[0][3] != body or msgs[0][1] != 200:
            ctx.fail(
                "C05:event-message-malformed",
                f"an EVENT message with a {len(body)}-byte body does not split into exactly its body and the next message "
                f"(declared length vs bytes differ or head malformed)",
                {"kind": "event", "data": data},
                size=len(body),
            )
        st.case(["event", hx(body[:40]), len(body)], any(ord(c) > 127 for d in data if isinstance(d["value"], str) for c in d["value"]) or len(data) > 1 or len(body) > 99)
        st.hit("op", "event-format")
    model = run_model("C05", lines)
    for data, m, i in zip(cases, model, impl):
        st.traces_validated += 1
        if m != i:
            ctx.disagree("event-format", {"data": str(data)[:200]}, _short(m), _short(i))


def variety_scripts(ctx: Ctx):
    """Request-header variety (`Expect: 100-continue`, chunked request bodies; after the upgrade, on the pair-verify
    requests before it, and on a re-verification inside the session) and responses larger than 256 KiB (300 KiB,
    1 MiB snapshots; /accessories of a big bridge is out of reach of the quick tier) with immediate events produced
    on every loop iteration that follows the moment the application hands the image back."""
    import random

    xr = random.Random(f"C05:variety:{ctx.seed}")
    out = []
    for m in ("mock", "real"):
        out.append(([["hdr", "expect"], ["put", 0, 50], ["get", [0]]], m))
        out.append(([["sub", [0]], ["hdr", "expect"], ["put", 1, 200], ["appset", 0, 10], ["advance", 1.0], ["get", [0, 1]]], m))
        out.append(([["hdr0", "expect"], ["get_acc"], ["put", 0, 5]], m))
    out.append(([["sub", [6]], ["snapshot", 307200, 0, 6, "ready"], ["get", [0]]], "real"))
    out.append(([["hdr", "expect"], ["sub", [0, 6]], ["button"], ["get", [6]]], "real"))
    out.append(([["hdr", "expect", 2], ["reverify"], ["get_acc"]], "mock"))
    out.append(([["hdr", "expect"], ["snapshot", 2000, 0.25, 0], ["get", [0]]], "real"))
    out.append(([["hdr", "chunked"], ["put", 0, 200], ["get", [0]], ["hdr", "chunked"], ["sub", [0, 1]], ["appset", 1, 30], ["advance", 1.0]], "mock"))
    out.append(([["sub", [6]], ["snapshot", 1048576, 0.25, 8, "ready"], ["get", [6]]], "real"))
    out.append(([["sub", [0, 6]], ["appset", 0, 40], ["snapshot", 262144, 0, 4, "ready"], ["get_acc"]], "real"))
    out.append(([["hdr", "expect"], ["sub", [6]], ["hdr", "expect"], ["snapshot", 300000, 0, 3, "ready"], ["button"], ["get", [6]]], "real"))
    for _ in range(ctx.n(24, 600)):
        ops = gen_script(xr, ctx.quick)
        res = []
        for op in ops:
            if op[0] in ("put", "sub", "snapshot", "reverify", "get", "get_acc") and xr.random() < 0.3:
                res.append(["hdr", xr.choice(["expect", "expect", "chunked"]), 2 if op[0] == "reverify" else 1])
            res.append(op)
        if xr.random() < 0.08:
            res.insert(0, ["hdr0", "expect"])
        if xr.random() < 0.25:
            at = xr.randrange(len(res) + 1)
            res[at:at] = [["sub", [6]], ["snapshot", xr.choice([262144, 270000, 307200, 600000]), xr.choice([0, 0, 0.25]), xr.choice([2, 5, 9]), "ready"]]
        big = any(o[0] == "snapshot" and o[1] > 60000 for o in res)
        out.append((res, "real" if big else xr.choice(["mock", "real"])))
    return out


def long_tx_plan(ctx: Ctx):
    import random

    xr = random.Random(f"C05:long-tx:{ctx.seed}")
    return {"frames": 65536 + xr.choice([5, 300, 900]), "seed": xr.randrange(1 << 30)}


def run_long_tx(ctx: Ctx, hc, plan):
    """One session that writes more than 65536 frames (mostly 1-byte messages, a few multi-frame ones): the reference
    controller (real ChaCha20-Poly1305, nonce = 4 zero bytes || LE64 frame number) must open every frame under counters
    0,1,2,... and recover exactly the messages -- the counter leaving the two low bytes of the nonce is nothing special."""
    import random

    r = random.Random(plan["seed"])
    st = ctx.stats
    key = bytes(range(11, 43))
    c = hc.HAPCrypto(key)
    rep = {"kind": "long-tx", "plan": plan}
    msgs, nfr = [], 0
    s0 = r.randrange(251)
    while nfr < plan["frames"]:
        if r.random() < 0.001 or nfr in (65534, 65535):
            n = r.choice([2, 1024, 1025, 2049])
        else:
            n = 1
        msgs.append(bytes([(s0 + nfr) % 251]) * n)
        nfr += (n + 1023) // 1024
    try:
        wire = b"".join(b"".join(bytes(x) for x in c.encrypt(m)) for m in msgs)
    except Exception as ex:  # noqa: BLE001
        ctx.fail("C05:encrypt-raised", f"encrypt raised {type(ex).__name__} in a session of {nfr} frames", rep)
        return
    frames, fail_end, consumed = ref.receive(ref.Real(ref.hkdf(key, ref.SALT, ref.A2C)), wire)
    if fail_end is not None:
        ctx.fail("C05:stream-not-wellformed", f"long session: frame number {len(frames)} (ending at byte {fail_end}) does not authenticate "
                 f"under counter {len(frames)}", rep)
    elif consumed != len(wire) or b"".join(p for _, p in frames) != b"".join(msgs):
        ctx.fail("C05:stream-not-wellformed", f"long session of {nfr} frames: the frames do not carry exactly the messages", rep)
    elif any(not 1 <= len(p) <= 1024 for _, p in frames):
        ctx.fail("C05:frame-size-out-of-range", "long session: a frame payload outside 1..1024", rep)
    st.case(["long-tx", plan["frames"], plan["seed"]], True)
    st.hit("op", "long-tx-session")
    st.hit("outcome", f"long-tx:frames-opened:{'all' if fail_end is None else len(frames)}")


def run(ctx: Ctx):
    hc, hp = _reload()
    st = ctx.stats
    rng = ctx.rng
    run_event_format(ctx)
    run_encrypt_sequences(ctx, hc)
    if ctx.budget_scale >= 0.5:  # not in the bounded interpreter-variant repeat
        run_long_tx(ctx, hc, long_tx_plan(ctx))
    st.rule = (
        "scripts over one verified connection of a real HAPServerProtocol+AccessoryDriver on a virtual clock: reads, "
        "writes, subscriptions, application value changes (events), timer advances, delayed snapshot responses, second "
        "pair-verify (re-key, also with events queued / produced in the same iteration), transport write flow control "
        "(pause, messages produced while paused, drain with a write due in the same iteration), plus response sizes steered to 1023/1024/1025/2047/2048/2049, "
        "request-header variety (Expect: 100-continue with head and body in separate reads, chunked request bodies; before the upgrade, after it, on a "
        "re-verification), responses above 256 KiB (262144..1 MiB snapshots) with an immediate event on every loop iteration after the image is ready, "
        "one HAPCrypto session of more than 65536 outbound frames opened by the reference controller; real ChaCha (oracle only) or "
        "mock AEAD (oracle + model correspondence). Non-trivial = at least one message beyond the pair-verify exchange "
        "written after the upgrade; distinct by op script."
    )
    scripts = []
    for target in [1023, 1024, 1025, 1026]:
        scripts.append((size_targeting_script(rng, target), "mock"))
        scripts.append((size_targeting_script(rng, target), "real"))
    scripts.append(([["sub", [0, 1, 2, 3, 4]]] + [["appset", i, 256] for i in range(5)] + [["advance", 1.0]], "mock"))
    scripts.append(([["sub", [0]], ["snapshot", 2048, 1.0, 0], ["appset", 0, 10], ["advance", 1.0], ["get_acc"]], "real"))
    scripts.append(([["reverify"], ["get_acc"], ["reverify"], ["get", [0, 1]]], "mock"))
    scripts.append(([["legacy"], ["get_acc"], ["sub", [0]], ["appset", 0, 20], ["advance", 1.0]], "real"))
    scripts.append(([["legacy"], ["get", [0]], ["reverify"], ["get_acc"]], "mock"))
    # re-verification while an event is still queued / produced in the same iteration
    for m in ("mock", "real"):
        scripts.append(([["sub", [0, 6]], ["appset", 0, 30], ["reverify"], ["advance", 1.0], ["get", [0]]], m))
        scripts.append(([["sub", [0, 1]], ["advance", 1.0], ["appset", 1, 10], ["appset", 0, 250], ["reverify"], ["get_acc"], ["advance", 1.0]], m))
        scripts.append(([["sub", [6]], ["button"], ["reverify"], ["button"], ["get", [6]]], m))
    # write flow control: the peer stops reading, messages are produced while the protocol is paused, the socket
    # drains while another write is due in the same iteration
    for then in ("button", "get", "timer"):
        for high in (4096, 65536):
            scripts.append(([["flow", high], ["sub", [0, 6]], ["snapshot", 140000, 0, 0], ["get", [0, 1]], ["appset", 0, 40],
                             ["drain_then", then], ["advance", 1.0], ["get_acc"], ["drain"], ["get", [0]]], "real"))
    scripts.append(([["flow", 1024], ["sub", [0, 6]], ["get_acc"], ["button"], ["get", [0]], ["drain_then", "button"], ["button"], ["advance", 1.0], ["drain"], ["get", [1]]], "mock"))
    scripts.append(([["get_acc"], ["bad_request"], ["get_acc"]], "real"))
    scripts.append(([["sub", [0]], ["appset", 0, 5], ["bad_request"], ["advance", 1.0]], "mock"))
    scripts.append(([["sub", [6]], ["snapshot", 70000, 0.25, 5], ["get", [0]]], "real"))
    scripts.append(([["sub", [0, 6]], ["appset", 0, 40], ["snapshot", 140000, 0, 5], ["get_acc"]], "real"))
    for _ in range(ctx.n(200, 3000)):
        ops_ = gen_script(rng, ctx.quick)
        big = any(o[0] == "snapshot" and o[1] > 60000 for o in ops_)
        # the transparent mock cipher is pure Python (slow on big payloads): big responses use real ChaCha
        scripts.append((ops_, "real" if big else rng.choice(["mock", "real"])))
    # ---- scripts added later; APPENDED, so that every script above keeps its index and with it its per-script seed
    n_old = len(scripts)
    scripts += variety_scripts(ctx)
    lines, impls, idx = [], [], []
    # a bounded repeat with the pyhap logger at DEBUG (behaviour must not depend on the logging configuration)
    from common import pyhap_debug_logging

    with pyhap_debug_logging():
        _DEBUG_LOGGING[0] = True
        try:
            for i, (ops, mode) in enumerate(scripts[:40:2] + scripts[n_old : n_old + 12 : 3]):
                seed = ctx.seed * 100003 + 900000 + i
                judge(ctx, run_script(ctx, hc, hp, ops, mode, seed), ops, mode, seed)
                st.hit("op", "script-under-debug-logging")
        finally:
            _DEBUG_LOGGING[0] = False
    for i, (ops, mode) in enumerate(scripts):
        seed = ctx.seed * 100003 + i
        obs = run_script(ctx, hc, hp, ops, mode, seed)
        msgs = judge(ctx, obs, ops, mode, seed)
        n_after = sum(1 for m in msgs) - 2
        st.case(["script", ops, mode], n_after > 0)
        for op in ops:
            st.hit("op", op[0])
        st.hit("outcome", f"mode:{mode}")
        sizes = [len(d) for k, d in obs["writes"] if k == "writelines"]
        if any(s > 1042 for s in sizes):
            st.hit("outcome", "multi-frame-message")
        if any(m[0] == "event" for m in msgs):
            st.hit("outcome", "event-written")
        if mode == "mock":
            line, impl = to_model_line(obs, mode)
            lines.append(line)
            impls.append(impl)
            idx.append(i)
        if i in (0, 9, 12):
            st.sample({"ops": ops, "mode": mode, "writes": [(k, len(d)) for k, d in obs["writes"]][:12],
                       "messages": [(m[0], m[1], len(m[3])) for m in msgs][:12]})
    model = run_model("C05", lines)
    for i, m, im in zip(idx, model, impls):
        st.traces_validated += 1
        if m.get("writes") != im:
            ctx.disagree("frame-tx", {"ops": scripts[i][0]}, _short(m.get("writes", m)), _short(im))


def _short(x):
    s = str(x)
    return s if len(s) < 300 else s[:300] + f"...<{len(s)} chars>"


def search(ctx: Ctx):
    hc, hp = _reload()
    rng = ctx.rng
    saved = ctx.tier
    ctx.tier = "thorough"
    try:
        run_encrypt_sequences(ctx, hc)
    finally:
        ctx.tier = saved
    if ctx.failures:
        return
    run_long_tx(ctx, hc, long_tx_plan(ctx))
    for i, (ops, mode) in enumerate(variety_scripts(ctx)):
        seed = ctx.seed * 100003 + 70000 + i
        judge(ctx, run_script(ctx, hc, hp, ops, mode, seed), ops, mode, seed)
    if ctx.failures:
        return
    for i in range(600):
        ops = gen_script(rng, False)
        mode = rng.choice(["mock", "real"])
        seed = ctx.seed * 100003 + 50000 + i
        judge(ctx, run_script(ctx, hc, hp, ops, mode, seed), ops, mode, seed)
        if ctx.failures:
            return


def replay(ctx: Ctx, r):
    hc, hp = _reload()
    if r.get("kind") == "event":
        import pyhap.hap_event as he
        from pyhap.util import to_hap_json

        body = to_hap_json({"characteristics": r["data"]})
        msg = he.create_hap_event(r["data"])
        msgs, left = ref.split_messages(msg + b"HTTP/1.1 204 No Content\r\n\r\n")
        bad = bool(left) or len(msgs) != 2 or msgs[0][3] != body
        print("event message:", msg[:120], "...")
        print("verdict:", "property violated on this input" if bad else "holds on this input")
        return 1 if bad else 0
    if r.get("kind") == "long-tx":
        run_long_tx(ctx, hc, r["plan"])
        print("plan", r["plan"])
        for f in ctx.failures:
            print("FAILS:", f.signature, f.description)
        print("verdict:", "property violated on this input" if ctx.failures else "holds on this input")
        return 1 if ctx.failures else 0
    if r.get("kind") == "encrypt-seq":
        run_encrypt_sequences(ctx, hc)
        for f in ctx.failures:
            print("FAILS:", f.signature, f.description)
        print("verdict:", "property violated on this input" if ctx.failures else "holds on this input")
        return 1 if ctx.failures else 0
    import contextlib

    from common import pyhap_debug_logging

    with pyhap_debug_logging() if r.get("logging") else contextlib.nullcontext():
        obs = run_script(ctx, hc, hp, r["ops"], r["mode"], r["seed"])
    msgs = judge(ctx, obs, r["ops"], r["mode"], r["seed"])
    print("writes:", [(k, len(d)) for k, d in obs["writes"]])
    print("messages:", [(m[0], m[1], len(m[3])) for m in msgs])
    for f in ctx.failures:
        print("FAILS:", f.signature, f.description)
    print("verdict:", "property violated on this input" if ctx.failures else "holds on this input")
    return 1 if ctx.failures else 0
