"""C06 — Pairing administration is admin-only, exact, and never leaves orphans.

Histories of pair-setup completions and POST /pairings requests (add / remove / list / malformed)
from admin, non-admin and unverified connections are run
  * on the real code: a real AccessoryDriver + State, real HAPServerHandler objects whose
    `is_encrypted` / `client_uuid` are set as a finished pair-verify leaves them, requests go
    through `handler.dispatch(h11.Request(POST /pairings), body)`; `driver.async_persist` is
    replaced by a synchronous call of the real `driver.persist` so that the file has settled;
  * on the Lean model (lean/HapModel/PairState.lean, driver Drivers/C06.lean),
and the answers, the three State maps and the saved file are diffed after every request.
The oracle (harness/ref/pairings.py) judges the real behaviour against the statement of C06.

A second stream establishes its sessions by REAL pair-verify exchanges through the real handler
(reference controller harness/ref/c14_pairverify.py): honest exchanges, dishonest ones (bogus /
foreign / wrong-material / missing proof, wrong outer key, unknown or missing identifier) on fresh
and on already verified connections, then POST /pairings on those connections. Oracle: a request
is served only if the controller that last PROVED its identity on that connection is admin now.
Model: `sstep` (session facts written only by a proving exchange; ideal signatures).
"""
from __future__ import annotations

import asyncio
import json
import logging
import os
import shutil
import tempfile
import uuid as uuidlib
from typing import Any, Dict, List, Optional

from common import Ctx, delta_min, hx, run_model_parallel
from ref import c14_pairverify as refpv
from ref import encoders as refenc
from ref import pairings as refp
from ref import tlv8 as reftlv

PROP = "C06"
LEAN_MODULE = "Props.C06"


def extract(ctx):
    """regenerate the protocol-constant table from the source under check"""
    import sys as _sys

    from common import LEAN, REPO, VERIF

    _sys.path.insert(0, str(VERIF / "extract"))
    import encoder_fields
    import handler_consts

    handler_consts.write(REPO, LEAN)
    encoder_fields.write(REPO, LEAN)  # member names of the state file (whole-life histories restart through it)
TRUSTED = [
    "Lean 4.33 kernel; axioms propext, Classical.choice, Quot.sound only (audited by #print axioms)",
    "hand-written model lean/HapModel/PairState.lean of State.add/remove/is_admin and handle_pairings "
    "(add_paired_client as repaired by design/fixes/C06.patch), tied by this differential run",
    "uuid.UUID(bytes.decode()) is a parameter of the model (theorems hold for every parser with parse(b'') = None); "
    "the harness passes the real parser's value for every identifier of a script",
    "TLV request decoding / answer encoding reuse the C07 model (lean/HapModel/Tlv.lean)",
    "harness/ref/pairings.py + harness/ref/tlv8.py (oracle: abstract pairing list advanced by the answers, "
    "independent TLV8 list decoder); harness generators",
    "first stream: connections are HAPServerHandler objects with is_encrypted/client_uuid set directly; second stream: "
    "sessions come from real pair-verify exchanges on real handlers (one handler = one connection; the transport "
    "encryption of an upgraded connection is C04/C05's concern and not applied); in the model one exchange is one step and "
    "cryptography is ideal (outer layer opens iff sealed with the exchange key; a proof verifies under K iff made with "
    "K's private key over the exchange material) -- the cryptographic fact behind C02, taken as the shape of the attempt; "
    "driver.async_persist replaced by a synchronous call of the real driver.persist whose exceptions are swallowed as the "
    "executor task would (scheduling / coalescing of saves is C15's concern); 'a save happened' is observed on disk (the file "
    "was replaced); fault = the state file's directory does not exist while one request is handled; start states and restarts: "
    "harness-authored state files in the historical format resp. the file the implementation wrote, loaded by the real driver "
    "(what a save + load preserves is C14's statement: in the request stream the model is compared piecewise from the observed loaded state)",
    "whole-life stream (model: hstep / hrun of lean/HapModel/PairStateHist.lean): real sessions + AccessoryDriver.config_changed + the "
    "database-hash update of async_start + restarts (fresh driver + accessory load the state file the implementation wrote); here the MODEL "
    "predicts the state after the restart (loadJ (persistJ acc), member names regenerated into lean/HapModel/Gen/EncoderFields.lean by "
    "probing persist / load_into, extract/encoder_fields.py); update_advertisement is stubbed (C18); the C06 oracle abstains after a restart "
    "that did not preserve the pairings (C14's statement), the model comparison does not; response.pairing_removed is compared as an observable "
    "(model: pairingRemoved), what the protocol layer does with it is C16",
    "round 6: every whole-life history runs under a configuration {encoder, live}: application-supplied AccessoryEncoder subclasses of "
    "harness/ref/encoders.py (exact inverses around the stock document; the file-tree tie unwraps the harness's own envelope) and a LIVE driver "
    "(real async_persist = executor hand-off on the application-supplied loop, application-owned zeroconf instance, calls made inside the loop and "
    "followed by waiting for the implementation's background tasks; only the TCP listener of async_start/async_stop is stubbed); lifecycle ops "
    "stop / start of the same driver object (model: HOp.stop; start = the hash update with the observed accessories_hash); the accessory is an "
    "application subclass whose setup_message() raises while a request is being served (hooks may fail; it works at start)",
]

_LOOP = None
_TMP = None


def _quiet():
    logging.getLogger("pyhap").setLevel(logging.CRITICAL + 1)
    logging.getLogger("pyhap.hap_handler").setLevel(logging.CRITICAL + 1)
    logging.getLogger("pyhap.accessory_driver").setLevel(logging.CRITICAL + 1)


def _tmpdir() -> str:
    global _TMP
    if _TMP is None or not os.path.isdir(_TMP):
        _TMP = tempfile.mkdtemp(prefix="verif-c06-")
        import atexit

        atexit.register(lambda: shutil.rmtree(_TMP, ignore_errors=True))
    return _TMP


_EXEC_JOBS: list = []  # futures of jobs the implementation handed to the loop's executor (the loop is the harness's own)


def _loop():
    global _LOOP
    if _LOOP is None:
        _LOOP = asyncio.new_event_loop()
        # The application supplies this loop, so it may observe what is submitted through its public
        # run_in_executor: that is how background saves are awaited, independently of how (and under which
        # private name) the implementation keeps track of them.
        orig = _LOOP.run_in_executor

        def run_in_executor(executor, func, *args):
            fut = orig(executor, func, *args)
            _EXEC_JOBS.append(fut)
            del _EXEC_JOBS[:-200]
            return fut

        _LOOP.run_in_executor = run_in_executor
    return _LOOP


# ----------------------------------------------------------------------------- real code


class _AsyncNoop:
    async def __call__(self, *a, **k):
        return None


class SharedZeroconf:
    """An application-owned zeroconf instance (as e.g. Home Assistant shares one): it survives the driver's stop."""

    def __init__(self):
        self.calls = []

    async def async_register_service(self, info, **kwargs):
        self.calls.append("register")

    async def async_update_service(self, info):
        self.calls.append("update")

    async def async_unregister_service(self, info):
        self.calls.append("unregister")

    async def async_close(self):
        self.calls.append("close")


async def _settle():
    """Wait until every background task the implementation created (state saves in the executor) has finished."""
    for _ in range(20):
        await asyncio.sleep(0)
        pending = [t for t in list(_EXEC_JOBS) if not t.done()]
        if not pending:
            # a save handed to the executor by other means still shows up as a pending future of the loop's tasks
            others = [t for t in asyncio.all_tasks() if t is not asyncio.current_task() and not t.done()]
            if not others:
                return
            pending = others
        await asyncio.wait(pending, timeout=3)


class Real:
    """A real AccessoryDriver/State with a persist file, plus bookkeeping of persist calls."""

    _n = 0

    def __init__(self, with_accessory: bool = False, state_file_from: Optional[str] = None, encoder: str = "stock", live: bool = False):
        """`encoder`: kind of application-supplied AccessoryEncoder handed to the constructor (harness/ref/encoders.py).
        `live`: the driver keeps its REAL async_persist (executor hand-off on the application-supplied loop) and gets an
        application-owned zeroconf instance, so that it can be started, stopped and started again as one object;
        every call then runs inside the loop and is followed by `settle()` (all background saves have landed)."""
        from pyhap.accessory_driver import AccessoryDriver

        _quiet()
        Real._n += 1
        self.path = os.path.join(_tmpdir(), f"acc-{os.getpid()}-{Real._n}.state")
        self.encoder_kind = encoder
        self.live = live
        self.running = False
        kw = {}
        if encoder != "stock":
            kw["encoder"] = refenc.make(encoder)
        if live:
            kw["async_zeroconf_instance"] = SharedZeroconf()
        self.driver = AccessoryDriver(
            loop=_loop(), persist_file=self.path, address="127.0.0.1", port=51827, **kw
        )  # mac, setup id and the Ed25519 key pair are random per instance
        self.persist_calls = 0
        real = self

        def sync_persist():
            # the real async_persist hands driver.persist to an executor: an exception raised there is
            # logged by the background task and never reaches the request being handled
            real.persist_calls += 1
            try:
                real.driver.persist()
            except Exception as ex:  # noqa: BLE001
                real.persist_errors.append(type(ex).__name__)

        self.persist_errors: List[str] = []
        self.last_pairing_removed = False
        self.driver.update_advertisement = lambda: None  # config_changed(): the mDNS side is C18's concern

        if live:
            # the TCP listener is C19's concern: no socket is bound, everything else of start / stop is real
            self.driver.http_server.async_start = _AsyncNoop()
            self.driver.http_server.async_stop = lambda: None
        else:
            self.driver.async_persist = sync_persist
        self.state = self.driver.state
        if state_file_from is not None:  # a restart: the file of the previous run is there
            shutil.copyfile(state_file_from, self.path)
        if with_accessory:  # pair-verify's log line for an unknown controller names the accessory;
            # add_accessory loads the state file if it exists, else writes one
            from pyhap.accessory import Accessory

            class HarnessAccessory(Accessory):
                """An application subclass: its setup message goes to a display (no QR code on the terminal). While
                `display_gone` is set the display is unavailable and the hook raises, as application hooks may."""

                display_gone = False

                def setup_message(self):
                    if self.display_gone:
                        raise OSError("display unavailable")

            self.driver.add_accessory(HarnessAccessory(self.driver, "Verif"))

    def call(self, fn, *args):
        """Call into the implementation: directly, or (live) inside the running loop, then wait for its background saves."""
        if not self.live:
            return fn(*args)

        async def _inside():
            r = fn(*args)
            if asyncio.iscoroutine(r):
                r = await r
            await _settle()
            return r

        asyncio.set_event_loop(_loop())
        return _loop().run_until_complete(_inside())

    def start(self):
        self.call(self.driver.async_start)
        self.running = True

    def stop(self):
        self.call(self.driver.async_stop)
        self.running = False

    def close(self):
        if self.live and self.running:
            try:
                self.stop()
            except Exception:  # noqa: BLE001
                pass
        try:
            os.remove(self.path)
        except OSError:
            pass

    def file_sig(self):
        """Identity of the state file on disk (a save replaces it): what 'a save happened' is observed by."""
        try:
            st = os.stat(self.path)
            return (st.st_ino, st.st_mtime_ns, st.st_size)
        except OSError:
            return None

    def fault(self):
        """Context manager: while active every write of the state file raises OSError (its directory does not exist)."""
        real = self

        class _Fault:
            def __enter__(self):
                self.saved = real.driver.persist_file
                real.driver.persist_file = os.path.join(_tmpdir(), "no-such-dir", os.path.basename(real.path))

            def __exit__(self, *a):
                real.driver.persist_file = self.saved

        return _Fault()

    def ident(self) -> Dict[str, Any]:
        from cryptography.hazmat.primitives import serialization as ser

        st = self.state
        return {
            "mac": st.mac,
            "config_version": st.config_version,
            "accessories_hash": st.accessories_hash,
            "private_key": hx(st.private_key.private_bytes(ser.Encoding.Raw, ser.PrivateFormat.Raw, ser.NoEncryption())),
            "public_key": hx(st.public_key.public_bytes(ser.Encoding.Raw, ser.PublicFormat.Raw)),
        }

    def snapshot(self) -> Dict[str, Any]:
        st = self.state
        return {
            "paired": [[str(u.int), hx(k)] for u, k in st.paired_clients.items()],
            "props": [[str(u.int), _perm(p)] for u, p in st.client_properties.items()],
            "u2b": [[str(u.int), hx(b)] for u, b in st.uuid_to_bytes.items()],
        }

    def file_doc(self) -> Optional[Dict[str, Any]]:
        if not os.path.exists(self.path):
            return None
        try:  # the file is the implementation's: whatever is in it is an observation, never a harness error
            with open(self.path, "r", encoding="utf8") as fh:
                text = refenc.ENVELOPES[self.encoder_kind].unwrap(fh.read())  # the harness's own envelope, then the document
            return canon_doc(json.loads(text, object_pairs_hook=list))
        except Exception as ex:  # noqa: BLE001
            return {"unreadable": f"{type(ex).__name__}: {ex}"[:200]}

    def connection(self):
        """One connection: returns post(path, body) -> (status, body) bound to one fresh handler,
        and the handler (so that callers can read is_encrypted / client_uuid afterwards)."""
        import h11
        from pyhap.hap_handler import HAPServerHandler

        h = HAPServerHandler(self.driver, ("127.0.0.1", 40001))

        def post(path: str, body: bytes):
            req = h11.Request(method="POST", target=path, headers=[("Host", "hap"), ("Content-Length", str(len(body)))])
            acc = self.driver.accessory
            if acc is not None and hasattr(acc, "display_gone"):
                acc.display_gone = True  # the application's display is away while requests are served (it is there at start)
            try:
                r = self.call(h.dispatch, req, body)
            finally:
                if acc is not None and hasattr(acc, "display_gone"):
                    acc.display_gone = False
            post.pairing_changed = bool(r.pairing_changed)
            post.pairing_removed = bool(getattr(r, "pairing_removed", False))
            return r.status_code, bytes(r.body)

        return post, h

    def request(self, enc: bool, cu: Optional[int], body: bytes):
        import h11
        from pyhap.hap_handler import HAPServerHandler

        h = HAPServerHandler(self.driver, ("127.0.0.1", 40000))
        h.is_encrypted = enc
        h.client_uuid = uuidlib.UUID(int=cu) if cu is not None else None
        req = h11.Request(
            method="POST", target="/pairings", headers=[("Host", "hap"), ("Content-Length", str(len(body)))]
        )
        r = h.dispatch(req, body)
        self.last_pairing_removed = bool(getattr(r, "pairing_removed", False))
        return r.status_code, bytes(r.body), bool(r.pairing_changed)


def _perm(p):
    if isinstance(p, dict) and isinstance(p.get("permissions"), int) and set(p) == {"permissions"}:
        return p["permissions"]
    return {"unexpected": repr(p)}


def canon_doc(pairs) -> Dict[str, Any]:
    """File tree (objects as pair lists) -> the shape the model driver prints."""
    top = {}
    for k, v in pairs:
        if k in ("paired_clients", "client_uuid_to_bytes") and isinstance(v, list):
            top[k] = [[a, b] for a, b in v]
        elif k == "client_properties" and isinstance(v, list):
            top[k] = [[a, dict(b) if isinstance(b, list) else b] for a, b in v]
        else:
            top[k] = v
    return top


def parse_id(b: bytes) -> Optional[int]:
    """The real `uuid.UUID(bytes.decode("utf-8"))` (the model's `parse` parameter)."""
    try:
        return uuidlib.UUID(b.decode("utf-8")).int
    except Exception:  # noqa: BLE001
        return None


def lenient_items(body: bytes) -> Dict[int, bytes]:
    """Items a slicing decoder can see in a body (a cut-off last value is kept short); used only
    to fill the parse table handed to the model."""
    d: Dict[int, bytes] = {}
    pos = 0
    while pos + 1 < len(body):
        t, ln = body[pos], body[pos + 1]
        d[t] = d.get(t, b"") + body[pos + 2 : pos + 2 + ln]
        pos += 2 + ln
    return d


def strict_items(body: bytes) -> Optional[Dict[int, bytes]]:
    try:
        return reftlv.merge_dict(reftlv.records(body))
    except ValueError:
        return None


# ----------------------------------------------------------------------------- running + judging


def pairing_set(snap) -> set:
    props = {u: p for u, p in snap["props"]}
    return {(int(u), bytes.fromhex(k), isinstance(props.get(u), int) and bool(props[u] & 1)) for u, k in snap["paired"]}


class Verdict:
    def __init__(self):
        self.sig: Optional[str] = None
        self.desc = ""
        self.at = -1

    def fail(self, sig, desc, at):
        if self.sig is None:
            self.sig, self.desc, self.at = sig, desc, at


class _NoFault:
    def __enter__(self):
        return self

    def __exit__(self, *a):
        return False


def start_known(start) -> List[List[Any]]:
    """[(uuid int, id bytes | None, key bytes, permission)] a loaded start document holds, from the harness's
    own knowledge of what it authored (no permissions stored -> 1; no identifier bytes stored -> None)."""
    st, absent = start["state"], start["absent"]
    props = {u: p for u, p in st["props"]}
    u2b = {u: b for u, b in st["u2b"]}
    return [[int(u), None if "client_uuid_to_bytes" in absent or u not in u2b else bytes.fromhex(u2b[u]), bytes.fromhex(k),
             1 if "client_properties" in absent else props[u]] for u, k in st["paired"]]


def run_real(ops: List[Dict[str, Any]], judge: bool = True, start: Optional[Dict[str, Any]] = None):
    """Run one history on the real code. `start`: the history begins with a restart from a state file that
    the harness authored in the historical format (state description + absent members), loaded by the real
    driver. Returns (ident, steps, verdict, abstained, init snapshot | None)."""
    init = None
    ref: Optional[refp.RefPairings] = refp.RefPairings()
    if start is None:
        real = Real()
    else:
        from props import c14 as _c14  # authored documents live with the C14 harness

        holder = os.path.join(_tmpdir(), f"start-{os.getpid()}-{Real._n}.state")
        with open(holder, "w", encoding="utf8") as fh:
            json.dump(_c14.doc_to_json(_c14.author_doc(start["state"], start["absent"])), fh)
        try:
            real = Real(state_file_from=holder)
            real.driver.load()
        finally:
            os.remove(holder)
        init = real.snapshot()
        for u, idb, key, perm in start_known(start):
            ref.registered(u, idb, key, perm)
        if pairing_set(init) != ref.pairing_set():
            ref = None  # what a load gives is C14's business; this history is then only compared with the model
    try:
        ident = real.ident()
        steps = []
        v = Verdict()
        for i, op in enumerate(ops):
            if op["k"] == "restart":
                # a fresh driver + State loads the file the implementation itself wrote (opaque to the harness)
                if real.file_sig() is None:
                    steps.append({"restart": "no state file yet", "state": real.snapshot(), "ident": real.ident()})
                    continue
                try:
                    nxt = Real(state_file_from=real.path)
                    nxt.driver.load()
                except Exception as ex:  # noqa: BLE001  (saving/loading is C14's business: stop here)
                    steps.append({"restart": "load failed: " + type(ex).__name__})
                    ref = None
                    break
                real.close()
                real = nxt
                after = real.snapshot()
                steps.append({"restart": "loaded", "state": after, "ident": real.ident()})
                if ref is not None and pairing_set(after) != ref.pairing_set():
                    ref = None  # what a save + load preserves is C14's statement; only the model comparison goes on
                continue
            before = real.snapshot()
            sig0 = real.file_sig()
            with (real.fault() if op.get("fault") else _NoFault()):
                if op["k"] == "setup":
                    try:
                        real.driver.pair(bytes.fromhex(op["id"]), bytes.fromhex(op["key"]), b"\x01")
                        code, body, pc = 200, b"", False
                    except Exception:  # noqa: BLE001  (dispatch would answer 500)
                        code, body, pc = 500, b"", False
                    resp = {"code": code}
                    pr = False
                else:
                    cu = int(op["cu"]) if op["cu"] is not None else None
                    code, body, pc = real.request(op["enc"], cu, bytes.fromhex(op["body"]))
                    resp = {"code": 200, "body": hx(body), "pc": pc} if code == 200 else {"code": code}
                    pr = real.last_pairing_removed  # response.pairing_removed: the protocol layer's cue to drop unpaired sessions
            after = real.snapshot()
            wrote = real.file_sig() != sig0  # observed on disk, however the implementation got there
            step = {"resp": resp, "state": after, "wrote": wrote, "doc": real.file_doc() if wrote else None, "pr": pr}
            if op.get("fault"):  # whether / what got written while the disk fails is C15's concern
                step.pop("wrote"), step.pop("doc")
            steps.append(step)
            if judge and ref is not None and v.sig is None:
                ref = judge_step(v, ref, i, op, before, after, code, body)
        return ident, steps, v, ref is None, init
    finally:
        real.close()


def judge_step(v: Verdict, ref: refp.RefPairings, i, op, before, after, code, body) -> Optional[refp.RefPairings]:
    """The statement of C06 on one observed step. Returns the advanced reference list, or None
    when the accessory accepted something the statement says nothing about (stop judging)."""
    pb, pa = pairing_set(before), pairing_set(after)
    if op["k"] == "setup":
        if code == 200:
            u = parse_id(bytes.fromhex(op["id"]))
            if u is None:
                return None
            ref.registered(u, bytes.fromhex(op["id"]), bytes.fromhex(op["key"]), 1)
        if pa != ref.pairing_set():
            v.fail("C06:pairings-differ-from-history", "after pair-setup the State maps are not the pairings the answers imply", i)
        return ref

    err = refp.answer_is_error(code, body)
    cu = int(op["cu"]) if op["cu"] is not None else None
    conn_admin = bool(op["enc"]) and ref.is_admin(cu)
    who = "unverified connection" if (cu is None or not op["enc"]) else ("admin" if conn_admin else "non-admin controller")
    items = strict_items(bytes.fromhex(op["body"]))
    kind = items[refp.T_REQ][0] if items and items.get(refp.T_REQ) else None

    if not conn_admin:
        if not err or pa != pb:
            v.fail(
                "C06:served-without-admin",
                f"POST /pairings (type {kind}) from a {who} was "
                + ("answered without an error" if not err else "refused but changed the pairings"),
                i,
            )
        return ref
    if err:
        if pa != pb:
            v.fail(
                "C06:error-answer-changed-pairings",
                f"request type {kind}{' (while the state file could not be written)' if op.get('fault') else ''} answered with an error (HTTP {code}{' + TLV error item' if code == 200 else ''}) but the set of pairings changed: "
                f"{len(pb)} -> {len(pa)} entries, maps paired/props keys {len(after['paired'])}/{len(after['props'])}",
                i,
            )
        return ref

    # served, no error
    if kind == refp.ADD:
        idb, key, perms = items.get(refp.T_USER), items.get(refp.T_PUB), items.get(refp.T_PERM)
        u = parse_id(idb) if idb is not None else None
        if u is None or key is None or perms is None or len(perms) != 1:
            return None  # accepted a request the statement does not give a meaning to
        ref.registered(u, idb, key, perms[0])
    elif kind == refp.REMOVE:
        idb = items.get(refp.T_USER)
        u = parse_id(idb) if idb is not None else None
        if u is None:
            return None
        ref.removed(u)
    elif kind == refp.LIST:
        try:
            got = refp.decode_pairing_list(body)
        except ValueError as ex:
            v.fail("C06:list-not-exact", f"list-pairings answer is not a well-formed pairing list: {ex}", i)
            return ref
        if not ref.listing_matches(got, parse_id):
            v.fail(
                "C06:list-not-exact",
                f"list-pairings returned {len(got)} entries that are not exactly the {len(ref.entries)} current "
                "pairings with their registered identifier bytes, keys and admin flags",
                i,
            )
            return ref
    else:
        return None
    if pa != ref.pairing_set():
        if kind == refp.REMOVE and not ref.entries and pa:
            v.fail("C06:last-admin-orphans", f"the last admin was removed but {len(pa)} pairing(s) remain", i)
        else:
            v.fail(
                "C06:pairings-differ-from-history",
                f"after a successful request of type {kind} the State maps hold {len(pa)} pairings ({sum(1 for x in pa if x[2])} admin), "
                f"the answers imply {len(ref.entries)} ({sum(1 for x in ref.pairing_set() if x[2])} admin)",
                i,
            )
    return ref


# ----------------------------------------------------------------------------- generation

EDGE_UUIDS = [0, 1, (1 << 128) - 1, 0x0123456789ABCDEF0123456789ABCDEF, 0xA << 124, 0xFFFFFFFF << 96]


N_SPELL = 10  # every family uuid.UUID() accepts: dashed lower/upper/mixed, bare 32 hex digits lower/upper/mixed, braced, urn:uuid:


def spell(rng, u: int, how: Optional[int] = None) -> bytes:
    s = str(uuidlib.UUID(int=u))
    how = rng.randrange(N_SPELL) if how is None else how
    if how == 0:
        r = s
    elif how == 1:
        r = s.upper()
    elif how == 2:
        r = "{" + s + "}"
    elif how == 3:
        r = "urn:uuid:" + s
    elif how == 4:
        r = s.replace("-", "")
    elif how == 5:
        r = "{" + s.upper() + "}"
    elif how == 6:
        r = "".join(c.upper() if rng.random() < 0.5 else c for c in s)
    elif how == 7:
        r = "URN:UUID:".lower() + s.upper().replace("-", "")
    elif how == 8:
        r = s.upper().replace("-", "")
    else:
        r = "".join(c.upper() if rng.random() < 0.5 else c for c in s.replace("-", ""))
    return r.encode()


BAD_IDS = [b"", b"not-a-uuid", b"\xff\xfe\x00", b"1234", b"0" * 31, b"0" * 33, b"g" * 32, "é".encode() * 16,
           b"12345678-1234-5678-1234-56781234567", b"{}", b"urn:uuid:"]
ODD_IDS = [b"+" + b"1" * 31, b"0x" + b"2" * 30, b" " + b"3" * 31, b"4" * 15 + b"_" + b"5" * 16]  # int(x,16) quirks


def body_of(items) -> str:
    return hx(refp.request_body(items))


def add_body(idb, key, perms, drop=None, rt=refp.ADD) -> str:
    items = [(refp.T_REQ, bytes([rt])), (refp.T_USER, idb), (refp.T_PUB, key), (refp.T_PERM, perms)]
    return body_of([it for it in items if it[0] != drop])


def remove_body(idb, drop=None) -> str:
    items = [(refp.T_REQ, bytes([refp.REMOVE])), (refp.T_USER, idb)]
    return body_of([it for it in items if it[0] != drop])


LIST_BODY = body_of([(refp.T_REQ, bytes([refp.LIST]))])


def req(cu: Optional[int], body: str, enc: bool = True) -> Dict[str, Any]:
    return {"k": "req", "enc": enc, "cu": str(cu) if cu is not None else None, "body": body}


def setup(idb: bytes, key: bytes) -> Dict[str, Any]:
    return {"k": "setup", "id": hx(idb), "key": hx(key)}


def key_of(rng, n=32) -> bytes:
    return bytes(rng.randrange(256) for _ in range(n))


def boundary_scripts(ctx: Ctx) -> List[List[Dict[str, Any]]]:
    rng = ctx.rng
    A, B, C, D = (rng.getrandbits(128) for _ in range(4))
    ka, kb, kc = key_of(rng), key_of(rng), key_of(rng)
    sA = setup(spell(rng, A, 1), ka)
    out = []
    # permission item of length 0 / 1 / 2 / 3, for a new and for an existing controller
    for perms in (b"", b"\x00", b"\x01", b"\x01\x00", b"\x00\x01", b"\x01\x01\x01"):
        out.append([sA, req(A, add_body(spell(rng, B, 1), kb, perms)), req(A, LIST_BODY)])
        out.append([sA, req(A, add_body(spell(rng, B, 0), kb, b"\x00")), req(A, add_body(spell(rng, B, 1), kc, perms)), req(A, LIST_BODY)])
        out.append([sA, req(A, add_body(spell(rng, A, 1), kc, perms)), req(A, LIST_BODY)])
    # every permission byte
    for base in range(0, 256, 32):
        ops = [sA]
        for p in range(base, base + 32):
            ops.append(req(A, add_body(spell(rng, B + p, 1), kb, bytes([p]))))
        ops.append(req(A, LIST_BODY))
        ops.append(req(B + base + 1, LIST_BODY))  # odd permission byte: admin bit set
        ops.append(req(B + base, LIST_BODY))  # even: not admin
        out.append(ops)
    # every spelling: add, list, remove with another spelling, list
    for how in range(N_SPELL):
        out.append([sA, req(A, add_body(spell(rng, B, how), kb, b"\x00")), req(A, LIST_BODY),
                    req(A, remove_body(spell(rng, B, (how + 3) % N_SPELL))), req(A, LIST_BODY)])
        out.append([setup(spell(rng, A, how), ka), req(A, LIST_BODY), req(A, add_body(spell(rng, A, (how + 1) % N_SPELL), kc, b"\x01")), req(A, LIST_BODY)])
    # last admin removed while others remain; with a second admin; self removal
    users = [req(A, add_body(spell(rng, B, 1), kb, b"\x00")), req(A, add_body(spell(rng, C, 0), kc, b"\x00"))]
    out.append([sA] + users + [req(A, remove_body(spell(rng, A, 1))), req(A, LIST_BODY), req(B, LIST_BODY)])
    out.append([sA] + users + [req(A, add_body(spell(rng, D, 1), ka, b"\x01")), req(A, remove_body(spell(rng, A, 0))), req(D, LIST_BODY), req(D, remove_body(spell(rng, D, 2))), req(D, LIST_BODY)])
    out.append([sA] + users + [req(A, remove_body(spell(rng, B, 1))), req(A, LIST_BODY), req(A, remove_body(spell(rng, C, 1))), req(A, LIST_BODY), req(A, remove_body(spell(rng, A, 1)))])
    # unknown ids, 0/1/2/3 pairings
    out.append([sA, req(A, remove_body(spell(rng, D, 1))), req(A, LIST_BODY), req(A, remove_body(spell(rng, D, 0))), req(A, LIST_BODY)])
    out.append([req(A, LIST_BODY), req(None, LIST_BODY, enc=False), req(A, remove_body(spell(rng, A, 1)))])
    # non-admin / unverified / odd connections try everything
    for cu, enc in ((B, True), (None, False), (A, False), (None, True), (D, True)):
        out.append([sA, users[0], req(cu, add_body(spell(rng, C, 1), kc, b"\x01"), enc), req(cu, remove_body(spell(rng, A, 1)), enc),
                    req(cu, LIST_BODY, enc), req(cu, add_body(spell(rng, C, 1), kc, b"\x01\x01"), enc), req(A, LIST_BODY)])
    # self demotion
    out.append([sA, users[0], req(A, add_body(spell(rng, A, 1), ka, b"\x00")), req(A, LIST_BODY), req(A, remove_body(spell(rng, B, 1))), req(B, LIST_BODY)])
    # bad / odd identifiers, missing items, unknown types, malformed bodies
    for bad in BAD_IDS + ODD_IDS:
        out.append([sA, req(A, add_body(bad, kb, b"\x00")), req(A, remove_body(bad)), req(A, LIST_BODY)])
    out.append([setup(BAD_IDS[1], ka), setup(ODD_IDS[0], ka), req(int("1" * 31, 16), LIST_BODY)])
    for drop in (refp.T_REQ, refp.T_USER, refp.T_PUB, refp.T_PERM):
        out.append([sA, req(A, add_body(spell(rng, B, 1), kb, b"\x01", drop=drop)), req(A, remove_body(spell(rng, A, 1), drop=drop)), req(A, LIST_BODY)])
    for rt in (0, 1, 2, 6, 9, 255):
        out.append([sA, req(A, add_body(spell(rng, B, 1), kb, b"\x01", rt=rt)), req(A, LIST_BODY)])
    idb = spell(rng, B, 1)
    out.append([sA, req(A, ""), req(A, "00"), req(A, "0000"), req(A, "000103" + "01"), req(A, body_of([(0, b"")]) ),
                req(A, body_of([(0, b"\x03"), (1, idb[:10]), (3, kb), (1, idb[10:]), (11, b"\x00")])), req(A, LIST_BODY),
                req(A, body_of([(0, b"\x05\x03"), (255, b"")])), req(A, LIST_BODY[:-2]), req(A, add_body(idb, kb, b"\x01")[:-2])])
    # repeated add keeps the position; long keys fragment in request and answer
    out.append([sA] + users + [req(A, add_body(spell(rng, B, 0), ka, b"\x01")), req(A, LIST_BODY), req(B, LIST_BODY)])
    for n in (0, 1, 255, 256, 510, 600):
        out.append([sA, req(A, add_body(spell(rng, B, 1), key_of(rng, n), b"\x00")), req(A, LIST_BODY)])
    return out


def random_script(ctx: Ctx, pool: Optional[List[int]] = None, shadow: Optional[Dict[int, int]] = None) -> List[Dict[str, Any]]:
    """`pool` / `shadow` given: the history starts from a loaded state holding these controllers (uuid -> permission)."""
    rng = ctx.rng
    ops: List[Dict[str, Any]] = []
    if pool is None:
        pool = [rng.choice(EDGE_UUIDS) if rng.random() < 0.1 else rng.getrandbits(128) for _ in range(rng.choice([2, 3, 3, 4, 5]))]
        shadow = {}  # generator's guess of uuid -> permission (only steers the choice of connections)
        if rng.random() < 0.93:
            ops.append(setup(spell(rng, pool[0]), key_of(rng)))
            shadow[pool[0]] = 1
        if rng.random() < 0.15:
            ops.append(setup(spell(rng, pool[1]), key_of(rng)))
            shadow[pool[1]] = 1
    else:
        shadow = dict(shadow or {})
        pool = list(pool) + [rng.getrandbits(128)]
    for _ in range(rng.randrange(3, 14)):
        admins = [u for u, p in shadow.items() if p & 1]
        r = rng.random()
        if r < 0.62 and admins:
            cu, enc = rng.choice(admins), True
        elif r < 0.74:
            cu, enc = rng.choice(pool), True
        elif r < 0.82:
            cu, enc = None, False
        elif r < 0.87:
            cu, enc = rng.choice(pool), False
        elif r < 0.89:
            cu, enc = None, True
        else:
            cu, enc = rng.getrandbits(128), True
        served = enc and cu in admins
        k = rng.random()
        if k < 0.40:
            target = rng.choice(pool) if rng.random() < 0.85 else rng.getrandbits(128)
            idb = spell(rng, target)
            bad_id = rng.random() < 0.07
            if bad_id:
                idb = rng.choice(BAD_IDS + ODD_IDS)
            key = key_of(rng, 32 if rng.random() < 0.9 else rng.choice([0, 1, 31, 255, 256, 300]))
            pr = rng.random()
            if pr < 0.78:
                perms = bytes([rng.choice([0, 1, 0, 1, 1, 2, 3, 254, 255, rng.randrange(256)])])
                if target in admins and len(admins) == 1 and rng.random() < 0.7:
                    perms = b"\x01"  # mostly keep the only admin an admin
            elif pr < 0.87:
                perms = b""
            elif pr < 0.97:
                perms = bytes([rng.randrange(2), rng.randrange(256)])
            else:
                perms = bytes(rng.randrange(256) for _ in range(3))
            drop = rng.choice([refp.T_USER, refp.T_PUB, refp.T_PERM]) if rng.random() < 0.06 else None
            ops.append(req(cu, add_body(idb, key, perms, drop=drop), enc))
            if rng.random() < 0.04:
                ops[-1]["fault"] = True  # the state file cannot be written while this request is handled
            if served and not bad_id and drop is None and len(perms) == 1:
                shadow[target] = perms[0]
        elif k < 0.62:
            target = rng.choice(pool) if rng.random() < 0.8 else rng.getrandbits(128)
            if target in admins and len(admins) == 1 and rng.random() < 0.6:
                target = rng.choice(pool)
            idb = spell(rng, target)
            bad_id = rng.random() < 0.07
            if bad_id:
                idb = rng.choice(BAD_IDS + ODD_IDS)
            drop = refp.T_USER if rng.random() < 0.04 else None
            ops.append(req(cu, remove_body(idb, drop=drop), enc))
            if rng.random() < 0.04:
                ops[-1]["fault"] = True
            if served and not bad_id and drop is None and target in shadow:
                del shadow[target]
                if not any(p & 1 for p in shadow.values()):
                    shadow.clear()
        elif k < 0.92:
            if rng.random() < 0.12:
                ops.append(dict(RESTART))
            ops.append(req(cu, LIST_BODY, enc))
        else:
            m = rng.randrange(5)
            if m == 0:
                ops.append(req(cu, add_body(spell(rng, rng.choice(pool)), key_of(rng), b"\x01", rt=rng.choice([0, 1, 2, 6, 7, 255])), enc))
            elif m == 1:
                ops.append(req(cu, "", enc))
            elif m == 2:
                b = add_body(spell(rng, rng.choice(pool)), key_of(rng), b"\x01")
                ops.append(req(cu, b[: 2 * rng.randrange(len(b) // 2)], enc))
            elif m == 3:
                ops.append(req(cu, body_of([(0, b"")]), enc))
            else:
                ops.append(req(cu, hx(bytes(rng.randrange(256) for _ in range(rng.randrange(1, 12)))), enc))
    admins = [u for u, p in shadow.items() if p & 1]
    ops.append(req(admins[0] if admins else pool[0], LIST_BODY))
    return ops


def faulty(op):
    return {**op, "fault": True}


RESTART = {"k": "restart"}


def restart_scripts(ctx: Ctx):
    """A restart (fresh driver loads the file the implementation wrote) in the middle of the administration,
    for every identifier spelling family: the list afterwards must still show the registered bytes."""
    rng = ctx.rng
    out = []
    for how in range(N_SPELL):
        A, B = rng.getrandbits(128), rng.getrandbits(128)
        out.append(([setup(spell(rng, A, how), key_of(rng)), req(A, add_body(spell(rng, B, how), key_of(rng), bytes([how % 2]))), RESTART,
                     req(A, LIST_BODY), req(B, LIST_BODY), req(A, remove_body(spell(rng, B, (how + 1) % N_SPELL))), RESTART, req(A, LIST_BODY)], None))
    return out


def fault_scripts(ctx: Ctx):
    """Requests handled while the state file cannot be written (OSError from the save)."""
    rng = ctx.rng
    A, B = rng.getrandbits(128), rng.getrandbits(128)
    ka, kb = key_of(rng), key_of(rng)
    sA = setup(spell(rng, A, 1), ka)
    addB = req(A, add_body(spell(rng, B, 1), kb, b"\x00"))
    out = [
        [sA, faulty(addB), req(A, LIST_BODY), req(B, LIST_BODY)],
        [sA, faulty(req(A, add_body(spell(rng, B, 1), kb, b"\x01"))), req(B, LIST_BODY), req(A, LIST_BODY)],
        [sA, addB, faulty(req(A, remove_body(spell(rng, B, 1)))), req(A, LIST_BODY)],
        [sA, addB, faulty(req(A, add_body(spell(rng, B, 0), ka, b"\x01"))), req(A, LIST_BODY), req(B, LIST_BODY)],
        [sA, faulty(req(A, add_body(spell(rng, B, 1), kb, b""))), faulty(req(A, LIST_BODY)), faulty(req(B, add_body(spell(rng, B, 1), kb, b"\x01"))), req(A, LIST_BODY)],
        [faulty(sA), req(A, LIST_BODY), addB, req(A, LIST_BODY)],
        [sA, addB, faulty(req(A, remove_body(spell(rng, A, 1)))), req(B, LIST_BODY), req(A, LIST_BODY)],
    ]
    return [(ops, None) for ops in out]


START_ABSENT = ([], ["client_properties"], ["client_properties", "client_uuid_to_bytes"], ["client_uuid_to_bytes"],
                ["client_properties", "client_uuid_to_bytes", "accessories_hash"])


def make_start(rng, n: int, absent, perms=None):
    from props import c14 as _c14

    return {"state": _c14.authored_state(rng, n, perms=perms), "absent": list(absent)}


def loaded_start_scripts(ctx: Ctx):
    """Histories that begin with a restart: the real driver loads a state file (current format and the formats
    older releases wrote, 2..5 controllers), then the pairings are administered."""
    rng = ctx.rng
    out = []
    for absent in START_ABSENT:
        for n in (2, 3):
            start = make_start(rng, n, absent, perms=[1, 1, 0, 3])
            known = start_known(start)
            ids = [(u, idb if idb is not None else spell(rng, u, 1)) for u, idb, _k, _p in known]
            keys = {u: k for u, _i, k, _p in known}
            (a, ida), (b, idb_) = ids[0], ids[1]
            other = b if "client_properties" in absent else ids[0][0]
            for p in (b"\x00", b"\x01", b"\x02"):
                # an admin re-registers an imported controller with another permission byte; everybody asks for the list
                out.append(([req(a, LIST_BODY), req(a, add_body(idb_, keys[b], p)), req(a, LIST_BODY), req(b, LIST_BODY), req(other, LIST_BODY),
                             req(a, add_body(ida, keys[a], b"\x01")), req(a, LIST_BODY)], start))
            out.append(([req(a, remove_body(idb_)), req(a, LIST_BODY), req(b, LIST_BODY), req(a, add_body(idb_, key_of(rng), b"\x00")), req(a, LIST_BODY)], start))
            out.append(([req(a, add_body(spell(rng, rng.getrandbits(128)), key_of(rng), b"\x00")), req(a, remove_body(ida)), req(b, LIST_BODY), req(a, LIST_BODY)], start))
    for _ in range(ctx.n(120, 2500)):
        start = make_start(rng, rng.choice([2, 2, 3, 4, 5]), rng.choice(START_ABSENT), perms=[rng.choice([0, 1, 1, 3, 2, 255]) for _ in range(5)])
        known = start_known(start)
        out.append((random_script(ctx, pool=[u for u, *_ in known], shadow={u: p for u, _i, _k, p in known}), start))
    return out


def parse_table(ops) -> Dict[str, Optional[str]]:
    tbl: Dict[str, Optional[str]] = {}
    for op in ops:
        if op["k"] == "restart":
            continue
        if op["k"] == "setup":
            ids = [bytes.fromhex(op["id"])]
        else:
            it = lenient_items(bytes.fromhex(op["body"]))
            ids = [it[refp.T_USER]] if refp.T_USER in it else []
        for b in ids:
            u = parse_id(b)
            tbl[hx(b)] = str(u) if u is not None else None
    return tbl



# ----------------------------------------------------------------------------- real sessions
#
# Histories whose sessions are established by REAL pair-verify exchanges through the real handler
# (reference controller: harness/ref/c14_pairverify.py), including dishonest exchanges on an
# already verified connection. The oracle's notion of "who the connection is" is the controller
# that last PROVED its identity there (a signature the harness really made with the key that is
# registered for the claimed controller, accepted by the accessory).


def ctrl_pub(seed_hex: str) -> bytes:
    return refpv.controller_key(bytes.fromhex(seed_hex))[1]


def s_setup(idb: bytes, seed: bytes):
    return {"k": "setup", "id": hx(idb), "seed": hx(seed)}


def s_verify(c: int, idb: Optional[bytes], seed: bytes, proof: str = "sign", outer_ok: bool = True):
    return {"k": "verify", "c": c, "id": hx(idb) if idb is not None else None, "seed": hx(seed), "proof": proof, "outer_ok": outer_ok}


def s_req(c: int, body: str):
    return {"k": "req", "c": c, "body": body}


def registered_data(snap, ref: refp.RefPairings):
    """The pairing data of a State snapshot in the terms of the reference: {uuid: (recorded identifier bytes,
    key, admin?)}, and what the reference expects (None = bytes the observer never saw: anything goes)."""
    props = {u: p for u, p in snap["props"]}
    u2b = {u: b for u, b in snap["u2b"]}
    have = {int(u): (bytes.fromhex(u2b[u]) if u in u2b else None, bytes.fromhex(k), isinstance(props.get(u), int) and bool(props[u] & 1))
            for u, k in snap["paired"]}
    want = {u: (idb, key, bool(p & 1)) for u, (idb, key, p) in ref.entries.items()}
    return have, want


def registered_mismatch(snap, ref: refp.RefPairings) -> Optional[str]:
    have, want = registered_data(snap, ref)
    if set(have) != set(want):
        return f"{len(have)} controllers in the State maps, {len(want)} implied by the answers"
    for u, (idb, key, adm) in want.items():
        hidb, hkey, hadm = have[u]
        if hkey != key or hadm != adm:
            return "key or admin flag of a pairing differs from what the answers imply"
        if idb is not None and hidb != idb:
            return (f"the identifier bytes recorded for a pairing are {hidb!r}, it was registered with {idb!r}")
    return None


def full_state(real: "Real") -> Dict[str, Any]:
    d = real.ident()
    d.update(real.snapshot())
    return d


def run_real_sessions(ops: List[Dict[str, Any]], judge: bool = True, start: Optional[Dict[str, Any]] = None, on_restart=None,
                      cfg: Optional[Dict[str, Any]] = None, on_change=None):
    """Run one session history on the real code. `start` as in run_real (controllers own real key pairs).
    Whole-life operations: "config" (AccessoryDriver.config_changed), "hash" (what async_start does with the
    database hash), "restart" (a fresh driver + accessory load the state file; every connection is gone).
    "stop" / "start": AccessoryDriver.async_stop / async_start on the SAME driver object (needs cfg["live"]).
    `cfg`: configuration of every driver of the history: {"encoder": kind of application-supplied encoder, "live": bool}.
    `on_restart(i, state before, state after | None)`, `on_change(i, real)` (persisted state changed in step i and all
    background saves have landed): hooks for the C14 oracle.
    Returns (ident, steps, verdict, abstained, init snapshot | None)."""
    cfg = cfg or {}
    enc, live = cfg.get("encoder", "stock"), bool(cfg.get("live"))
    init = None
    ref: Optional[refp.RefPairings] = refp.RefPairings()
    if start is None:
        real = Real(with_accessory=True, encoder=enc, live=live)
    else:
        from props import c14 as _c14

        holder = os.path.join(_tmpdir(), f"sstart-{os.getpid()}-{Real._n}.state")
        with open(holder, "w", encoding="utf8") as fh:  # the historical document inside the envelope of the encoder in use
            fh.write(refenc.ENVELOPES[enc].wrap(json.dumps(_c14.doc_to_json(_c14.author_doc(start["state"], start["absent"])))))
        try:
            real = Real(with_accessory=True, state_file_from=holder, encoder=enc, live=live)  # add_accessory loads the file
        finally:
            os.remove(holder)
        init = real.snapshot()
        for u, idb, key, perm in start_known(start):
            ref.registered(u, idb, key, perm)
        if pairing_set(init) != ref.pairing_set():
            ref = None
    try:
        ident = real.ident()
        acc_id, acc_ltpk = real.state.mac.encode(), bytes.fromhex(ident["public_key"])
        conns: Dict[int, Any] = {}
        proved: Dict[int, Optional[int]] = {}
        steps = []
        v = Verdict()

        def conn(c):
            if c not in conns:
                conns[c] = real.connection()
            return conns[c]

        def sess(h):
            return {"enc": bool(h.is_encrypted), "cu": str(h.client_uuid.int) if h.client_uuid is not None else None}

        prev_full = full_state(real)

        def changed_hook(i):
            nonlocal prev_full
            cur = full_state(real)
            if cur != prev_full:
                prev_full = cur
                if on_change:
                    on_change(i, real)

        for i, op in enumerate(ops):
            if i:
                changed_hook(i - 1)
            before = real.snapshot()
            sig0 = real.file_sig()
            if op["k"] in ("config", "hash", "start"):
                err = None
                hash_in = None
                try:
                    if op["k"] == "config":
                        real.call(real.driver.config_changed)  # increment_config_version + persist (+ advertisement: C18)
                    elif op["k"] == "start":
                        hash_in = real.driver.accessories_hash  # what async_start hands to set_accessories_hash
                        real.start()
                    else:

                        def _hash_update():  # AccessoryDriver.async_start
                            if real.state.set_accessories_hash(op["h"]):
                                real.driver.async_persist()

                        real.call(_hash_update)
                except Exception as ex:  # noqa: BLE001  (what the implementation did is an observation, never a harness error)
                    err = type(ex).__name__
                wrote = real.file_sig() != sig0
                step = {"acc": full_state(real), "wrote": wrote, "doc": real.file_doc() if wrote else None}
                if op["k"] == "start":
                    step["hash_in"] = hash_in
                if err:
                    step["raised"] = err
                steps.append(step)
                continue
            if op["k"] == "stop":
                err = None
                try:
                    real.stop()  # the same object lives on; every connection of the server is closed
                except Exception as ex:  # noqa: BLE001
                    err = type(ex).__name__
                conns.clear()
                proved.clear()
                step = {"stopped": True, "acc": full_state(real)}
                if err:
                    step["raised"] = err
                steps.append(step)
                continue
            if op["k"] == "restart":
                memory = full_state(real)
                try:
                    nxt = Real(with_accessory=True, state_file_from=real.path, encoder=enc, live=live)  # add_accessory loads the file
                except Exception as ex:  # noqa: BLE001  (what a save + load preserves is C14's statement: stop here)
                    steps.append({"restarted": False, "error": type(ex).__name__})
                    if on_restart:
                        on_restart(i, memory, None)
                    ref = None
                    break
                real.close()
                real = nxt
                conns.clear()
                proved.clear()
                acc_id, acc_ltpk = real.state.mac.encode(), bytes.fromhex(real.ident()["public_key"])
                loaded = full_state(real)
                prev_full = loaded
                steps.append({"restarted": True, "acc": loaded})
                if on_restart:
                    on_restart(i, memory, loaded)
                if ref is not None and (pairing_set(real.snapshot()) != ref.pairing_set() or registered_mismatch(real.snapshot(), ref)):
                    ref = None  # C14's statement; only the model comparison goes on
                continue
            if op["k"] == "setup":
                key = ctrl_pub(op["seed"])
                try:
                    real.call(real.driver.pair, bytes.fromhex(op["id"]), key, b"\x01")
                    code = 200
                except Exception:  # noqa: BLE001
                    code = 500
                after = real.snapshot()
                steps.append({"resp": {"code": code}, "state": after, "wrote": real.file_sig() != sig0})
                if judge and ref is not None and v.sig is None:
                    ref = judge_step(v, ref, i, {"k": "setup", "id": op["id"], "key": hx(key)}, before, after, code, b"")
            elif op["k"] == "verify":
                post, h = conn(op["c"])
                idb = bytes.fromhex(op["id"]) if op["id"] is not None else None
                try:
                    res = refpv.pair_verify_ex(lambda b: post("/pair-verify", b), idb, bytes.fromhex(op["seed"]), acc_ltpk, acc_id,
                                               proof=op["proof"], outer_ok=op["outer_ok"])
                except Exception as ex:  # noqa: BLE001
                    res = "controller error " + type(ex).__name__
                after = real.snapshot()
                steps.append({"verified": res == "verified", "sess": sess(h), "state": after, "wrote": real.file_sig() != sig0})
                if judge and ref is not None:
                    u = parse_id(idb) if idb is not None else None
                    proves = (op["proof"] == "sign" and op["outer_ok"] and u is not None and u in ref.entries
                              and ref.entries[u][1] == ctrl_pub(op["seed"]))
                    if res == "verified" and proves:
                        proved[op["c"]] = u
                    # only admin /pairings requests change pairing data: keys, permissions and RECORDED identifier bytes
                    # must be what they were (a controller for which no bytes were recorded may get them filled in)
                    b2, a2 = {x: y for x, y in before["u2b"]}, {x: y for x, y in after["u2b"]}
                    touched = [x for x in b2 if a2.get(x) != b2[x]]
                    if pairing_set(after) != pairing_set(before) or before["props"] != after["props"] or touched:
                        what = ("rewrote the identifier bytes recorded for a controller" if touched else "changed keys / permissions / the set of pairings")
                        v.fail("C06:pairing-data-changed-outside-admin-request",
                               f"a pair-verify exchange ({'accepted' if res == 'verified' else 'refused'}; identifier sent as {idb!r}) {what}: "
                               "list-pairings will no longer return the bytes the controller was registered with", i)
            else:
                post, h = conn(op["c"])
                code, body = post("/pairings", bytes.fromhex(op["body"]))
                after = real.snapshot()
                wrote = real.file_sig() != sig0
                resp = {"code": 200, "body": hx(body), "pc": post.pairing_changed} if code == 200 else {"code": code}
                steps.append({"resp": resp, "state": after, "wrote": wrote, "doc": real.file_doc() if wrote else None, "sess": sess(h),
                              "pr": post.pairing_removed})
                if judge and ref is not None and v.sig is None:
                    who = proved.get(op["c"])
                    synth = {"k": "req", "enc": who is not None, "cu": str(who) if who is not None else None, "body": op["body"]}
                    ref = judge_step(v, ref, i, synth, before, after, code, body)
            if judge and ref is not None and v.sig is None:
                bad = registered_mismatch(real.snapshot(), ref)
                if bad:
                    v.fail("C06:pairings-differ-from-history", f"after step {i} ({op['k']}) {bad}", i)
        if ops and len(steps) == len(ops):
            changed_hook(len(ops) - 1)
        if v.sig == "C06:served-without-admin":
            v.desc += " (sessions from real pair-verify exchanges; identity = the controller that last proved itself on the connection)"
        return ident, steps, v, ref is None, init
    finally:
        real.close()


def sessions_model_line(ops, ident, init=None, steps=None):
    """`steps`: the observed steps (a "start" op is the hash update of async_start: its input, the driver's
    accessories_hash, is read off the observation)."""
    mops, tbl = [], {}

    def note(b: bytes):
        u = parse_id(b)
        tbl[hx(b)] = str(u) if u is not None else None

    for j, op in enumerate(ops):
        if op["k"] == "start":
            h_in = steps[j].get("hash_in") if steps is not None and j < len(steps) else None
            mops.append({"k": "hash", "h": h_in})
        elif op["k"] == "stop":
            mops.append({"k": "stop"})
        elif op["k"] == "setup":
            mops.append({"k": "setup", "id": op["id"], "key": hx(ctrl_pub(op["seed"]))})
            note(bytes.fromhex(op["id"]))
        elif op["k"] == "verify":
            mops.append({"k": "verify", "c": op["c"], "outer_ok": op["outer_ok"], "id": op["id"],
                         "signer": hx(ctrl_pub(op["seed"])) if op["proof"] == "sign" else None})
            if op["id"] is not None:
                note(bytes.fromhex(op["id"]))
        elif op["k"] in ("config", "hash", "restart"):
            mops.append(op)
        else:
            mops.append(op)
            it = lenient_items(bytes.fromhex(op["body"]))
            if refp.T_USER in it:
                note(it[refp.T_USER])
    ln = {"layer": "pairstate", "op": "sessions", "ident": ident, "parse": tbl, "ops": mops}
    if init is not None:
        ln["init"] = init
    return ln


DISHONEST = [("garbage", True), ("foreign", True), ("wrong-material", True), ("missing", True), ("sign", False), ("garbage", False)]


def _ctrl(rng, how=None):
    u = rng.getrandbits(128)
    return {"u": u, "id": spell(rng, u, how), "seed": key_of(rng)}


def dishonest(c: int, claimed: Optional[Dict[str, Any]], me: Dict[str, Any], mode):
    """A pair-verify exchange on connection `c` that claims `claimed` but cannot prove it. "foreign":
    a perfectly good signature, made with the caller's own key."""
    proof, outer_ok = mode
    idb = claimed["id"] if claimed is not None else None
    return s_verify(c, idb, me["seed"], "sign" if proof == "foreign" else proof, outer_ok)


def respelled(rng, c: Dict[str, Any], how: Optional[int] = None) -> bytes:
    """Another spelling of the controller's identifier (same UUID, other bytes)."""
    for _ in range(20):
        b = spell(rng, c["u"], how)
        if b != c["id"]:
            return b
        how = None
    return c["id"].swapcase()


def session_start(rng, cs, perms, absent):
    """A start document whose controllers own real key pairs (so they can pair-verify after the load)."""
    from props import c14 as _c14

    st = _c14.authored_state(rng, 0)
    st["paired"] = [[str(c["u"]), hx(ctrl_pub(hx(c["seed"])))] for c in cs]
    st["props"] = [[str(c["u"]), p] for c, p in zip(cs, perms)]
    st["u2b"] = [[str(c["u"]), hx(c["id"])] for c in cs]
    return {"state": st, "absent": list(absent)}


def spelling_session_scripts(ctx: Ctx):
    """Genuine pair-verify exchanges that spell the identifier differently from the registered bytes (every
    family), by admins and by plain users, then lists; and exchanges after a restart from a file without
    recorded bytes (the documented back-fill). Returns [(ops, start)]."""
    rng = ctx.rng
    out = []
    for how in range(N_SPELL):
        A, B = _ctrl(rng, (how + 1) % N_SPELL), _ctrl(rng, (how + 3) % N_SPELL)
        base = [s_setup(A["id"], A["seed"]), s_verify(0, A["id"], A["seed"]), s_req(0, add_body(B["id"], ctrl_pub(hx(B["seed"])), b"\x00"))]
        # the USER verifies with another spelling; the admin too; everybody lists
        out.append((base + [s_verify(1, respelled(rng, B, how), B["seed"]), s_req(0, LIST_BODY), s_verify(2, respelled(rng, A, how), A["seed"]),
                            s_req(2, LIST_BODY), s_req(1, LIST_BODY), s_verify(1, B["id"], B["seed"]), s_req(0, LIST_BODY)], None))
        # a dishonest exchange with another spelling must not touch anything either
        out.append((base + [dishonest(1, {"id": respelled(rng, B, how)}, A, DISHONEST[how % len(DISHONEST)]), s_req(0, LIST_BODY)], None))
    for absent in (["client_uuid_to_bytes"], ["client_properties", "client_uuid_to_bytes"], ["client_properties"], []):
        for how in (0, 4, 2):
            A, B = _ctrl(rng, 1), _ctrl(rng, how)
            start = session_start(rng, [A, B], [1, 0], absent)
            out.append(([s_verify(0, respelled(rng, B), B["seed"]), s_verify(1, A["id"], A["seed"]), s_req(1, LIST_BODY),
                         s_verify(0, B["id"], B["seed"]), s_req(1, LIST_BODY), s_req(1, add_body(B["id"], ctrl_pub(hx(B["seed"])), b"\x01")),
                         s_verify(2, respelled(rng, B), B["seed"]), s_req(2, LIST_BODY)], start))
    return out


def session_boundary_scripts(ctx: Ctx):
    rng = ctx.rng
    out = []
    A, B, C, X = _ctrl(rng, 1), _ctrl(rng, 1), _ctrl(rng, 0), _ctrl(rng, 1)
    base = [s_setup(A["id"], A["seed"]), s_verify(0, A["id"], A["seed"]),
            s_req(0, add_body(B["id"], ctrl_pub(hx(B["seed"])), b"\x00")),
            s_req(0, add_body(C["id"], ctrl_pub(hx(C["seed"])), b"\x00")),
            s_verify(1, B["id"], B["seed"])]
    followups = [LIST_BODY, add_body(B["id"], ctrl_pub(hx(B["seed"])), b"\x01"), remove_body(A["id"])]
    for mode in DISHONEST:
        for claimed in (A, C, X, None):
            for fu in followups:
                # verified as non-admin B, then a failing exchange naming someone else on the same connection
                out.append(base + [dishonest(1, claimed, B, mode), s_req(1, fu), s_req(0, LIST_BODY)])
        # the same on a fresh connection, and on the admin's own connection (which must keep working)
        out.append(base + [dishonest(2, A, B, mode), s_req(2, LIST_BODY), s_req(2, followups[1])])
        out.append(base + [dishonest(0, B, A, mode), s_req(0, LIST_BODY), dishonest(0, X, A, mode), s_req(0, followups[1]), s_req(0, LIST_BODY)])
    # honest re-verify as another controller; removal / demotion while the session is open
    out.append(base + [s_verify(1, A["id"], A["seed"]), s_req(1, LIST_BODY), s_verify(1, B["id"], B["seed"]), s_req(1, LIST_BODY)])
    out.append(base + [s_req(0, add_body(B["id"], ctrl_pub(hx(B["seed"])), b"\x01")), s_req(1, LIST_BODY),
                       s_req(0, remove_body(B["id"])), s_req(1, LIST_BODY), dishonest(1, A, B, DISHONEST[0]), s_req(1, LIST_BODY)])
    out.append(base + [s_req(0, add_body(B["id"], ctrl_pub(hx(B["seed"])), b"\x03")), s_req(1, followups[2]), s_req(1, LIST_BODY), s_req(0, LIST_BODY)])
    out.append([s_verify(0, A["id"], A["seed"]), s_req(0, LIST_BODY)] + base[:2] + [s_req(0, LIST_BODY)])  # nothing paired yet
    return out


def random_session_script(ctx: Ctx):
    rng = ctx.rng
    cs = [_ctrl(rng) for _ in range(rng.choice([2, 3, 3, 4]))]
    X = _ctrl(rng)
    ops = [s_setup(cs[0]["id"], cs[0]["seed"]), s_verify(0, cs[0]["id"], cs[0]["seed"])]
    for k, c in enumerate(cs[1:], 1):
        ops.append(s_req(0, add_body(c["id"], ctrl_pub(hx(c["seed"])), bytes([rng.choice([0, 0, 0, 1, 2, 3])]))))
    owner: Dict[int, Dict[str, Any]] = {0: cs[0]}
    for _ in range(rng.randrange(4, 13)):
        r = rng.random()
        c = rng.randrange(0, 4)
        me = owner.get(c) or rng.choice(cs)
        if r < 0.22:
            ops.append(s_verify(c, me["id"] if rng.random() < 0.6 else respelled(rng, me), me["seed"]))  # often another spelling of itself
            owner[c] = me
        elif r < 0.50:
            claimed = rng.choice(cs + [X, None]) if rng.random() < 0.8 else cs[0]
            ops.append(dishonest(c, claimed, me, rng.choice(DISHONEST)))
        elif r < 0.70:
            ops.append(s_req(c, LIST_BODY))
        elif r < 0.88:
            t = rng.choice(cs)
            ops.append(s_req(c, add_body(t["id"], ctrl_pub(hx(t["seed"])), bytes([rng.choice([0, 1, 1, 2, 3])]) if rng.random() < 0.9 else b"")))
        else:
            t = rng.choice(cs[1:] + [X]) if rng.random() < 0.8 else cs[0]
            ops.append(s_req(c, remove_body(t["id"])))
    for c in sorted(owner):
        ops.append(s_req(c, LIST_BODY))
    return ops


def life_config():
    return {"k": "config"}


def life_hash(h):
    return {"k": "hash", "h": h}


LIFE_RESTART = {"k": "restart"}


LIFE_START = {"k": "start"}
LIFE_STOP = {"k": "stop"}


def lifecycle_normal(ops):
    """Keep start / stop ops legal: start only a stopped driver object, stop only a running one (a restart gives a
    fresh, not yet started one); a driver that was stopped serves nothing until it is started again."""
    out, running, after_stop = [], False, False
    for op in ops:
        if op["k"] == "start":
            if running:
                continue
            running, after_stop = True, False
        elif op["k"] == "stop":
            if not running:
                continue
            running, after_stop = False, True
        elif op["k"] == "restart":
            running, after_stop = False, False
        elif after_stop:
            out.append(dict(LIFE_START))
            running, after_stop = True, False
        out.append(dict(op))
    return out


def whole_life_scripts(ctx: Ctx):
    """Whole-life histories (model: `hstep` / `hrun`): pairing administration on real sessions interleaved with
    configuration-number increments (incl. the wrap at 65535), database-hash updates, RESTARTS (fresh driver on the
    file) and STOP / START of the same driver object — after a restart or a stop every connection is gone, the pairings,
    permissions, identifier bytes and identity are what they were, and controllers verify and list again. Every history
    runs under a configuration: the kind of application-supplied AccessoryEncoder (stock, checksummed, base64, JSON
    envelope) and a live driver (real async_persist on the application's loop, application-owned zeroconf instance).
    Returns [(ops, start, cfg)]."""
    rng = ctx.rng
    out = []
    kinds = refenc.KINDS

    def cfg(k):
        return {"encoder": kinds[k % len(kinds)], "live": True}

    for how in range(N_SPELL):
        A, B = _ctrl(rng, how), _ctrl(rng, (how + 5) % N_SPELL)
        addB = s_req(0, add_body(B["id"], ctrl_pub(hx(B["seed"])), bytes([how % 4])))
        out.append(([LIFE_START, s_setup(A["id"], A["seed"]), s_verify(0, A["id"], A["seed"]), LIFE_STOP, LIFE_START,
                     s_verify(0, A["id"], A["seed"]), addB, dict(LIFE_RESTART),  # second run of the same object, then a fresh one
                     s_req(0, LIST_BODY),  # the old connection number is a NEW connection now: nobody proved anything on it
                     LIFE_START, s_verify(1, respelled(rng, B, how), B["seed"]), s_verify(0, A["id"], A["seed"]), s_req(0, LIST_BODY), s_req(1, LIST_BODY),
                     life_config(), life_hash("ab" * 16), life_hash("ab" * 16), LIFE_STOP, LIFE_START, s_verify(0, A["id"], A["seed"]),
                     s_req(0, remove_body(B["id"])), dict(LIFE_RESTART),
                     s_verify(2, B["id"], B["seed"]), s_verify(3, A["id"], A["seed"]), s_req(3, LIST_BODY)], None, cfg(how)))
    A, B = _ctrl(rng, 1), _ctrl(rng, 0)
    for k in range(len(kinds)):
        # a driver that is never started (objects only), and one started twice in a row around a configuration change
        out.append(([s_setup(A["id"], A["seed"]), s_verify(0, A["id"], A["seed"]), s_req(0, add_body(B["id"], ctrl_pub(hx(B["seed"])), b"\x82")),
                     life_config(), dict(LIFE_RESTART), s_verify(0, A["id"], A["seed"]), s_req(0, LIST_BODY)], None, cfg(k)))
        out.append(([LIFE_START, LIFE_STOP, LIFE_START, s_setup(A["id"], A["seed"]), LIFE_STOP, LIFE_START, life_config(), LIFE_STOP, dict(LIFE_RESTART),
                     LIFE_START, s_verify(0, A["id"], A["seed"]), s_req(0, LIST_BODY)], None, cfg(k)))
    # last admin removed, restart: nothing is paired, stale identifier bytes stay inert
    out.append(([s_setup(A["id"], A["seed"]), s_verify(0, A["id"], A["seed"]), s_req(0, add_body(B["id"], ctrl_pub(hx(B["seed"])), b"\x00")),
                 s_req(0, remove_body(A["id"])), dict(LIFE_RESTART), s_verify(0, B["id"], B["seed"]), s_verify(1, A["id"], A["seed"]),
                 s_setup(B["id"], B["seed"]), s_verify(1, B["id"], B["seed"]), s_req(1, LIST_BODY)], None, cfg(0)))
    # legacy starts: restart again after the back-fill; configuration number at the edge
    for k, absent in enumerate((["client_uuid_to_bytes"], ["client_properties", "client_uuid_to_bytes"], ["client_properties"])):
        start = session_start(rng, [A, B], [1, 0], absent)
        start["state"]["config_version"] = 65534
        out.append(([s_verify(0, respelled(rng, B), B["seed"]), dict(LIFE_RESTART), LIFE_START, s_verify(1, A["id"], A["seed"]), s_req(1, LIST_BODY), life_config(),
                     dict(LIFE_RESTART), life_config(), life_hash(None), life_hash("cd" * 32), LIFE_START, LIFE_STOP, LIFE_START,
                     s_verify(0, respelled(rng, A), A["seed"]), dict(LIFE_RESTART), s_verify(0, A["id"], A["seed"]), s_req(0, LIST_BODY)], start, cfg(k + 1)))
    for n in range(ctx.n(60, 1200)):
        ops = random_session_script(ctx)
        started = rng.random() < 0.7
        for _ in range(rng.randrange(1, 4)):
            pos = rng.randrange(2, len(ops) + 1)
            extra = rng.choice([[dict(LIFE_RESTART)] + ([LIFE_START] if started else []), [dict(LIFE_RESTART)] + ([LIFE_START] if started else []),
                                [life_config()], [life_hash(rng.choice([None, "", "ab" * 32, hx(key_of(rng))]))],
                                [LIFE_STOP, LIFE_START], [LIFE_STOP, LIFE_START]])
            ops[pos:pos] = extra
        if started:
            ops.insert(rng.randrange(0, 3), LIFE_START)
        out.append((ops, None, cfg(rng.randrange(len(kinds)) if rng.random() < 0.6 else 0)))
    return [(lifecycle_normal(o), st_, c) for o, st_, c in out]


def record_session_failure(ctx: Ctx, ops, v: Verdict, start=None, cfg=None):
    cut = ops[: v.at + 1]

    def still(cand):
        try:
            return run_real_sessions(lifecycle_normal(cand), start=start, cfg=cfg)[2].sig == v.sig
        except Exception:  # noqa: BLE001
            return False

    small = lifecycle_normal(delta_min(cut, still))
    v2 = run_real_sessions(small, start=start, cfg=cfg)[2]
    desc = v2.desc if v2.sig == v.sig else v.desc
    payload = {"kind": "sessions", "ops": small, "signature": v.sig}
    if cfg:
        payload["cfg"] = cfg
    if start is not None:
        payload["start"] = start
    ctx.fail(v.sig, f"{desc} [history of {len(small)} step(s) incl. pair-verify exchanges"
             + (f", after a restart from a state file without {start['absent'] or 'no member'}" if start else "") + "]", payload)


def compare_sessions(ctx: Ctx, driver: str, scripts, lines, impl):
    """Differential tie of session / whole-life histories: model (`hstep`) vs observed steps."""
    st = ctx.stats
    model = run_model_parallel(driver, lines)
    for ops, m, steps in zip(scripts, model, impl):
        st.traces_validated += 1
        if "steps" not in m:
            ctx.disagree("sessions", {"ops": ops[:6]}, m, None)
            continue
        ms = []
        for op, x in zip(ops, m["steps"]):
            x = dict(x)
            if op["k"] == "setup":
                x["resp"] = {"code": x["resp"]["code"]}
            ms.append(x)
        steps = [{k: v_ for k, v_ in s_.items() if k != "hash_in"} for s_ in steps]
        if ms != steps:
            j = next((k for k, (a, b) in enumerate(zip(ms, steps)) if a != b), min(len(ms), len(steps)))
            a, b = (ms[j] if j < len(ms) else {}), (steps[j] if j < len(steps) else {})
            field = next((f for f in ("raised", "verified", "sess", "resp", "state", "wrote", "doc", "pr", "restarted", "stopped", "acc") if a.get(f) != b.get(f)), "?")
            if field == "acc" and isinstance(a.get("acc"), dict) and isinstance(b.get("acc"), dict):
                sub = next((f for f in b["acc"] if a["acc"].get(f) != b["acc"].get(f)), "?")
                field, a, b = "acc/" + sub, {"acc/" + sub: a["acc"].get(sub)}, {"acc/" + sub: b["acc"].get(sub)}
            if field == "state" and isinstance(a.get("state"), dict) and isinstance(b.get("state"), dict):
                field = "state/" + next((f for f in ("paired", "props", "u2b") if a["state"].get(f) != b["state"].get(f)), "?")
                a, b = {field: a["state"]}, {field: b["state"]}
            ctx.disagree(f"sessions/{field}", {"ops": ops[: j + 1], "step": j}, a.get(field), b.get(field))
    return model


def run_sessions(ctx: Ctx):
    st = ctx.stats
    cases = [(o, None, None) for o in session_boundary_scripts(ctx)] + [(o, s_, None) for o, s_ in spelling_session_scripts(ctx)]
    nb = len(cases)
    for _ in range(ctx.n(160, 3000)):
        cases.append((random_session_script(ctx), None, None))
    life = whole_life_scripts(ctx)
    cases += life
    st.notes.append(f"whole-life stream: {len(life)} histories over the full alphabet of the model's `hstep` (real sessions + configuration-number "
                    "increments + hash updates + restarts through the real state file + stop / start of the same driver object), each under a configuration "
                    "(application-supplied encoder: stock / checksummed / base64 / JSON envelope; live driver = real async_persist on the application's loop); "
                    "after a restart the model predicts the loaded state itself")
    st.notes.append(f"session stream: {nb} deterministic + {len(cases) - nb - len(life)} random histories with real pair-verify exchanges "
                    "(honest ones spelling the identifier as registered or in another of the 10 families, dishonest ones on fresh and on "
                    "already verified connections, some after a restart from a file without recorded identifier bytes); pairing data "
                    "incl. recorded identifier bytes judged after EVERY step")
    lines, impl = [], []
    ran = []
    for ops, start, cfg in cases:
        try:
            ident, steps, v, abstained, init = run_real_sessions(ops, start=start, cfg=cfg)
        except Exception as ex:  # noqa: BLE001  an exception escaped the implementation where the model predicts none
            import traceback

            st.hit("outcome", f"exception-observed/sessions/{type(ex).__name__}")
            ctx.disagree("exception/sessions", {"ops": [o["k"] for o in ops]}, "no exception",
                         "".join(traceback.format_exception(type(ex), ex, ex.__traceback__))[-700:])
            continue
        ran.append(ops)
        lines.append(sessions_model_line(ops, ident, init, steps))
        impl.append(steps)
        if cfg:
            st.hit("outcome", f"life-config/encoder:{cfg.get('encoder')}/{'live' if cfg.get('live') else 'objects'}")
        if v.sig is not None:
            record_session_failure(ctx, ops, v, start, cfg)
            st.hit("outcome", "oracle:" + v.sig)
        tr = []
        for op, s_ in zip(ops, steps):
            if op["k"] == "verify":
                mode = ("signed" if op["proof"] == "sign" and op["outer_ok"] else op["proof"] + ("" if op["outer_ok"] else "+wrong-outer-key"))
                st.hit("op", "pair-verify")
                st.hit("outcome", f"pair-verify/{mode}/{'verified' if s_['verified'] else 'refused'}")
                if s_.get("wrote"):
                    st.hit("outcome", "pair-verify/back-filled-missing-identifier-bytes")
                tr.append(["v", op["c"], mode, s_["verified"], s_["sess"]["enc"]])
            elif op["k"] == "req":
                r = s_["resp"]
                outc = r["code"] if r["code"] != 200 else ("err" if refp.answer_is_error(200, bytes.fromhex(r["body"])) else "ok")
                it = lenient_items(bytes.fromhex(op["body"]))
                st.hit("op", "session-" + {3: "add", 4: "remove", 5: "list"}.get(it[0][0] if it.get(0) else None, "malformed"))
                st.hit("outcome", f"session-request/{'verified' if s_['sess']['enc'] else 'unverified'}-connection/{outc}")
                tr.append(["r", op["c"], it[0][0] if it.get(0) else None, outc, len(s_["state"]["paired"])])
            elif op["k"] == "stop":
                st.hit("op", "life-stop")
                tr.append(["stop"])
            elif op["k"] in ("config", "hash", "start"):
                st.hit("op", "life-" + op["k"])
                st.hit("outcome", f"life-{op['k']}/" + ("saved" if s_.get("wrote") else "unchanged"))
                tr.append([op["k"], s_.get("wrote"), s_["acc"]["config_version"] if "acc" in s_ else None])
            elif op["k"] == "restart":
                st.hit("op", "life-restart")
                st.hit("outcome", "life-restart/" + ("loaded" if s_.get("restarted") else "load-failed"))
                tr.append(["restart", s_.get("restarted"), len(s_.get("acc", {}).get("paired", []))])
            else:
                tr.append(["s", s_["resp"]["code"]])
        st.case(["sessions", tr], True)
    scripts = ran
    model = compare_sessions(ctx, "C06", scripts, lines, impl)
    if scripts:
        st.sample({"session_ops": [{k: (v_[:24] + "..." if isinstance(v_, str) and len(v_) > 24 else v_) for k, v_ in o.items()} for o in scripts[0][4:7]],
                   "impl_steps": [{k: v_ for k, v_ in s_.items() if k in ("verified", "sess", "resp")} for s_ in impl[0][4:7]],
                   "model_agrees": "steps" in model[0]})


# ----------------------------------------------------------------------------- entry points


def abstract_trace(ops, steps):
    tr = []
    for op, s in zip(ops, steps):
        if op["k"] == "restart":
            tr.append(["restart", s["restart"][:6], len(s.get("state", {}).get("paired", []))])
        elif op["k"] == "setup":
            tr.append(["setup", s["resp"]["code"], len(s["state"]["paired"])])
        else:
            it = lenient_items(bytes.fromhex(op["body"]))
            kind = it[0][0] if it.get(0) else None
            conn = "unv" if (op["cu"] is None or not op["enc"]) else "ver"
            r = s["resp"]
            outc = r["code"] if r["code"] != 200 else ("err" if refp.answer_is_error(200, bytes.fromhex(r["body"])) else "ok")
            tr.append([kind, conn, outc, len(s["state"]["paired"]), len(s["state"]["u2b"]), len(it.get(11, b"")) if kind == 3 else -1])
    return tr


def segments(ops, steps, ident, init):
    """Cut an executed history at its restarts: [(ops, steps, ident, init)] with the state observed after each
    load as the start of the next piece (the model is compared piecewise; the restart itself is C14's)."""
    out, cur_ops, cur_steps = [], [], []
    for op, s in zip(ops, steps):
        if op["k"] == "restart":
            out.append((cur_ops, cur_steps, ident, init))
            if "state" not in s:
                return [x for x in out if x[0]]
            cur_ops, cur_steps, ident, init = [], [], s["ident"], s["state"]
        else:
            cur_ops.append(op)
            cur_steps.append(s)
    out.append((cur_ops, cur_steps, ident, init))
    return [x for x in out if x[0]]


def model_lines(scripts, idents, inits=None):
    out = []
    for k, (ops, idn) in enumerate(zip(scripts, idents)):
        ln = {"layer": "pairstate", "op": "script", "ident": idn, "parse": parse_table(ops), "ops": ops}
        if inits is not None and inits[k] is not None:
            ln["init"] = inits[k]  # the state the real load produced (public State maps)
        out.append(ln)
    return out


def canon_model_steps(ops, msteps):
    out = []
    for op, s in zip(ops, msteps):
        s = dict(s)
        if op["k"] == "setup":
            s["resp"] = {"code": s["resp"]["code"]}
        if op.get("fault"):
            s.pop("wrote", None), s.pop("doc", None)
        out.append(s)
    return out


def minimise(ops, sig, start=None):
    def still(cand):
        try:
            return run_real(cand, start=start)[2].sig == sig
        except Exception:  # noqa: BLE001
            return False

    return delta_min(ops, still)


def record_failure(ctx: Ctx, ops, v: Verdict, start=None):
    cut = ops[: v.at + 1]
    small = minimise(cut, v.sig, start)
    v2 = run_real(small, start=start)[2]
    desc = v2.desc if v2.sig == v.sig else v.desc
    where = ""
    payload = {"kind": "script", "ops": small, "signature": v.sig}
    if start is not None:
        payload["start"] = start
        where = (f" after a restart from a state file without {start['absent']}" if start["absent"] else " after a restart from a state file") \
            + f" holding {len(start['state']['paired'])} controllers"
    ctx.fail(v.sig, f"{desc} [history of {len(small)} request(s){where}]", payload)


def run(ctx: Ctx):
    st = ctx.stats
    st.rule = (
        "one case = one history (pair-setup completions + POST /pairings requests: add/remove/list/malformed; admin, "
        "non-admin, unverified and inconsistent connections; permission items of length 0..3, every permission byte; "
        "10 identifier spellings, bad and odd identifiers; keys of 0..600 bytes; requests handled while the state-file write "
        "raises OSError; histories that start from a state loaded by the real driver from a current / legacy state file). Non-trivial: at least one request is "
        "refused, answered with an error, or changes a State map. Distinct by the abstract trace (request type, connection "
        "class, outcome class, number of pairings / recorded ids after each step, permission item length)."
    )
    cases = [(ops, None) for ops in boundary_scripts(ctx)] + fault_scripts(ctx) + restart_scripts(ctx)
    n_boundary = len(cases)
    for _ in range(ctx.n(1400, 18000)):
        cases.append((random_script(ctx), None))
    n_mem = len(cases)
    cases += loaded_start_scripts(ctx)
    scripts = [ops for ops, _ in cases]

    segs = []
    impl_all = []
    for ops, start in cases:
        ident, steps, v, abstained, init = run_real(ops, start=start)
        segs += segments(ops, steps, ident, init)
        impl_all.append(steps)
        if start is not None:
            st.hit("outcome", "start/loaded-file-without:" + ("+".join(start["absent"]) or "nothing"))
        if any(op.get("fault") for op in ops):
            st.hit("outcome", "history-with-failing-state-file-write")
        if v.sig is not None:
            record_failure(ctx, ops, v, start)
            st.hit("outcome", "oracle:" + v.sig)
        if abstained:
            st.hit("outcome", "oracle-abstained")
        tr = abstract_trace(ops, steps)
        nontriv = any(t[0] == "setup" or t[2] != "ok" or t[0] in (3, 4) for t in tr)
        st.case(tr, nontriv)
        for t in tr:
            if t[0] == "restart":
                st.hit("op", "restart")
                st.hit("outcome", "restart/" + t[1])
                continue
            st.hit("op", "setup" if t[0] == "setup" else {3: "add", 4: "remove", 5: "list"}.get(t[0], "malformed"))
            if t[0] == "setup":
                st.hit("outcome", f"setup-{t[1]}")
            else:
                st.hit("outcome", f"{ {3: 'add', 4: 'remove', 5: 'list'}.get(t[0], 'malformed') }/{t[1]}/{t[2]}".replace(" ", ""))
    st.notes.append(f"{n_boundary} deterministic boundary histories first (incl. requests handled while the state file cannot be written), "
                    f"then {n_mem - n_boundary} random ones, then {len(cases) - n_mem} histories that start with a restart from a "
                    "harness-authored state file (current and older formats) loaded by the real driver")

    model = run_model_parallel("C06", model_lines([x[0] for x in segs], [x[2] for x in segs], [x[3] for x in segs]))
    for (ops, steps, _idn, _ini), m in zip(segs, model):
        st.traces_validated += 1
        if "steps" not in m:
            ctx.disagree("pairstate", {"ops": ops[:6]}, m, None)
            continue
        ms = canon_model_steps(ops, m["steps"])
        if ms != steps:
            j = next((k for k, (a, b) in enumerate(zip(ms, steps)) if a != b), min(len(ms), len(steps)))
            field = next((f for f in ("resp", "state", "wrote", "doc", "pr") if j < len(ms) and j < len(steps) and ms[j].get(f) != steps[j].get(f)), "?")
            ctx.disagree(f"pairstate/{field}", {"ops": ops[: j + 1], "step": j}, ms[j].get(field) if j < len(ms) else None, steps[j].get(field) if j < len(steps) else None)
    run_sessions(ctx)
    for k in (0, min(n_boundary, len(segs)) - 1, len(segs) - 1):
        st.sample({"ops": segs[k][0][:4], "impl_steps": [{"resp": s["resp"], "pairings": len(s["state"]["paired"])} for s in segs[k][1][:4]],
                   "starts_from_loaded_state": segs[k][3] is not None,
                   "model_agrees": "steps" in model[k] and canon_model_steps(segs[k][0], model[k]["steps"]) == segs[k][1]})


def search(ctx: Ctx):
    """Deeper failing-input search on the real code (oracle only)."""
    saved = ctx.tier
    ctx.tier = "thorough"
    try:
        for ops, start in [(o, None) for o in boundary_scripts(ctx)] + fault_scripts(ctx) + restart_scripts(ctx) + loaded_start_scripts(ctx):
            v = run_real(ops, start=start)[2]
            if v.sig is not None:
                record_failure(ctx, ops, v, start)
        for _ in range(6000):
            ops = random_script(ctx)
            v = run_real(ops)[2]
            if v.sig is not None:
                record_failure(ctx, ops, v)
        for ops, start, cfg in ([(o, None, None) for o in session_boundary_scripts(ctx)] + [(o, s_, None) for o, s_ in spelling_session_scripts(ctx)]
                                + [(random_session_script(ctx), None, None) for _ in range(3000)] + whole_life_scripts(ctx)):
            v = run_real_sessions(ops, start=start, cfg=cfg)[2]
            if v.sig is not None:
                record_session_failure(ctx, ops, v, start, cfg)
    finally:
        ctx.tier = saved


def replay_sessions(ctx: Ctx, r):
    ops = r["ops"]
    if r.get("start"):
        print(f"  restart: the driver loads a harness-authored state file without {r['start']['absent'] or 'no member'} holding {len(r['start']['state']['paired'])} controllers")
    if r.get("cfg"):
        print(f"  configuration: {r['cfg']}")
    ident, steps, v, _, _init = run_real_sessions(ops, start=r.get("start"), cfg=r.get("cfg"))
    for op, s_ in zip(ops, steps):
        if op["k"] in ("config", "hash", "start", "stop", "restart"):
            print(f"  {op['k']} -> " + ", ".join(f"{k}={s_[k]}" for k in ("wrote", "restarted", "stopped", "raised") if k in s_))
        elif op["k"] == "setup":
            print(f"  pair-setup of {bytes.fromhex(op['id']).decode(errors='replace')} -> {s_['resp']}")
        elif op["k"] == "verify":
            claimed = bytes.fromhex(op["id"]).decode(errors="replace") if op["id"] else None
            print(f"  connection {op['c']}: pair-verify claiming {claimed} proof={op['proof']} outer_ok={op['outer_ok']} -> "
                  f"{'verified' if s_['verified'] else 'refused'}; handler now {s_['sess']}")
        else:
            print(f"  connection {op['c']}: POST /pairings body={op['body'][:40]} -> {str(s_['resp'])[:90]} ; paired={len(s_['state']['paired'])} handler {s_['sess']}")
    if v.sig:
        print("FAILS:", v.sig, v.desc, f"(at step {v.at})")
    print("verdict:", "property violated on this input" if v.sig else "holds on this input")
    return 1 if v.sig else 0


def replay(ctx: Ctx, r):
    if r.get("kind") == "sessions":
        return replay_sessions(ctx, r)
    if r.get("kind") != "script":
        print("replay file records a broken proof obligation / correspondence stream, not an input:")
        print(json.dumps(r, indent=1)[:3000])
        return 1
    ops = r["ops"]
    start = r.get("start")
    ident, steps, v, _, _init = run_real(ops, start=start)
    if start is not None:
        print(f"  restart: the driver loads a harness-authored state file without {start['absent'] or 'no member'} holding {len(start['state']['paired'])} controllers")
    for op, s in zip(ops, steps):
        if op["k"] == "restart":
            print(f"  restart: a fresh driver loads the saved state file -> {s['restart']}")
            continue
        what = "pair-setup" if op["k"] == "setup" else f"POST /pairings enc={op['enc']} cu={'set' if op['cu'] else None} body={op['body'][:60]}"
        if op.get("fault"):
            what += " [state file cannot be written]"
        print(f"  {what} -> {s['resp']} ; paired={len(s['state']['paired'])} props={len(s['state']['props'])} u2b={len(s['state']['u2b'])}")
    if v.sig:
        print("FAILS:", v.sig, v.desc, f"(at request {v.at})")
    print("verdict:", "property violated on this input" if v.sig else "holds on this input")
    return 1 if v.sig else 0
