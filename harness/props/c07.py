"""C07 — TLV8 encoding is specification-conforming and round-trips for all values."""
from __future__ import annotations

import importlib

from common import Ctx, Timeout, hx, run_model_parallel, time_limit
from ref import tlv8 as ref

PROP = "C07"
LEAN_MODULE = "Props.C07"
TRUSTED = [
    "Lean 4.33 kernel; axioms propext, Classical.choice, Quot.sound only (audited by #print axioms)",
    "hand-written model lean/HapModel/Tlv.lean of pyhap/tlv.py (single-byte tags), tied by this differential run",
    "harness/ref/tlv8.py reference codec (oracle), harness generators",
]
BOUNDARY = [0, 1, 2, 254, 255, 256, 509, 510, 511, 764, 765, 766, 1019, 1020, 1021, 1275, 1530]


def _tlv():
    import pyhap.tlv as t

    return importlib.reload(t)


def _val(rng, n):
    # cheap but position-revealing content so that a mis-sliced fragment is visible
    start = rng.randrange(256)
    return bytes((start + i * 7) & 0xFF for i in range(n))


def gen_encode_cases(ctx: Ctx):
    rng = ctx.rng
    cases = []
    top = 1100 if ctx.quick else 2100
    for n in range(0, top + 1):
        cases.append([(rng.choice([0, 1, 5, 6, 10, 255]), _val(rng, n))])
    for n in (1275, 1529, 1530, 1531, 2040, 2100, 2295, 4080, 65535):
        cases.append([(5, _val(rng, n))])
    # pairs / triples over the boundary set, equal adjacent and non-adjacent tags
    n_multi = ctx.n(250, 4000)
    for _ in range(n_multi):
        k = rng.choice([2, 2, 3, 3, 4, 6])
        tags_pool = rng.choice([[1, 2, 3, 4], [5, 5, 6], [7], [0, 255, 1]])
        items = []
        for _ in range(k):
            n = rng.choice(BOUNDARY) if rng.random() < 0.7 else rng.randrange(0, 900)
            items.append((rng.choice(tags_pool), _val(rng, n)))
        cases.append(items)
    cases.append([])
    return cases


def gen_decode_cases(ctx: Ctx):
    rng = ctx.rng
    cases = []
    for _ in range(ctx.n(1500, 20000)):
        mode = rng.random()
        if mode < 0.35:  # arbitrary garbage
            n = rng.choice([0, 1, 2, 3, 5, 17, 64, 300])
            cases.append(bytes(rng.randrange(256) for _ in range(rng.randrange(n + 1))))
        elif mode < 0.75:  # well-formed records (values <= 255), arbitrary tags
            recs = []
            for _ in range(rng.randrange(0, 6)):
                ln = rng.choice([0, 1, 2, 254, 255, rng.randrange(256)])
                recs.append((rng.choice([1, 1, 2, 3, 255, rng.randrange(256)]), _val(rng, ln)))
            cases.append(b"".join(bytes([t, len(v)]) + v for t, v in recs))
        else:  # well-formed then cut / extended
            recs = [(rng.randrange(4), _val(rng, rng.randrange(0, 40))) for _ in range(rng.randrange(1, 4))]
            w = b"".join(bytes([t, len(v)]) + v for t, v in recs)
            cut = rng.randrange(len(w) + 1)
            cases.append(w[:cut] + bytes(rng.randrange(256) for _ in range(rng.randrange(3))))
    return cases


def impl_encode(tlv, items):
    args = []
    for t, v in items:
        args += [bytes([t]), v]
    return tlv.encode(*args)


_TIMEOUTS = [0]


def impl_decode(tlv, data):
    if _TIMEOUTS[0] >= 2:  # already shown not to terminate: do not burn the time budget
        return {"err": "SKIPPED-AFTER-TIMEOUTS"}
    try:
        with time_limit(3):
            d = tlv.decode(data)
    except Timeout:
        _TIMEOUTS[0] += 1
        return {"err": "DOES-NOT-TERMINATE"}
    except Exception as ex:  # noqa: BLE001
        return {"err": type(ex).__name__}
    return {"ok": [[k[0], hx(v)] for k, v in d.items()]}


_LOGCFG = [None]  # the logging configuration the implementation currently runs under (None = as found)


class logging_cfg:
    """The codec's results must not depend on how the application configured logging: run the implementation with
    the `pyhap` (or `pyhap.tlv`) logger at DEBUG (records go to a NullHandler, nothing is printed)."""

    def __init__(self, name):
        self.name = name

    def __enter__(self):
        import logging

        _LOGCFG[0] = self.name
        if self.name is None:
            return self
        self.lg = logging.getLogger({"pyhap-debug": "pyhap", "tlv-debug": "pyhap.tlv"}[self.name])
        self.old = (self.lg.level, self.lg.propagate)
        self.h = logging.NullHandler()
        self.lg.addHandler(self.h)
        self.lg.setLevel(logging.DEBUG)
        self.lg.propagate = False
        return self

    def __exit__(self, *a):
        _LOGCFG[0] = None
        if self.name is not None:
            self.lg.removeHandler(self.h)
            self.lg.setLevel(self.old[0])
            self.lg.propagate = self.old[1]


def _rep(d):
    if _LOGCFG[0]:
        d = dict(d, logging=_LOGCFG[0])
    return d


def oracle_encode(ctx: Ctx, tlv, items, enc: bytes):
    """Property judged on the real behaviour with the independent reference codec."""
    want = ref.encode(items)
    lens = [len(v) for _, v in items]
    if enc != want:
        ctx.fail(
            "C07:encode-differs-from-spec",
            f"tlv.encode of value lengths {lens} is not the TLV8 byte string (got {len(enc)} bytes, spec {len(want)})",
            _rep({"kind": "encode", "items": [[t, hx(v)] for t, v in items]}),
            size=sum(lens) + len(lens),
        )
        return
    back = impl_decode(tlv, enc)
    merged = [[t, hx(v)] for t, v in ref.merge_dict(items).items()]
    if len(items) <= 3:  # the base64 wrappers used by camera.py go through the same encoder
        import base64

        args = []
        for t, v in items:
            args += [bytes([t]), v]
        b64 = tlv.encode(*args, to_base64=True)
        if base64.b64decode(b64) != want or {k[0]: v for k, v in tlv.decode(b64, from_base64=True).items()} != ref.merge_dict(items):
            ctx.fail(
                "C07:base64-path-differs",
                f"encode(to_base64)/decode(from_base64) differ from the plain codec for value lengths {lens}",
                _rep({"kind": "encode", "items": [[t, hx(v)] for t, v in items]}),
            )
    if back != {"ok": merged}:
        ctx.fail(
            "C07:roundtrip-mismatch",
            f"decode(encode(items)) differs from the merged items for value lengths {lens}",
            _rep({"kind": "encode", "items": [[t, hx(v)] for t, v in items]}),
            size=sum(lens) + len(lens),
        )


def oracle_decode(ctx: Ctx, data: bytes, got):
    if got.get("err") == "SKIPPED-AFTER-TIMEOUTS":
        return
    if got.get("err") == "DOES-NOT-TERMINATE":
        ctx.fail(
            "C07:decode-does-not-terminate",
            f"tlv.decode did not return within 5 s on a {len(data)}-byte input",
            _rep({"kind": "decode", "data": hx(data)}),
            size=len(data),
        )
        return
    try:
        recs = ref.records(data)
    except ValueError:
        recs = None
    if recs is not None:
        want = {"ok": [[t, hx(v)] for t, v in ref.merge_dict(recs).items()]}
        if got != want:
            ctx.fail(
                "C07:wellformed-misassigned",
                f"decode of a well-formed {len(data)}-byte input assigns bytes wrongly or fails: {str(got)[:80]}",
                _rep({"kind": "decode", "data": hx(data)}),
                size=len(data),
            )
    # malformed input: any result or a raised error is acceptable (termination is what matters,
    # and the call returned)


def run(ctx: Ctx):
    tlv = _tlv()
    st = ctx.stats
    st.rule = (
        "encode cases: every single-item length 0..N plus multi-item lists over boundary lengths; decode cases: "
        "garbage, well-formed records, cut/extended records. A case is non-trivial if it fragments (a value > 255 "
        "bytes), merges (a repeated type), or reaches the decoder's error/truncation branch; distinct by input bytes. "
        "A bounded subset is repeated with the pyhap / pyhap.tlv logger at DEBUG (results must not depend on logging). "
        "Histories: on a freshly loaded codec, refused calls (odd argument count, non-bytes value or tag after a good item, "
        "undecodable input) interleaved with well-formed encodes / decodes; every well-formed call must give the TLV8 result "
        "of its own arguments whatever came before (always non-trivial). Scale: single values of 64 KiB .. 1 MiB (3 MB thorough), "
        "reference codec only."
    )
    enc_cases = gen_encode_cases(ctx)
    dec_cases = gen_decode_cases(ctx)

    lines = [{"layer": "tlv", "op": "encode", "items": [[t, hx(v)] for t, v in it]} for it in enc_cases]
    lines += [{"layer": "tlv", "op": "decode", "data": hx(d)} for d in dec_cases]
    impl = []
    for it in enc_cases:
        enc = impl_encode(tlv, it)
        impl.append({"ok": hx(enc)})
        oracle_encode(ctx, tlv, it, enc)
        tags = [t for t, _ in it]
        nontriv = any(len(v) > 255 for _, v in it) or len(set(tags)) < len(tags)
        st.case(["e", [[t, len(v), hx(v[:2])] for t, v in it]], nontriv)
        st.hit("op", "encode")
        st.hit("outcome", "fragmented" if any(len(v) > 255 for _, v in it) else "single-fragment")
        if any(len(v) % 255 == 0 and len(v) > 255 for _, v in it):
            st.hit("outcome", "length-multiple-of-255")
    for d in dec_cases:
        got = impl_decode(tlv, d)
        impl.append(got)
        oracle_decode(ctx, d, got)
        try:
            ref.records(d)
            wf = True
        except ValueError:
            wf = False
        st.case(["d", hx(d)], (not wf) or len(d) > 2)
        st.hit("op", "decode")
        st.hit("outcome", "decode-" + ("err-" + got["err"] if "err" in got else ("wellformed" if wf else "truncating")))

    # the same codec under other logging configurations (bounded: boundary lengths and every 7th case)
    def interesting(it):
        return any(len(v) in (0, 1, 254, 255, 256, 509, 510, 511, 765, 1020) or len(v) > 1500 for _, v in it)

    for cfg in ("pyhap-debug", "tlv-debug"):
        with logging_cfg(cfg):
            for k, it in enumerate(enc_cases):
                if k % 7 == 0 or (interesting(it) and k % 2 == 0):
                    oracle_encode(ctx, tlv, it, impl_encode(tlv, it))
                    st.hit("op", "encode@" + cfg)
            for k, d in enumerate(dec_cases):
                if k % 5 == 0:
                    oracle_decode(ctx, d, impl_decode(tlv, d))
                    st.hit("op", "decode@" + cfg)
    run_camera_usage(ctx)
    run_histories(ctx)
    run_scale(ctx, tlv)
    model = run_model_parallel("C07", lines)
    for ln, m, i in zip(lines, model, impl):
        st.traces_validated += 1
        if m != i:
            short = dict(ln)
            if "items" in short:
                short["items"] = [[t, f"<{len(v)//2} bytes>"] for t, v in short["items"]]
            ctx.disagree("tlv", short, _short(m), _short(i))
    st.sample({"encode_lengths": [len(v) for _, v in enc_cases[510]], "impl": impl[510]["ok"][:40] + "..."})
    st.sample({"decode_input": hx(dec_cases[0]), "impl": impl[len(enc_cases)], "model": model[len(enc_cases)]})
    st.sample({"encode_items_lengths": [[t, len(v)] for t, v in enc_cases[-2]], "agree": model[len(enc_cases) - 2] == impl[len(enc_cases) - 2]})


# ------------------------------------------------------------------ TLV8 at its call sites (camera.py)

_CAM_OPTIONS = {
    "stream_count": 2,
    "video": {"codec": {"profiles": [b"\x00"], "levels": [b"\x00"]}, "resolutions": []},
    "audio": {"codecs": [{"type": "OPUS", "samplerate": 24}, {"type": "AAC-eld", "samplerate": 16}]},
    "srtp": True,
    "address": "192.168.1.226",
}
# a SelectedRTPStreamConfiguration start request as sent by iOS (session ac cc 6c c1 ...), from the HAP traces
_SEL_START = (
    "ARUCAQEBEKzMbMEFY0UVjal0tFCQBpECNAEBAAIJAQEAAgEAAwEAAwsBAoAC"
    "AgJoAQMBHgQXAQFjAgQr66FSAwKEAAQEAAAAPwUCYgUDLAEBAgIMAQEBAgEA"
    "AwEBBAEeAxYBAW4CBMUInmQDAhgABAQAAKBABgENBAEA"
)


class _CamDriver:
    def __init__(self):
        from pyhap.loader import Loader

        self.loader = Loader()

    def publish(self, *a, **k):
        pass

    def add_job(self, target, *args):
        import asyncio

        loop = asyncio.new_event_loop()
        try:
            loop.run_until_complete(target(*args))
        finally:
            loop.close()


def run_camera_usage(ctx: Ctx):
    """The property at the places where pyhap itself encodes / decodes TLV8 for controllers (camera.py):
    what is served must be the well-formed TLV8 of what was configured, and a well-formed request must be
    read field by field whatever the item order. Judged with the reference codec only (no model)."""
    import base64
    import copy
    import importlib
    from uuid import UUID

    import pyhap.camera as cam

    cam = importlib.reload(cam)
    rng = ctx.rng
    st = ctx.stats
    drv = _CamDriver()
    # (a) SupportedVideoStreamConfiguration with n resolutions
    for n in [1, 8, 12, 13, 14, 20, 33, 48] + [rng.randrange(1, 60) for _ in range(ctx.n(4, 40))]:
        opts = copy.deepcopy(_CAM_OPTIONS)
        res = [[160 + 16 * i, 90 + 9 * i, 15 + (i % 3) * 15] for i in range(n)]
        opts["video"]["resolutions"] = res
        acc = cam.Camera(opts, drv, "Camera")
        ch = acc.get_service("CameraRTPStreamManagement").get_characteristic("SupportedVideoStreamConfiguration")
        rep = {"kind": "camera-video-config", "resolutions": n}
        for how, served in (("get_value", ch.get_value()), ("to_HAP", ch.to_HAP().get("value"))):
            ok, why = True, ""
            try:
                raw = base64.b64decode(served, validate=True)
                top = ref.decode_list(raw)
                inner = ref.decode_list(top[0][1]) if len(top) == 1 and top[0][0] == 1 else None
                got = []
                for t, v in inner or []:
                    if t == 3:
                        d = ref.merge_dict(ref.decode_list(v))
                        got.append([int.from_bytes(d[1], "little"), int.from_bytes(d[2], "little"), int.from_bytes(d[3], "little")])
                if inner is None or got != res:
                    ok, why = False, f"decodes to {len(got)} of {n} configured resolutions"
            except Exception as ex:  # noqa: BLE001
                ok, why = False, f"{type(ex).__name__}: {ex}"
            if not ok:
                ctx.fail(
                    "C07:served-tlv8-value-not-the-configured-items",
                    f"SupportedVideoStreamConfiguration ({how}) for {n} resolutions is not the well-formed TLV8 of the configuration: {why}",
                    rep,
                    size=n,
                )
        st.case(["cam-video", n], n > 8)
        st.hit("op", "camera:video-config")
    # (b) start / stop with the session-control items in either order (and an extra item)
    sid = UUID("accc6cc1-0563-4515-8da9-74b450900691")
    raw = base64.b64decode(_SEL_START)
    top = ref.decode_list(raw)
    sess_items = ref.decode_list(top[0][1])  # [(2, cmd), (1, id)] as captured
    idb = dict(sess_items)[1]
    orders = {
        "command-first": [(2, None), (1, idb)],
        "identifier-first": [(1, idb), (2, None)],
        "identifier-first+extra": [(1, idb), (2, None), (9, b"\x01")],
        "extra-after-id": [(2, None), (1, idb), (9, b"xy")],
    }
    for name, order in orders.items():
        class Rec(cam.Camera):
            started, stopped = [], []

            async def start_stream(self, session_info, stream_config):
                Rec.started.append(session_info["id"])
                return True

            async def stop_stream(self, session_info):
                Rec.stopped.append(session_info["id"])

        Rec.started, Rec.stopped = [], []
        opts = copy.deepcopy(_CAM_OPTIONS)
        opts["video"]["resolutions"] = [[640, 360, 30]]
        acc = Rec(opts, drv, "Camera")
        acc.sessions[sid] = {"id": sid, "stream_idx": 0, "address": "192.168.1.114", "v_port": 50483,
                             "v_srtp_key": "k", "a_port": 54956, "a_srtp_key": "k", "process": None}

        def req(cmd, rest):
            sess = ref.encode([(t, (bytes([cmd]) if v is None else v)) for t, v in order])
            return base64.b64encode(ref.encode([(1, sess)] + rest)).decode()

        rep = {"kind": "camera-session-order", "order": name}
        try:
            acc.set_selected_stream_configuration(req(1, top[1:]))
            acc.set_selected_stream_configuration(req(0, []))
            err = None
        except Exception as ex:  # noqa: BLE001
            err = f"{type(ex).__name__}: {ex}"
        if err or Rec.started != [sid] or Rec.stopped != [sid] or sid in acc.sessions:
            ctx.fail(
                "C07:wellformed-request-misread-at-call-site",
                f"start/stop request with session items in order '{name}': started {Rec.started}, stopped {Rec.stopped}, "
                f"session left: {sid in acc.sessions}, error: {err}",
                rep,
            )
        st.case(["cam-session", name], True)
        st.hit("op", "camera:session-order")


# ------------------------------------------------------------------ histories: the codec is a function of its arguments

# calls that the codec refuses (or may refuse); what they return or raise is not judged, what FOLLOWS them is
BAD_CALLS = {
    "encode-odd-args": lambda tlv: tlv.encode(b"\x01"),
    "encode-str-value-after-item": lambda tlv: tlv.encode(b"\x01", b"11:22:33:44:55:66", b"\x02", "text"),
    "encode-none-value-after-item": lambda tlv: tlv.encode(b"\x06", b"\x02", b"\x03", None),
    "encode-int-value": lambda tlv: tlv.encode(b"\x01", 5),
    "encode-str-tag-after-long-item": lambda tlv: tlv.encode(b"\x03", bytes(range(256)) * 3, "t", b"x"),
    "encode-none-after-multiple-of-255": lambda tlv: tlv.encode(b"\x05", b"\xaa" * 510, b"\x02", None),
    "decode-lone-byte": lambda tlv: tlv.decode(b"\x01"),
    "decode-none": lambda tlv: tlv.decode(None),
    "decode-bad-base64": lambda tlv: tlv.decode("@@@", from_base64=True),
    "decode-truncated-after-item": lambda tlv: tlv.decode(b"\x01\x02\xaa\xbb\x02"),
}


def exec_history(ops):
    """Runs a history on a freshly loaded codec; returns the result of every op (refused calls: the exception class)."""
    tlv = _tlv()
    out = []
    for op in ops:
        if "bad" in op:
            try:
                with time_limit(3):
                    BAD_CALLS[op["bad"]](tlv)
                out.append("returned")
            except Timeout:
                out.append("DOES-NOT-TERMINATE")
            except Exception as ex:  # noqa: BLE001
                out.append(type(ex).__name__)
        elif "encode" in op:
            items = [(t, bytes.fromhex(v)) for t, v in op["encode"]]
            try:
                out.append({"ok": hx(impl_encode(tlv, items))})
            except Exception as ex:  # noqa: BLE001
                out.append({"err": type(ex).__name__})
        else:
            out.append(impl_decode(tlv, bytes.fromhex(op["decode"])))
    return out


def judge_history(ctx: Ctx, ops, results):
    """Every well-formed call inside a history must give what the reference codec gives for its arguments alone."""
    for k, (op, got) in enumerate(zip(ops, results)):
        want = None
        if "encode" in op:
            items = [(t, bytes.fromhex(v)) for t, v in op["encode"]]
            want = {"ok": hx(ref.encode(items))}
        elif "decode" in op:
            try:
                recs = ref.records(bytes.fromhex(op["decode"]))
            except ValueError:
                continue
            want = {"ok": [[t, hx(v)] for t, v in ref.merge_dict(recs).items()]}
        if want is not None and got != want:
            earlier = [o.get("bad") or ("encode" if "encode" in o else "decode") for o in ops[:k]]
            ctx.fail(
                "C07:result-depends-on-earlier-calls",
                f"call {k} of a history ({'encode' if 'encode' in op else 'decode'} of a well-formed argument) does not give the "
                f"TLV8 result of its arguments after the earlier calls {earlier}: got {_short(got)}",
                _rep({"kind": "history", "ops": ops[: k + 1]}),
                size=k,
            )
            return False
    return True


def run_histories(ctx: Ctx):
    rng = ctx.rng
    st = ctx.stats
    lines, impl = [], []
    goods = [[(6, b"\x02"), (7, b"\x06")], [(1, _val(rng, 300))], [(5, _val(rng, 510)), (5, b"\x01")], [(3, b"")]]
    hists = []
    for name in BAD_CALLS:
        ops = [{"bad": name}]
        for it in goods:
            ops.append({"encode": [[t, hx(v)] for t, v in it]})
        ops.append({"decode": hx(ref.encode(goods[2]))})
        ops.append({"decode": "060102070106"})
        hists.append(ops)
    names = list(BAD_CALLS)
    for _ in range(ctx.n(20, 300)):
        ops = []
        for _ in range(rng.randrange(2, 9)):
            r = rng.random()
            if r < 0.35:
                ops.append({"bad": rng.choice(names)})
            elif r < 0.75:
                it = [(rng.choice([1, 2, 3, 5, 6]), _val(rng, rng.choice([0, 1, 17, 255, 256, 510, 700]))) for _ in range(rng.randrange(1, 4))]
                ops.append({"encode": [[t, hx(v)] for t, v in it]})
            else:
                it = [(rng.choice([1, 2, 3]), _val(rng, rng.choice([0, 1, 17, 255, 300]))) for _ in range(rng.randrange(1, 3))]
                ops.append({"decode": hx(ref.encode(it))})
        if any("bad" in o for o in ops[:-1]):
            hists.append(ops)
    for ops in hists:
        res = exec_history(ops)
        judge_history(ctx, ops, res)
        st.case(["h", [o.get("bad") or (("e", o["encode"]) if "encode" in o else ("d", o["decode"])) for o in ops]], True)
        st.hit("op", "history")
        for o, r in zip(ops, res):
            if "bad" in o:
                st.hit("outcome", f"history:{o['bad']}->{r}")
            elif "encode" in o:
                lines.append({"layer": "tlv", "op": "encode", "items": o["encode"]})
                impl.append(r)
            else:
                lines.append({"layer": "tlv", "op": "decode", "data": o["decode"]})
                impl.append(r)
    # tie: the model is a function of the arguments; every well-formed call inside a history must agree with it
    model = run_model_parallel("C07", lines)
    for ln, m, i in zip(lines, model, impl):
        st.traces_validated += 1
        if m != i:
            ctx.disagree("tlv-history", {k: (_short(v) if isinstance(v, str) else v) for k, v in ln.items()}, _short(m), _short(i))
    st.sample({"history": [o.get("bad") or ("encode" if "encode" in o else "decode") for o in hists[1]], "results": [_short(r) for r in exec_history(hists[1])]})


def run_scale(ctx: Ctx, tlv):
    """Value lengths far beyond anything a pairing message carries (the property quantifies over every value length):
    judged by the reference codec only; the two 64 KiB cases also go to the model."""
    st = ctx.stats
    rng = ctx.rng
    big = [65535, 65536, 254999, 255000, 262144 + 17, 1048576 + 1]
    if not ctx.quick:
        big += [rng.randrange(70000, 3000000) for _ in range(6)]
    if ctx.failures:
        # the codec is already shown wrong on ordinary sizes: megabyte inputs add nothing (and a broken codec
        # may need minutes or gigabytes for them)
        st.notes.append("scale cases skipped: a failing input was already found")
        return
    for n in big:
        it = [(rng.choice([1, 5, 9]), _val(rng, n)), (2, b"\x01")]
        try:
            with time_limit(20):
                enc = impl_encode(tlv, it)
        except Timeout:
            st.notes.append(f"scale case of {n} bytes did not finish within 20 s: not judged, remaining scale cases skipped")
            st.hit("outcome", "scale-timeout")
            return
        except BaseException as ex:  # noqa: BLE001  (RecursionError, MemoryError: still an answer the property forbids)
            if isinstance(ex, (KeyboardInterrupt, SystemExit)):
                raise
            ctx.fail(
                "C07:encode-raises-on-wellformed-items",
                f"tlv.encode of value lengths {[len(v) for _, v in it]} raises {type(ex).__name__} instead of returning the TLV8 byte string",
                _rep({"kind": "encode-scale", "lengths": [len(v) for _, v in it], "tags": [t for t, _ in it], "start": it[0][1][0] if it[0][1] else 0}),
                size=n,
            )
            st.hit("outcome", "scale-raises")
            continue
        oracle_encode(ctx, tlv, it, enc)
        st.case(["scale", n], True)
        st.hit("op", "encode-scale")


def _short(x):
    s = str(x)
    return s if len(s) < 160 else s[:160] + f"...<{len(s)} chars>"


def search(ctx: Ctx):
    """Deeper failing-input search on the real code (oracle only)."""
    tlv = _tlv()
    rng = ctx.rng
    for n in range(0, 4200):
        it = [(5, _val(rng, n))]
        oracle_encode(ctx, tlv, it, impl_encode(tlv, it))
    saved = ctx.tier
    ctx.tier = "thorough"
    try:
        run_histories(ctx)
        for it in gen_encode_cases(ctx)[2100:]:
            oracle_encode(ctx, tlv, it, impl_encode(tlv, it))
        for d in gen_decode_cases(ctx):
            oracle_decode(ctx, d, impl_decode(tlv, d))
        for cfg in ("pyhap-debug", "tlv-debug"):
            with logging_cfg(cfg):
                for it in gen_encode_cases(ctx)[::3]:
                    oracle_encode(ctx, tlv, it, impl_encode(tlv, it))
                for d in gen_decode_cases(ctx)[::3]:
                    oracle_decode(ctx, d, impl_decode(tlv, d))
    finally:
        ctx.tier = saved


def replay(ctx: Ctx, r):
    tlv = _tlv()
    if r["kind"].startswith("camera"):
        run_camera_usage(ctx)
        for f in ctx.failures:
            print("FAILS:", f.signature, f.description)
        print("verdict:", "property violated on this input" if ctx.failures else "holds on this input")
        return 1 if ctx.failures else 0
    with logging_cfg(r.get("logging")):
        if r.get("logging"):
            print("logging configuration:", r["logging"])
        if r["kind"] == "encode-scale":
            items = [(t, bytes((r["start"] + i * 7) & 0xFF for i in range(n))) for t, n in zip(r["tags"], r["lengths"])]
            try:
                enc = impl_encode(tlv, items)
                oracle_encode(ctx, tlv, items, enc)
                print("encode lengths", r["lengths"], "->", len(enc), "bytes")
            except Exception as ex:  # noqa: BLE001
                print("encode lengths", r["lengths"], "raises", type(ex).__name__)
                ctx.fail("C07:encode-raises-on-wellformed-items", f"raises {type(ex).__name__}", r)
        elif r["kind"] == "history":
            res = exec_history(r["ops"])
            for o, x in zip(r["ops"], res):
                print(" ", o.get("bad") or ("encode" if "encode" in o else "decode"), "->", _short(x))
            judge_history(ctx, r["ops"], res)
        elif r["kind"] == "encode":
            items = [(t, bytes.fromhex(v)) for t, v in r["items"]]
            enc = impl_encode(tlv, items)
            oracle_encode(ctx, tlv, items, enc)
            print("encode lengths", [len(v) for _, v in items], "->", len(enc), "bytes; spec", len(ref.encode(items)))
        else:
            d = bytes.fromhex(r["data"])
            got = impl_decode(tlv, d)
            oracle_decode(ctx, d, got)
            print("decode ->", got)
    for f in ctx.failures:
        print("FAILS:", f.signature, f.description)
    print("verdict:", "property violated on this input" if ctx.failures else "holds on this input")
    return 1 if ctx.failures else 0
