"""C08 — A controller that knows the setup code always completes pair-setup."""
from __future__ import annotations

import hashlib
import json
from typing import Any, Dict, List, Optional

import pairsetup_env as pe
from common import Ctx, hx, run_model_parallel
from ref import pairsetup_client as pc
from ref import srp_client as ref
from ref import tlv8

PROP = "C08"
LEAN_MODULE = "Props.C08"
TRUSTED = [
    "Lean 4.33 kernel; axioms propext, Classical.choice, Quot.sound only (audited by #print axioms)",
    "hand-written models lean/HapModel/Srp.lean (hsrp.Server) and lean/HapModel/PairSetup.lean "
    "(handle_pairing, _pairing_one.._five under dispatch), tied by this differential run; the group "
    "constants are regenerated from the verifier the driver really builds (HapModel/Gen/SrpGroup.lean)",
    "theorems hold for every hash function H, every HKDF, every AEAD with dec(enc(p)) = p and every "
    "signature scheme in which the accessory's own signatures verify (functional correctness of the "
    "libraries `cryptography` / chacha20poly1305_reuseable is assumed, not proved); the Lean SHA-512 used by "
    "the driver is validated against hashlib on every run, not proved",
    "harness/ref/srp_client.py + pairsetup_client.py: independent RFC 5054 / HAP reference controller "
    "(oracle); the RFC's client-side abort for B = 0 mod N (probability 2^-3072) is outside the theorem",
    "a controller that zero-pads A on the wire but hashes the stripped form is a different convention "
    "(excluded, DESIGN C08 Reading)",
]

USER = b"Pair-Setup"
# functions of hsrp.Server that are compared one by one when the class has them (see impl_numeric)
OPTIONAL_FUNCS = {"_get_private_key", "_get_verifier", "_get_k", "_derive_B", "get_challenge", "_get_K", "_get_M",
                  "_get_HAMK", "get_session_key", "get_session_key_bytes", "_padN_A", "_padN_B"}

# pre-computed forced vectors (found once by rejection sampling on b with ref/srp_client.py):
# kind K0: SHA-512(S) begins with a zero byte; S0 / A0 / B0: that value is shorter than 384 bytes
CORPUS = [
    ("K0", "494-51-550", "d299b75bfa3ea5bc6a1216981caefb30", "79359390e10090fd1f6ddae6a61c3a164b8aa9b0163ed0e03b6e07f743d7157d", "ddfff8aaf24c29cd39539e2e54883e045b92982376093cb6ef20839d128a1f21"),
    ("K0", "533-76-431", "7149428ef7412fde187b7314d70e4253", "47eb93cea6360399ef512c58c835156fa714a1e9c0cf17c5775ace364fd7eba1", "daf900fe27bec03380967143deda3f301f39d8579e761c85d827d2b0694a82f1"),
    ("K0", "431-13-999", "606bae1f4dbd237803490d414e2fa6dc", "bb50d887f7d3d0f87a9f05df1ef65bc36d4f024a1e2be04907f14cba4d8c006d", "51b0e8d2ca5c1db6a34a65b4e550fc90879c58ea0e09ec4cdfdf8bace31aa33b"),
    ("K0", "815-07-778", "652ec152d0bfcd65190ffc604c0933d0", "97c59b7a6f3f382d40f8ce02e1c29267dcd91c8f19832774212c0feaafdd271d", "e8b11bd5491983faf9b7401d77b40692d9d4cd77828186044385f7a4b151e75f"),
    ("S0", "600-02-371", "1a2c15571d81ed4d20dd2bb557dff6b4", "41144a7b616a96ed78b91f8a297c6914eca8141c6ab084536032ba3a4d0d9e01", "457efc5f2d6b731b5fac1176d2251793a99cf73d8875fee671a70a9cf6281647"),
    ("S0", "459-06-969", "f2825c47cc604aacb0d80f6906e26322", "fa675433e953bfcdf0fa885ebb0a898839b082d2f2ba44b1088931cbb44c7dc5", "21a1f92573ff1527919123350bc36c50fc6f10c83840d37b2b6060ae8a62251f"),
    ("A0", "298-89-454", "4ab47c90b7aaf391c4bc6c2d0e0ce0e2", "bb8b47f446cb5312e88d3184e22c278f3d01d7c52804da12421f2473bd87d3ab", "fc495e663d95bde5b502548b3e8a400a6f1a15140ae7e61af6fff02ebeb2ce3d"),
    ("A0", "654-16-319", "2a8f9d48e29b705e6d6ca0d9d791bac4", "adfddaf16d2cd44b4f0d4ff52d49c8a7245612146d4ab460e4b9e027577c3ee3", "a04464ea5230168ce114f4a839150c36448f3e2ce552e5d944e45fe6b3c469ff"),
    ("B0", "425-85-140", "da63fbfff07ca8e4cfb9453a3dfa2d28", "e6c3884d59d915b4f4511904a1a5d0fb99a951bdf1918a62a4a4ac5e9ac2b457", "d25ed70ea66ec7ae8846308394786263fd4e743c7c66dc07aa7aa854c86af80f"),
    ("B0", "419-53-919", "ed7ee9a1c73abab1ae11a42a3ccdb25c", "f29d46ffec756cc957d0d7f262c8048bd764ede3357b2aba1373e8b3e42b7475", "64cc10b8c3bb26385f8814d12ae63894a3afb944fb254df4629972a4c1191265"),
]
MORE_K0 = [
    ("K0", "509-71-368", "71ede4e8ce0dab21f3e72c97ad10741f", "645c6c8b23dd741a003785478d7067358f501dc9af4282a63ab70d7151d4fc15", "8579a3830e8da4db26e1f558d258cd778172e9148906033c1d2bce375c23ea19"),
    ("K0", "796-54-685", "32c9b420ef54df42717bbafa67bb74ea", "762c5366248a141c7ccb3b72bfcb60e4f96b0e5cadb4bded0a6cc8782edc6fd5", "871a74b1cb1819fa32475e91c132d64811161ec12b81aa3504c113026ae83f9b"),
]
# SHA-512(S) begins with TWO zero bytes
K00: List[tuple] = [
    ("K0", "976-39-008", "e56f73aae124bdcfe042a376afd94fa0", "4b130c5d4971360b64f280891e4ec5dc0100091d39655bfdc0e568d71c370df5", "5430efdfac60ca4c669cf271dafb00cbc01ac25b8a3f5de057396e3befc2243b"),
    ("K0", "337-35-343", "43fa861f68215d2a2c43109fe65f82c5", "4ee7e2cf592cbdee0488cf80174c8e48ff4f7c3b3981c96de6ef65d199d26919", "1477aaeecf487826dee77ca4175232a2d171e678ad356f4bb935b4ed40f4231f"),
]


def extract(ctx: Ctx):
    import sys as _sys

    from common import LEAN as _LEAN, REPO as _REPO, VERIF as _VERIF

    _sys.path.insert(0, str(_VERIF / "extract"))
    import handler_consts

    handler_consts.write(_REPO, _LEAN)
    pe.extract_group(ctx)


# --------------------------------------------------------------------------- cases


def _case(kind, code, salt_hex, a_hex, b_hex, rng) -> Dict[str, Any]:
    return {
        "kind": kind,
        "code": code,
        "salt": salt_hex,
        "a": a_hex,
        "b": b_hex.rjust(64, "0"),
        "ident": _uuid(rng),
        "ctrl_seed": hx(bytes(rng.randrange(256) for _ in range(32))),
        "acc_seed": hx(bytes(rng.randrange(256) for _ in range(32))),
        "mac": _mac(rng),
    }


def _mac(rng) -> str:
    """the accessory identifier as configured / persisted: upper-case (what generate_mac emits), lower-case,
    mixed-case and digit-only spellings"""
    style = rng.choice(["upper", "upper", "lower", "mixed", "digits"])
    digits = "0123456789" if style == "digits" else "0123456789abcdef"
    m = ":".join(rng.choice(digits) + rng.choice(digits) for _ in range(6))
    if style in ("lower", "mixed") and not any(c in "abcdef" for c in m):
        m = "a" + m[1:-1] + "f"
    if style == "upper":
        return m.upper()
    if style == "mixed":
        return "".join(c.upper() if rng.random() < 0.5 else c for c in m[:-1]) + m[-1]
    return m


def _uuid(rng) -> str:
    h = "%032x" % rng.getrandbits(128)
    s = f"{h[:8]}-{h[8:12]}-{h[12:16]}-{h[16:20]}-{h[20:]}"
    return s.upper() if rng.random() < 0.7 else s


def _code(rng) -> str:
    r = rng.random()
    if r < 0.8:
        return "%03d-%02d-%03d" % (rng.randrange(1000), rng.randrange(100), rng.randrange(1000))
    if r < 0.9:
        return rng.choice(["000-00-000", "999-99-999", "031-45-154"])
    return "".join(rng.choice("0123456789-abcXYZ") for _ in range(rng.randrange(1, 24)))


def _hap_code(rng) -> str:
    """a setup code in the HAP format XXX-XX-XXX (a driver can only be STARTED with such a code: its setup message
    renders the code as a number)"""
    return "%03d-%02d-%03d" % (rng.randrange(1000), rng.randrange(100), rng.randrange(1000))


def _is_hap_code(c: str) -> bool:
    return len(c) == 10 and c[3] == "-" and c[6] == "-" and c.replace("-", "").isdigit()


def random_case(rng) -> Dict[str, Any]:
    salt = bytes(rng.randrange(256) for _ in range(16))
    r = rng.random()
    if r < 0.1:
        salt = b"\x00" + salt[1:]
    if r > 0.95:
        salt = salt[:-1] + b"\x00"
    # secrets: mostly full width, sometimes small / with leading zero bytes
    rb = rng.random()
    b = rng.getrandbits(256) if rb < 0.8 else rng.getrandbits(rng.choice([1, 8, 64, 200, 248])) or 1
    ra = rng.random()
    a = rng.getrandbits(256) if ra < 0.8 else rng.getrandbits(rng.choice([1, 3, 16, 128, 700])) or 1
    return _case("random", _code(rng), hx(salt), "%x" % max(a, 1), "%x" % max(b, 1), rng)


def fresh_forced(rng, kind: str, max_tries: int = 4000) -> Optional[Dict[str, Any]]:
    """Rejection-sample the accessory secret b (fixed code, salt, a) until the wanted value begins
    with a zero byte.  Uses only the reference formulas."""
    code = _code(rng).encode()
    salt = bytes(rng.randrange(256) for _ in range(16))
    a = rng.getrandbits(256) | 1
    A = ref.i2b(pow(ref.G, a, ref.N))
    v = pow(ref.G, ref.x_of(salt, code), ref.N)
    k = ref.k_mult()
    for _ in range(max_tries):
        if kind == "A0":
            a = rng.getrandbits(256) | 1
            A = ref.i2b(pow(ref.G, a, ref.N))
            if len(A) < 384:
                return _case(kind, code.decode(), hx(salt), "%x" % a, "%x" % (rng.getrandbits(256) | 1), rng)
            continue
        b = rng.getrandbits(256) | 1
        Bb = ref.i2b((k * v + pow(ref.G, b, ref.N)) % ref.N)
        hit = False
        if kind == "B0":
            hit = len(Bb) < 384
        else:
            Sb = ref.i2b(pow(ref.b2i(A) * pow(v, ref.u_of(A, Bb), ref.N), b, ref.N))
            hit = len(Sb) < 384 if kind == "S0" else ref.H(Sb)[0] == 0
        if hit:
            return _case(kind, code.decode(), hx(salt), "%x" % a, "%x" % b, rng)
    return None


def gen_cases(ctx: Ctx) -> List[Dict[str, Any]]:
    rng = ctx.rng
    cases = [_case(*c, rng) for c in CORPUS + K00[:1]]
    if not ctx.quick:
        cases += [_case(*c, rng) for c in MORE_K0 + K00[1:]]
        for kind in ("K0", "K0", "K0", "S0", "A0", "B0"):
            c = fresh_forced(rng, kind)
            if c:
                cases.append(c)
    for _ in range(ctx.n(30, 700)):
        cases.append(random_case(rng))
    return cases


def context_cases(ctx: Ctx) -> List[Dict[str, Any]]:
    """Exchanges that do not start from a pristine, quiet accessory: deterministic families first."""
    rng = ctx.rng
    out = []

    def base(**kw):
        c = random_case(rng)
        c["kind"] = "context"
        c.update(kw)
        if any(k in LIFECYCLE for ks in c.get("between", {}).values() for k in ks) and not _is_hap_code(c["code"]):
            c["code"] = _hap_code(rng)
        return c

    def pre(kind, conn):
        return {"kind": kind, "conn": conn, "seed": rng.getrandbits(32)}

    for kind in FAILED_ATTEMPTS + ABANDONED:
        for pc_, cc in ((0, 0), (1, 0)):        # same connection / another one
            out.append(base(prefix=[pre(kind, pc_)], conn=cc))
    out.append(base(prefix=[pre("wrong-code", 0), pre("wrong-code", 0), pre("abandon-M4", 1)], conn=0))
    out.append(base(prefix=[pre("abandon-M4", 0), pre("wrong-proof", 1)], conn=1))
    for kind in BYSTANDERS:
        out.append(base(between={"M1-M3": [kind]}))
        out.append(base(between={"M3-M5": [kind]}))
        out.append(base(between={"pre": [kind], "M1-M3": [kind], "M3-M5": [kind]}))
    # object lifecycle: the application (which supplies its own event loop) starts the driver — the normal production
    # state —, stops it and starts the SAME object again; only then, or in the middle of the exchange (the controller
    # reconnects), the controller with the correct code runs
    out.append(base(between={"pre": ["start"]}))
    out.append(base(between={"pre": ["start", "stop", "start"]}))
    out.append(base(between={"pre": ["start", "stop", "start", "stop", "start"]}))
    out.append(base(between={"pre": ["start"], "M1-M3": ["stop", "start"]}))
    out.append(base(between={"pre": ["start"], "M3-M5": ["stop", "start"]}))
    out.append(base(prefix=[pre("abandon-M4", 0)], between={"pre": ["start", "stop", "start", "made-lost"]}))
    # another accessory with another setup code in the same process was used first / the setup code of this
    # driver was changed after an earlier exchange: the controller with the CURRENT code of THIS accessory completes
    for same in (False, True, False, True):
        other = _code(rng)
        out.append(base(before={"code": other, "acc_seed": hx(bytes(rng.randrange(256) for _ in range(32))),
                                "seed": rng.getrandbits(32), "same_driver": same}))
    for _ in range(ctx.n(8, 300)):
        c = base(conn=rng.choice([0, 0, 1]))
        if rng.random() < 0.15:
            c["before"] = {"code": _code(rng), "acc_seed": hx(bytes(rng.randrange(256) for _ in range(32))),
                           "seed": rng.getrandbits(32), "same_driver": rng.random() < 0.5}
        if rng.random() < 0.7:
            c["prefix"] = [pre(rng.choice(FAILED_ATTEMPTS + ABANDONED), rng.choice([0, 1])) for _ in range(rng.randrange(1, 4))]
        if rng.random() < 0.6:
            c["between"] = {pos: [rng.choice(BYSTANDERS) for _ in range(rng.randrange(0, 3))]
                            for pos in ("pre", "M1-M3", "M3-M5")}
        if rng.random() < 0.35:   # the driver object has been started (and possibly stopped and started again)
            if not _is_hap_code(c["code"]):
                c["code"] = _hap_code(rng)
            c.setdefault("between", {})
            c["between"]["pre"] = ["start"] + ["stop", "start"] * rng.choice([0, 1, 1, 2]) + c["between"].get("pre", [])
            if rng.random() < 0.3:
                pos = rng.choice(["M1-M3", "M3-M5"])
                c["between"][pos] = c["between"].get(pos, []) + ["stop", "start"]
        out.append(c)
    return out


# --------------------------------------------------------------------------- real code: numeric


def _hsrp():
    import pyhap.hsrp as hsrp
    import pyhap.params as params

    return hsrp, params


def impl_numeric(code: bytes, salt: bytes, b: int, A: bytes, M: Optional[bytes]) -> Dict[str, Any]:
    """hsrp.Server field by field on (code, salt, b, A)."""
    hsrp, params = _hsrp()
    c = params.get_srp_context(3072, hashlib.sha512, 16)
    try:
        srv = hsrp.Server(c, USER, code, s=salt, b=b)
        srv.set_A(A)
        out = {
            "v": hx(ref.i2b(srv.v)), "k": hx(ref.i2b(srv.k)), "B": hx(ref.i2b(srv.B)), "Bb": hx(srv.Bb),
            "u": hx(ref.i2b(srv.u)), "S": hx(ref.i2b(srv.S)), "K": hx(ref.i2b(srv.get_session_key())),
            "Kb": hx(srv.Kb), "M": hx(srv.M), "HAMK": hx(srv.HAMK),
        }
        # every remaining function of hsrp.Server, called on its own on the real object — where it exists: private
        # helpers may be inlined or renamed by a behaviour-preserving change, so each is compared only if present
        opt = {
            "_get_private_key": lambda f: hx(ref.i2b(f())),
            "_get_verifier": lambda f: hx(ref.i2b(f())),
            "_get_k": lambda f: hx(ref.i2b(f())),
            "_derive_B": lambda f: hx(ref.i2b(f())),
            "get_challenge": lambda f: [hx(f()[0]), hx(ref.i2b(f()[1]))],
            "_get_K": lambda f: hx(ref.i2b(f())),
            "_get_M": lambda f: hx(f()),
            "_get_HAMK": lambda f: hx(f()),
            "get_session_key": lambda f: hx(ref.i2b(f())),
            "get_session_key_bytes": lambda f: hx(f()),
        }
        for name, view in opt.items():
            f = getattr(srv, name, None)
            if callable(f):
                try:
                    out[name] = view(f)
                except Exception as ex:  # noqa: BLE001
                    out[name] = {"raises": type(ex).__name__}
        if callable(getattr(srv, "_padN", None)):
            out["_padN_A"], out["_padN_B"] = hx(srv._padN(A)), hx(srv._padN(srv.Bb))
        if M is not None:
            r = srv.verify(M)
            out["verify"] = None if r is None else hx(r)
            out["verified"] = bool(getattr(srv, "verified", r is not None))
        return out
    except Exception as ex:  # noqa: BLE001
        return {"err": type(ex).__name__}


def numeric_line(code: bytes, salt: bytes, b: int, A: bytes, M: Optional[bytes]) -> Dict[str, Any]:
    ln = {"layer": "srp", "op": "server", "I": hx(USER), "code": hx(code), "salt": hx(salt),
          "b": hx(ref.i2b(b)), "A": hx(A)}
    if M is not None:
        ln["M"] = hx(M)
    return ln


def _shape(lead) -> str:
    """stable name of the failing shape: which of A, B, S, K = SHA-512(S) begin with zero bytes"""
    if not lead:
        return "before-srp"
    if lead.get("K"):
        return "digest-leading-zero"
    z = [k for k in ("A", "B", "S") if lead.get(k)]
    return "leading-zero-" + "".join(z) if z else "no-leading-zero"


def oracle_numeric(ctx: Ctx, case: Dict[str, Any], got: Dict[str, Any], cl: ref.ClientResult):
    """The accessory's SRP proof must verify at a controller that knows the code."""
    if got.get("verify") != hx(cl.M2):
        lead = {"A": 384 - len(cl.A_bytes), "B": 384 - len(bytes.fromhex(got.get("Bb", "")) or b"x" * 384),
                "S": 384 - len(ref.i2b(cl.S)), "K": len(cl.K) - len(cl.K.lstrip(b"\x00"))}
        K0 = _shape(lead)
        ctx.fail(
            f"C08:srp-proof-rejected:{K0}",
            f"hsrp.Server rejects / answers wrongly the proof of a correct RFC 5054 client "
            f"(code {case['code']!r}; SHA-512(S) begins with {hx(cl.K[:2])}): verify -> {pe.short(got.get('verify'), 40)}",
            {"kind": "numeric", "case": {k: case[k] for k in ("code", "salt", "a", "b")}},
        )


# --------------------------------------------------------------------------- real code: exchange


class _Lifecycle(Exception):
    pass


def run_exchange(case: Dict[str, Any]):
    """M1..M6 of the reference controller against the real handler.  Returns (script, verdicts)."""
    from cryptography.hazmat.primitives.asymmetric import ed25519

    code, salt = case["code"].encode(), bytes.fromhex(case["salt"])
    secret = bytes.fromhex(case["b"])
    a = int(case["a"], 16)
    ident = case["ident"].encode()
    ltsk = ed25519.Ed25519PrivateKey.from_private_bytes(bytes.fromhex(case["ctrl_seed"]))
    before = case.get("before")
    other_env = None
    if before and before.get("same_driver"):
        # one driver: an exchange under the OLD setup code (abandoned after M4), then the owner changes the code
        env = pe.Env(before["code"].encode(), bytes.fromhex(case["acc_seed"]), mac=case.get("mac", "AA:BB:CC:DD:EE:FF"))
        sc = pe.Script(env)
        _honest_run(sc, before["code"].encode(), before["seed"], full=False)
        sc.set_code(code)
    else:
        if before:   # another accessory with another setup code in the same process pairs first
            other_env = pe.Env(before["code"].encode(), bytes.fromhex(before["acc_seed"]), mac="0A:0B:0C:0D:0E:0F")
            _honest_run(pe.Script(other_env), before["code"].encode(), before["seed"], full=True)
        env = pe.Env(code, bytes.fromhex(case["acc_seed"]), mac=case.get("mac", "AA:BB:CC:DD:EE:FF"))
        sc = pe.Script(env)
    v: Dict[str, Any] = {"stage": "M1", "ok": False, "why": "", "K0": None}
    adv_id = sc.advert()   # how the controller found the accessory: the id of its real Bonjour advertisement
    conn = case.get("conn", 0)
    between = case.get("between", {})
    try:
        for p in case.get("prefix", []):
            _run_prefix(sc, code, p)
        def interlude(pos):
            nonlocal conn
            for k in between.get(pos, []):
                if k in LIFECYCLE:
                    try:
                        sc.lifecycle(k)
                    except Exception as ex:  # noqa: BLE001  (the application cannot even start / stop its driver)
                        raise _Lifecycle(f"AccessoryDriver.async_{k} raised {type(ex).__name__}: {ex}") from ex
                    if k == "start" and pos != "pre":
                        conn += 10   # a restart closes every connection: the controller continues on a new one
                else:
                    sc.bystander(k)

        interlude("pre")
        r = sc.send(pc.m1_body(), salt, secret, conn=conn, idents=[ident])
        t = pc.parse(r["body"]) if r["status"] == 200 else None
        if not t or t.get(pc.T_STATE) != b"\x02" or pc.T_ERROR in t or pc.T_SALT not in t or pc.T_PUBLIC_KEY not in t:
            v["why"] = f"M2 not usable (status {r['status']})"
            return sc, v
        cl = ref.client(code, t[pc.T_SALT], t[pc.T_PUBLIC_KEY], a)
        v["K0"] = cl.K[0] == 0
        v["lead"] = {"A": 384 - len(cl.A_bytes), "B": 384 - len(t[pc.T_PUBLIC_KEY]),
                     "S": 384 - len(ref.i2b(cl.S)), "K": len(cl.K) - len(cl.K.lstrip(b"\x00"))}
        v["stage"] = "M3"
        interlude("M1-M3")
        r = sc.send(pc.m3_body(cl.A_bytes, cl.M1), salt, secret, conn=conn)
        t = pc.parse(r["body"]) if r["status"] == 200 else None
        if not t or t.get(pc.T_STATE) != b"\x04" or pc.T_ERROR in t:
            v["why"] = f"M4 refuses the correct proof (status {r['status']}, error {hx(t.get(pc.T_ERROR, b'')) if t else '-'})"
            return sc, v
        if t.get(pc.T_PROOF) != cl.M2:
            v["why"] = "the accessory proof in M4 does not verify at the controller"
            return sc, v
        v["stage"] = "M5"
        sub, ltpk = pc.m5_subtlv(cl.K, ident, ltsk)
        interlude("M3-M5")
        r = sc.send(pc.m5_body(cl.K, sub), salt, secret, conn=conn)
        if r["status"] != 200:
            v["why"] = f"M5 answered with HTTP {r['status']}"
            return sc, v
        m6 = pc.check_m6(r["body"], cl.K, advertised_id=adv_id)
        if not m6.ok:
            v["why"] = m6.why
            v["id_mismatch"] = m6.accessory_id != b"" and m6.accessory_id != adv_id
            return sc, v
        v["stage"] = "M6"
        if sc.advert() != adv_id:
            v["why"] = "the advertised identifier changed during pair-setup"
            return sc, v
        if m6.accessory_ltpk != env.ltpk:
            v["why"] = "M6 is not signed by the accessory's long-term key"
            return sc, v
        import uuid

        u = uuid.UUID(case["ident"])
        st = env.state
        if st.paired_clients.get(u) != ltpk or list(st.paired_clients) != [u]:
            v["why"] = "the controller is not registered with exactly the key it presented"
            return sc, v
        if not st.is_admin(u):
            v["why"] = "the controller is not registered as admin"
            return sc, v
        if not r["changed"]:
            v["why"] = "pairing_changed not set on M6"
            return sc, v
        v["ok"] = True
        return sc, v
    except _Lifecycle as ex:
        v["why"] = str(ex)
        return sc, v
    finally:
        env.close()
        if other_env is not None:
            other_env.close()


def _honest_run(sc, code: bytes, seed: int, full: bool):
    """a correct exchange of some controller through script `sc` (M1..M4, and M5/M6 if `full`); not judged"""
    import random as _random

    from cryptography.hazmat.primitives.asymmetric import ed25519

    rng = _random.Random(seed)
    rb = lambda n: bytes(rng.randrange(256) for _ in range(n))  # noqa: E731
    r = sc.send(pc.m1_body(), rb(16), rb(32), conn=7)
    t = pc.parse(r["body"]) or {}
    if pc.T_SALT not in t:
        return
    cl = ref.client(code, t[pc.T_SALT], t[pc.T_PUBLIC_KEY], rng.getrandbits(256) | 1)
    sc.send(pc.m3_body(cl.A_bytes, cl.M1), rb(16), rb(32), conn=7)
    if full:
        ident = b"99999999-8888-7777-6666-555555555555"
        sub, _ = pc.m5_subtlv(cl.K, ident, ed25519.Ed25519PrivateKey.from_private_bytes(rb(32)))
        sc.send(pc.m5_body(cl.K, sub), rb(16), rb(32), conn=7, idents=[ident])


FAILED_ATTEMPTS = ("wrong-code", "wrong-proof", "bogus-M3", "short-M3", "garbage", "M3-no-M1", "degenerate", "bad-M5")
ABANDONED = ("abandon-M1", "abandon-M4")
BYSTANDERS = ("made-lost", "get-lost", "get")
LIFECYCLE = ("start", "stop")   # the application starts / stops the SAME driver object (its own event loop stays alive)


def _run_prefix(sc, code: bytes, p: Dict[str, Any]):
    """What happened on the accessory before the controller's run: a failed attempt or an abandoned
    exchange, on connection p['conn'].  Never completes a pairing."""
    import random as _random

    from cryptography.hazmat.primitives.asymmetric import ed25519

    rng = _random.Random(p["seed"])
    rb = lambda n: bytes(rng.randrange(256) for _ in range(n))  # noqa: E731
    c, kind = p["conn"], p["kind"]
    salt, secret = rb(16), rb(32)
    wrong = (code[:-1] + (b"1" if code[-1:] != b"1" else b"2"))

    def m2():
        r = sc.send(pc.m1_body(), salt, secret, conn=c)
        t = pc.parse(r["body"]) or {}
        return t.get(pc.T_SALT, b"\x00" * 16), t.get(pc.T_PUBLIC_KEY, b"\x02")

    if kind == "M3-no-M1":
        sc.send(pc.m3_body(rb(384), rb(64)), rb(16), rb(32), conn=c)
        return
    s_, B_ = m2()
    if kind == "abandon-M1":
        return
    a = rng.getrandbits(256) | 1
    if kind in ("abandon-M4", "bad-M5"):
        cl = ref.client(code, s_, B_, a)
        sc.send(pc.m3_body(cl.A_bytes, cl.M1), rb(16), rb(32), conn=c)
        if kind == "bad-M5":
            ident = b"11111111-2222-3333-4444-555555555555"
            sub, ltpk = pc.m5_subtlv(cl.K, ident, ed25519.Ed25519PrivateKey.from_private_bytes(rb(32)))
            d = pc.parse(sub)
            sig = d[pc.T_SIGNATURE]
            sub = tlv8.encode([(pc.T_IDENTIFIER, ident), (pc.T_PUBLIC_KEY, ltpk), (pc.T_SIGNATURE, bytes([sig[0] ^ 1]) + sig[1:])])
            sc.send(pc.m5_body(cl.K, sub), rb(16), rb(32), conn=c, idents=[ident])
    elif kind == "wrong-code":
        cl = ref.client(wrong, s_, B_, a)
        sc.send(pc.m3_body(cl.A_bytes, cl.M1), rb(16), rb(32), conn=c)
    elif kind == "wrong-proof":
        cl = ref.client(code, s_, B_, a)
        sc.send(pc.m3_body(cl.A_bytes, bytes([cl.M1[0] ^ 1]) + cl.M1[1:]), rb(16), rb(32), conn=c)
    elif kind == "bogus-M3":
        sc.send(pc.m3_body(rb(384), rb(64)), rb(16), rb(32), conn=c)
    elif kind == "short-M3":
        sc.send(tlv8.encode([(pc.T_STATE, b"\x03"), (pc.T_PUBLIC_KEY, rb(384))]), rb(16), rb(32), conn=c)
    elif kind == "garbage":
        sc.send(rb(7), rb(16), rb(32), conn=c)
        sc.send(tlv8.encode([(pc.T_STATE, b"\x03")]), rb(16), rb(32), conn=c)
    elif kind == "degenerate":
        A = ref.i2b(ref.N)
        _, m1, _ = ref.degenerate_proof(s_, A, B_)
        sc.send(pc.m3_body(A, m1), rb(16), rb(32), conn=c)


def _context(case) -> str:
    """stable name of what surrounded the controller's run"""
    kinds = [p["kind"] for p in case.get("prefix", [])]
    by = [k for ks in case.get("between", {}).values() for k in ks]
    parts = []
    if any(k in FAILED_ATTEMPTS for k in kinds):
        parts.append("after-failed-attempt")
    if any(k in ABANDONED for k in kinds):
        parts.append("after-abandoned-exchange")
    if any(k.endswith("lost") for k in by):
        parts.append("bystander-connection-lost")
    if "get" in by:
        parts.append("bystander-request")
    if "stop" in by:
        parts.append("after-driver-restart")
    elif "start" in by:
        parts.append("driver-started")
    if case.get("before"):
        parts.append("after-setup-code-change" if case["before"].get("same_driver") else "after-exchange-on-another-accessory")
    return "+".join(parts)


def oracle_exchange(ctx: Ctx, case: Dict[str, Any], v: Dict[str, Any]):
    """A controller with the correct code must complete — whatever failed or abandoned attempts came before
    its fresh M1 and whatever other connections do in between, EXCEPT a bystander's own pair-setup request
    (any connection may replace the single SRP session with an M1: DESIGN section 9; never generated here)."""
    if v["ok"]:
        return
    shape = _shape(v.get("lead"))
    if _context(case):   # pristine forced-vector cases cover the leading-zero shapes on their own
        shape = _context(case)
    if v.get("id_mismatch"):
        shape = "m6-identifier-is-not-the-advertised-one"
    ctx.fail(
        f"C08:exchange-fails-at-{v['stage']}:{shape}",
        f"a controller using the correct setup code {case['code']!r} does not complete pair-setup: {v['why']} "
        f"(leading zero bytes {v.get('lead')}" + (f"; context: {_context(case)} {[p['kind'] for p in case.get('prefix', [])]} "
                                                  f"{case.get('between', {})}" if _context(case) else "") + ")",
        {"kind": "exchange", "case": case},
    )


# --------------------------------------------------------------------------- run


def _numeric_worker(case):
    code, salt = case["code"].encode(), bytes.fromhex(case["salt"])
    b, a = int(case["b"], 16), int(case["a"], 16)
    Bb = ref.i2b(ref.server_B(code, salt, b))
    cl = ref.client(code, salt, Bb, a)
    return {
        "got": impl_numeric(code, salt, b, cl.A_bytes, cl.M1),
        "line": numeric_line(code, salt, b, cl.A_bytes, cl.M1),
        "cline": {"layer": "srp", "op": "client", "I": hx(USER), "code": hx(code), "salt": hx(salt),
                  "B": hx(Bb), "a": hx(ref.i2b(a))},
        "cl": {"a": cl.a, "A_bytes": hx(cl.A_bytes), "u": cl.u, "S": cl.S, "K": hx(cl.K), "M1": hx(cl.M1), "M2": hx(cl.M2)},
    }


def _arbitrary_worker(c):
    return impl_numeric(c[0].encode(), bytes.fromhex(c[1]), int(c[2], 16), bytes.fromhex(c[3]), bytes.fromhex(c[4]))


def _exchange_worker(case):
    sc, v = run_exchange(case)
    return {"v": v, "line": sc.model_line(), "impl": sc.impl_view(),
            "results": [{"bystander": r["bystander"], "status": r.get("status"), "adv_id": r.get("adv_id")} if "bystander" in r else
                        {"status": r["status"], "body": hx(r["body"])[:40] + "...", "paired": len(r["paired"])}
                        for r in sc.results]}


SHA_LENGTHS = [0, 1, 2, 55, 63, 64, 65, 110, 111, 112, 113, 119, 120, 127, 128, 129, 175, 176, 239, 240, 241,
               255, 256, 257, 383, 384, 385, 511, 512, 767, 768, 769, 1000, 1023, 1024, 1025, 2000]


def run(ctx: Ctx):
    import sys

    assert sys.byteorder == "little"
    st = ctx.stats
    rng = ctx.rng
    st.rule = (
        "streams: sha512 (Lean SHA-512 vs hashlib), numeric (hsrp.Server vs Srp.lean on (code,salt,b,A): "
        "v,k,B,u,S,K,Kb,M,HAMK,verify byte for byte, and every other function of the class called on its own: "
        "_get_private_key, _get_verifier, _get_k, _derive_B, get_challenge, _padN, _get_K, _get_M, _get_HAMK, "
        "get_session_key, get_session_key_bytes), exchange (reference controller M1..M6 against the real "
        "handler and against PairSetup.lean; also after failed / abandoned attempts on the same or another connection, "
        "with bystander connections made/lost or refused requests between the controller's messages, and on a driver object "
        "that the application has started, stopped and started again — real async_start / async_stop on its own loop — "
        "before or in the middle of the exchange).  Non-trivial: a numeric/exchange case that reaches set_A+verify "
        "(all do); distinct by (code, salt, b, A / a)."
    )
    lines: List[Dict[str, Any]] = []
    impl: List[Any] = []
    tags: List[Any] = []

    # ---- stream sha512
    for n in SHA_LENGTHS + [rng.randrange(0, 1500) for _ in range(ctx.n(10, 200))]:
        d = bytes(rng.randrange(256) for _ in range(n))
        lines.append({"layer": "sha512", "data": hx(d)})
        impl.append({"ok": hashlib.sha512(d).hexdigest()})
        tags.append(("sha512", n))
        st.hit("op", "sha512")
        st.case(["sha", hx(d)], False)

    # ---- the group the reference controller uses is the group the accessory uses
    _, params = _hsrp()
    g = params.get_srp_context(3072, hashlib.sha512, 16)
    if g["N"] != ref.N or g["g"] != ref.G:
        ctx.fail("C08:group-differs-from-rfc5054", "pyhap's SRP group is not the RFC 5054 3072-bit group",
                 {"kind": "group"})

    cases = gen_cases(ctx)

    # ---- stream numeric
    for case, w in zip(cases, pe.pmap(_numeric_worker, cases, workers=12)):
        cl = ref.ClientResult(**{k: (bytes.fromhex(v) if isinstance(v, str) else v) for k, v in w["cl"].items()})
        got = w["got"]
        oracle_numeric(ctx, case, got, cl)
        lines.append(w["line"])
        impl.append(got)
        tags.append(("numeric", case["kind"]))
        st.hit("op", "numeric-honest")
        st.hit("outcome", "numeric-" + ("verified" if got.get("verify") else "rejected"))
        st.hit("outcome", f"forced-{case['kind']}") if case["kind"] != "random" else None
        st.case(["n", case["code"], case["salt"], case["b"], hx(cl.A_bytes)], True)
        # reference client vs the Lean client (same spec, two implementations)
        lines.append(w["cline"])
        impl.append({"A": hx(cl.A_bytes), "u": hx(ref.i2b(cl.u)), "S": hx(ref.i2b(cl.S)), "K": hx(cl.K),
                     "M": hx(cl.M1), "HAMK": hx(cl.M2)})
        tags.append(("client", case["kind"]))
    # arbitrary (not honest, not degenerate) A values and wrong proofs: model vs code only
    arb = []
    for _ in range(ctx.n(12, 400)):
        c = random_case(rng)
        n = rng.choice([1, 2, 64, 383, 384, 385, 400])
        A = bytes(rng.randrange(256) for _ in range(n))
        if rng.random() < 0.3:
            A = b"\x00" * rng.randrange(1, 3) + A
        if ref.b2i(A) % ref.N == 0:
            continue
        M = bytes(rng.randrange(256) for _ in range(rng.choice([0, 1, 63, 64, 65])))
        arb.append((c["code"], c["salt"], c["b"], hx(A), hx(M)))
    for c, got in zip(arb, pe.pmap(_arbitrary_worker, arb, workers=12)):
        lines.append(numeric_line(c[0].encode(), bytes.fromhex(c[1]), int(c[2], 16), bytes.fromhex(c[3]), bytes.fromhex(c[4])))
        impl.append(got)
        tags.append(("numeric", "arbitrary-A"))
        st.hit("op", "numeric-arbitrary-A")
        st.case(["n", c[0], c[1], c[2], c[3]], True)

    # ---- stream exchange
    scripts = []
    nforced = len(CORPUS) + 1
    ex_cases = (cases if not ctx.quick else cases[:nforced] + cases[nforced:][:14]) + context_cases(ctx)
    for case, w in zip(ex_cases, pe.pmap(_exchange_worker, ex_cases, workers=12)):
        v = w["v"]
        oracle_exchange(ctx, case, v)
        scripts.append((case, w["results"], v))
        lines.append(w["line"])
        impl.append(w["impl"])
        tags.append(("exchange", case["kind"]))
        st.hit("op", "exchange")
        for p in case.get("prefix", []):
            st.hit("op", "prefix-" + p["kind"] + ("-other-conn" if p["conn"] != case.get("conn", 0) else ""))
        for pos, ks in case.get("between", {}).items():
            for k in ks:
                st.hit("op", (f"lifecycle-{k}@{pos}" if k in LIFECYCLE else f"bystander-{k}@{pos}"))
        if case.get("before"):
            st.hit("op", "world-" + ("setup-code-changed" if case["before"].get("same_driver") else "other-accessory-first"))
        st.hit("outcome", "exchange-" + ("completed" if v["ok"] else "failed-at-" + v["stage"]))
        for k, n in (v.get("lead") or {}).items():
            if n:
                st.hit("outcome", f"leading-zero-{k}")
        st.case(["x", case["code"], case["salt"], case["b"], case["a"], case.get("prefix"), case.get("between"), case.get("before")], True)

    model = run_model_parallel("C08", lines, workers=12)
    for ln, m, i, tag in zip(lines, model, impl, tags):
        st.traces_validated += 1
        mv = pe.model_view(m) if tag[0] == "exchange" else m
        if tag[0] == "numeric" and isinstance(i, dict) and "err" not in i and isinstance(m, dict):
            mv = {k: v for k, v in m.items() if k in i or k not in OPTIONAL_FUNCS}
        if mv != i:
            ctx.disagree(tag[0], {"tag": tag, "line": pe.short(json.dumps(ln), 400)}, _diff(mv, i), "see model")

    if scripts:
        case, results, v = scripts[0]
        st.sample({"exchange": {k: case[k] for k in ("kind", "code", "salt")}, "completed": v["ok"],
                   "leading_zero_bytes": v.get("lead"), "impl": results})
    k = next(i for i, t in enumerate(tags) if t[0] == "numeric")
    st.sample({"numeric": {kk: lines[k][kk][:32] for kk in ("code", "salt", "b")},
               "impl_M": impl[k].get("M", "")[:32] + "...", "model_M": str(model[k].get("M", ""))[:32] + "..."})
    st.sample({"sha512_len": tags[3][1], "agree": model[3] == impl[3]})


def _diff(m, i):
    """first differing field, shortened"""
    if isinstance(m, dict) and isinstance(i, dict):
        for k in sorted(set(m) | set(i)):
            if m.get(k) != i.get(k):
                return {"field": k, "model": pe.short(m.get(k), 80), "impl": pe.short(i.get(k), 80)}
    if isinstance(m, list) and isinstance(i, list):
        for n, (x, y) in enumerate(zip(m, i)):
            if x != y:
                return {"op": n, **_diff(x, y)}
        return {"len_model": len(m), "len_impl": len(i)}
    return {"model": pe.short(m, 120), "impl": pe.short(i, 120)}


def search(ctx: Ctx):
    """Deeper failing-input search on the real code (oracle only): fresh forced cases + random exchanges."""
    rng = ctx.rng
    cases = [_case(*c, rng) for c in CORPUS + MORE_K0 + K00]
    for kind in ("K0", "K0", "S0", "A0", "B0"):
        c = fresh_forced(rng, kind)
        if c:
            cases.append(c)
    cases += [random_case(rng) for _ in range(150)]
    saved, ctx.tier = ctx.tier, "thorough"
    try:
        cases += context_cases(ctx)
    finally:
        ctx.tier = saved
    for case, w in zip(cases, pe.pmap(_exchange_worker, cases, workers=12)):
        oracle_exchange(ctx, case, w["v"])


def replay(ctx: Ctx, r):
    c = r.get("case", r)
    if r["kind"] == "exchange":
        sc, v = run_exchange(c)
        oracle_exchange(ctx, c, v)
        if c.get("before"):
            print("before:", "setup code changed from" if c["before"].get("same_driver") else "another accessory paired first with code",
                  c["before"]["code"])
        print("exchange:", {k: c[k] for k in ("code", "salt", "a", "b")})
        for n, res in enumerate(sc.results):
            if res.get("bystander") == "advert":
                print(f"  op{n}: advertised id (real AccessoryMDNSServiceInfo) = {bytes.fromhex(res['adv_id'])!r}; state.mac = {c.get('mac')!r}")
            elif "bystander" in res:
                print(f"  op{n}: bystander {res['bystander']} (its request: HTTP {res['status']})")
            else:
                print(f"  op{n}: conn {sc.ops[n]['conn']} HTTP {res['status']} body {hx(res['body'])[:60]}... paired={len(res['paired'])}")
        print("  leading zero bytes:", v.get("lead"), "| reached", v["stage"], "|", v["why"] or "completed")
    elif r["kind"] == "numeric":
        code, salt = c["code"].encode(), bytes.fromhex(c["salt"])
        b, a = int(c["b"], 16), int(c["a"], 16)
        cl = ref.client(code, salt, ref.i2b(ref.server_B(code, salt, b)), a)
        got = impl_numeric(code, salt, b, cl.A_bytes, cl.M1)
        oracle_numeric(ctx, c, got, cl)
        print("numeric:", {k: c[k] for k in ("code", "salt", "a", "b")})
        print("  client K =", hx(cl.K)[:16], "... server Kb =", got.get("Kb", "")[:16], "... verify ->", pe.short(got.get("verify"), 24))
    else:
        print("nothing to replay for kind", r["kind"])
    for f in ctx.failures:
        print("FAILS:", f.signature, f.description)
    print("verdict:", "property violated on this input" if ctx.failures else "holds on this input")
    return 1 if ctx.failures else 0
