"""C09 — Characteristic values always satisfy their declared constraints."""
from __future__ import annotations

import ast
import copy
import importlib
import math
import sys
from fractions import Fraction
from pathlib import Path
from typing import Any, Dict, List, Optional

from common import LEAN, REPO, VERIF, Ctx, delta_min, log, run_model_parallel
from ref import charconf as ref
from ref import steprat

sys.path.insert(0, str(VERIF / "extract"))
import chars as extract_chars  # noqa: E402

PROP = "C09"
LEAN_MODULE = "Props.C09"
TRUSTED = [
    "Lean 4.33 kernel; axioms propext, Classical.choice, Quot.sound only (audited by #print axioms)",
    "hand-written model lean/HapModel/Char.lean of pyhap/characteristic.py (to_valid_value, valid_value_or_raise, "
    "_get_default_value, __init__/_validate_properties, set_value, client_update_value incl. a raising setter "
    "callback, get_value incl. getter callbacks, override_properties incl. Permissions, notify/callback log, "
    "to_HAP value) and Service.configure_char, tied by this differential run; lean/HapModel/Gen/Chars.lean + "
    "CharConst.lean (defaults, length limits, HAP_FORMAT_NUMERICS) regenerated from characteristics.json / "
    "characteristic.py on every run",
    "model parameters, arbitrary in the theorems, supplied by the harness on the concrete arguments: the float "
    "step-rounding expression round(min_step*round(value/min_step),14) (taken from the source by ast, evaluated "
    "with real Python floats; assumed to raise nothing but ValueError/OverflowError) and str(float)",
    "floats cross the line protocol as exact integer ratios; the sign of zero is not modelled; setter / getter "
    "callbacks record, answer or raise as the script says (callbacks that re-enter the characteristic are C12/C20 "
    "matter); allow_invalid_client_values is fixed per script",
    "harness/ref/charconf.py (oracle: conformance and consistency written from the property text), generators",
]

ABSENT = "absent"
INT_FORMATS = ["int", "uint8", "uint16", "uint32", "uint64"]
NUMERIC = INT_FORMATS + ["float"]
OTHER_FORMATS = ["tlv8", "data", "array", "dictionary"]
ALWAYS_NULL_UUID = "00000073-0000-1000-8000-0026BB765291"
PLAIN_UUID = "000000AA-0000-1000-8000-0026BB765291"
PROP_KEYS = {"Format": "fmt", "minValue": "min", "maxValue": "max", "minStep": "step", "maxLen": "maxLen"}

_DEFS: Dict[str, Dict[str, Any]] = {}


# --------------------------------------------------------------------------- extraction


def extract(ctx: Ctx):
    global _DEFS
    defs, changed = extract_chars.extract(REPO, LEAN)
    _DEFS = defs
    if changed:
        log(f"[C09] regenerated {', '.join(changed)} from {REPO}")


def _defs():
    if not _DEFS:
        extract(None)
    return _DEFS


def _pyhap():
    import logging

    logging.getLogger("pyhap").setLevel(logging.CRITICAL + 1)  # the code logs every rejected value
    ch = importlib.import_module("pyhap.characteristic")
    ld = importlib.import_module("pyhap.loader")
    return ch, ld


_GETTER_VARIANT = None


def getter_variant() -> str:
    """Which of the two PROVED variants of `get_value` the code under test is compared with: one probe
    on a public behaviour decides it for the whole run.  `repaired` (HEAD): a getter answer is converted
    and stored without the valid-values check; `strict` (HEAD + design/fixes/C09-getter-valid-values.patch):
    an undeclared answer raises ValueError and nothing is stored.  Any third behaviour is compared with
    `repaired` and shows up as a disagreement."""
    global _GETTER_VARIANT
    if _GETTER_VARIANT is None:
        ch, _ = _pyhap()
        probe = ch.Characteristic("probe", ch.UUID(PLAIN_UUID), {
            "Format": "uint8", "Permissions": ["pr"], "ValidValues": {"a": 0, "b": 1}})
        probe.getter_callback = lambda: 7
        try:
            probe.get_value()
            _GETTER_VARIANT = "repaired"
        except ValueError:
            _GETTER_VARIANT = "strict" if probe.value == 0 else "repaired"
        except Exception:  # noqa: BLE001
            _GETTER_VARIANT = "repaired"
    return _GETTER_VARIANT


def _def_always_null(name) -> bool:
    """`type_id in ALWAYS_NULL` from the public module constant (no private attribute)."""
    ch, _ = _pyhap()
    util = importlib.import_module("pyhap.util")
    return util.hap_type_to_uuid(_defs()[name]["UUID"]) in ch.ALWAYS_NULL


_STEP_FN = None
STEP_REF: Dict[str, str] = {}
STEP_DIFF: List[str] = []


def step_fn():
    """The step-rounding expression of to_valid_value, lifted from the source (so that a change of
    the expression itself does not break the tie: it is a parameter of the model)."""
    global _STEP_FN
    if _STEP_FN is not None:
        return _STEP_FN
    expr = None
    try:
        tree = ast.parse((REPO / "pyhap" / "characteristic.py").read_text())
        for fn in ast.walk(tree):
            if isinstance(fn, ast.FunctionDef) and fn.name == "to_valid_value":
                for node in ast.walk(fn):
                    if (
                        isinstance(node, ast.If)
                        and isinstance(node.test, ast.BoolOp)
                        and isinstance(node.test.op, ast.And)
                        and [getattr(v, "id", None) for v in node.test.values] == ["value", "min_step"]
                        and len(node.body) == 1
                        and isinstance(node.body[0], ast.Assign)
                        and getattr(node.body[0].targets[0], "id", None) == "value"
                    ):
                        expr = node.body[0].value
    except Exception:  # noqa: BLE001
        expr = None
    if expr is None:
        src = "round(min_step * round(value / min_step), 14)"
        code = compile(src, "<step>", "eval")
    else:
        code = compile(ast.Expression(expr), "<step from characteristic.py>", "eval")
    _STEP_FN = lambda value, min_step: eval(code, {"round": round, "int": int, "float": float, "math": math}, {"value": value, "min_step": min_step})  # noqa: E731
    return _STEP_FN


# --------------------------------------------------------------------------- value encoding


def enc(v: Any):
    if v is None:
        return ["n"]
    if isinstance(v, bool):
        return ["b", v]
    if isinstance(v, int):
        return ["i", v]
    if isinstance(v, float):
        if v != v:
            return ["f", "nan"]
        if math.isinf(v):
            return ["f", "inf" if v > 0 else "-inf"]
        n, d = v.as_integer_ratio()
        return ["f", n, d]
    if isinstance(v, str):
        return ["s", v]
    return ["o", str(v), bool(v)]


def dec(e):
    t = e[0]
    if t == "n":
        return None
    if t in ("b", "i", "s"):
        return e[1]
    if t == "f":
        if len(e) == 2:
            return {"nan": float("nan"), "inf": float("inf"), "-inf": float("-inf")}[e[1]]
        return float(Fraction(e[1], e[2]))
    if t == "o":
        return ast.literal_eval(e[1])
    raise ValueError(e)


def enc_props(props: Dict[str, Any]):
    """Real property dict -> model property record."""
    out: Dict[str, Any] = {"fmt": props["Format"]}
    for k, mk in (("minValue", "min"), ("maxValue", "max"), ("minStep", "step")):
        if k in props:
            out[mk] = enc(props[k])
    if props.get("ValidValues"):
        out["vv"] = list(props["ValidValues"].values())
    if "maxLen" in props:
        out["maxLen"] = props["maxLen"]
    out["readable"] = "pr" in props.get("Permissions", ["pr"])
    return out


def enc_upd(props: Optional[Dict[str, Any]]):
    u: Dict[str, Any] = {}
    for k, v in (props or {}).items():
        if k == "Format":
            u["fmt"] = v
        elif k in ("minValue", "maxValue", "minStep"):
            u[PROP_KEYS[k]] = enc(v)
        elif k == "maxLen":
            u["maxLen"] = v
        elif k == "ValidValues":
            u["vv"] = list(v.values())
        elif k == "Permissions":
            u["readable"] = "pr" in v
        else:
            u["other"] = True
    return u


def enc_op(op, default_cb="returns"):
    """Model form of an op (the instance index is not part of it: one model run per instance)."""
    if op["op"] == "set":
        return {"op": "set", "v": enc(op["v"]), "notify": op.get("notify", True)}
    if op["op"] == "client":
        cb = op.get("cb") or default_cb
        return {"op": "client", "v": enc(op["v"]), "cb": cb if isinstance(cb, str) else {"raises": cb[1]}}
    if op["op"] == "read":
        g = op["g"]
        gj = "absent" if g[0] == "absent" else ({"returns": enc(g[1])} if g[0] == "returns" else {"raises": g[1]})
        return {"op": "read", "g": gj, "hap": bool(op.get("hap"))}
    d = {
        "op": op["op"],
        "u": enc_upd(op.get("props")),
        "vv": list((op.get("valid_values") or {}).values()),
    }
    if op["op"] == "configure":
        d["v"] = enc(op.get("v"))
    return d


def op_to_json(op):
    """Replay-file form of an op (values encoded exactly)."""
    if op["op"] == "create":
        return {"op": "create"}
    if op["op"] in ("set", "client"):
        d = {"op": op["op"], "v": enc(op["v"])}
        if op["op"] == "set":
            d["notify"] = op.get("notify", True)
        elif op.get("cb"):
            d["cb"] = op["cb"]
    elif op["op"] == "read":
        g = op["g"]
        d = {"op": "read", "g": [g[0], enc(g[1])] if g[0] == "returns" else list(g), "hap": bool(op.get("hap"))}
    else:
        pj = None
        if op.get("props") is not None:
            pj = {}
            for k, v in op["props"].items():
                if k in ("minValue", "maxValue", "minStep"):
                    pj[k] = enc(v)
                else:
                    pj[k] = v
        d = {"op": op["op"], "props": pj, "valid_values": op.get("valid_values")}
        if op["op"] == "configure":
            d["v"] = enc(op.get("v"))
    if op.get("inst"):
        d["inst"] = op["inst"]
    return d


def op_from_json(d):
    if d["op"] == "create":
        return {"op": "create"}
    if d["op"] in ("set", "client"):
        op = {"op": d["op"], "v": dec(d["v"])}
        if d["op"] == "set":
            op["notify"] = d.get("notify", True)
        elif d.get("cb"):
            op["cb"] = d["cb"] if isinstance(d["cb"], str) else list(d["cb"])
    elif d["op"] == "read":
        g = d["g"]
        op = {"op": "read", "g": ["returns", dec(g[1])] if g[0] == "returns" else list(g), "hap": bool(d.get("hap"))}
    else:
        props = None
        if d.get("props") is not None:
            props = {}
            for k, v in d["props"].items():
                props[k] = dec(v) if k in ("minValue", "maxValue", "minStep") else v
        op = {"op": d["op"], "props": props, "valid_values": d.get("valid_values")}
        if d["op"] == "configure":
            op["v"] = dec(d["v"])
    if d.get("inst"):
        op["inst"] = d["inst"]
    return op


def props_to_json(props):
    out = {}
    for k, v in props.items():
        out[k] = enc(v) if k in ("minValue", "maxValue", "minStep") else v
    return out


def props_from_json(d):
    return {k: (dec(v) if k in ("minValue", "maxValue", "minStep") else v) for k, v in d.items()}


# --------------------------------------------------------------------------- running the real code


class Recorder:
    """Recording broker (publish / iid lookup) and setter callback."""

    def __init__(self):
        self.log: List[Any] = []
        self.iid_manager = self

    def get_iid(self, _char):
        return 1

    def publish(self, value, sender, sender_client_addr=None, immediate=False):
        self.log.append(["notify", value])

    def callback(self, value):
        self.log.append(["callback", value])

    def raiser(self, cls):
        def cb(value):
            self.log.append(["callback", value])
            raise APP_EXC[cls]("the application's setter callback failed")
        return cb


class Other(Exception):
    """What an application callback raises in these scripts (the model's exception class `Other`)."""


APP_EXC = {"Other": Other, "ValueError": ValueError}


_SERVICE_FOR: Dict[str, Optional[str]] = {}


def _service_for(loader, name) -> Optional[str]:
    """A shipped service that has the characteristic among its required ones (None: no such service)."""
    if name not in _SERVICE_FOR:
        _SERVICE_FOR[name] = next(
            (sn for sn, sd in loader.serv_types.items() if name in sd.get("RequiredCharacteristics", [])), None
        )
    return _SERVICE_FOR[name]


class World:
    """The characteristics of one script.  Shipped definitions: every instance comes from the SAME
    `Loader` (as in an application: two Thermostats on a bridge), each inside its own `Service`
    obtained with `loader.get_service` (or `Service` + `loader.get_char` when no shipped service
    requires the characteristic).  Generated property sets: `Characteristic(...)` in a plain Service."""

    def __init__(self, case):
        self.case = case
        self.ch, ld = _pyhap()
        self.svc_mod = importlib.import_module("pyhap.service")
        self.loader = ld.Loader() if case.get("def") is not None else None
        self.insts: List[Dict[str, Any]] = []

    def create(self):
        case, ch = self.case, self.ch
        rec = Recorder()
        if self.loader is not None:
            name = case["def"]
            sname = _service_for(self.loader, name)
            if sname is not None:
                svc = self.loader.get_service(sname)
                char = svc.get_characteristic(name)
            else:
                svc = self.svc_mod.Service(ch.UUID(PLAIN_UUID), "holder")
                svc.add_characteristic(self.loader.get_char(name))
                char = svc.get_characteristic(name)
        else:
            props = copy.deepcopy(case["props"])
            uuid = ch.UUID(ALWAYS_NULL_UUID if case["always_null"] else PLAIN_UUID)
            svc = self.svc_mod.Service(ch.UUID(PLAIN_UUID), "holder")
            svc.add_characteristic(ch.Characteristic("generated", uuid, props))
            char = svc.get_characteristic("generated")
        char.allow_invalid_client_values = case["cfg"]["allowInvalid"]
        char.broker = rec
        if case["cfg"]["hasSetter"]:
            char.setter_callback = rec.callback
        inst = {"char": char, "svc": svc, "rec": rec, "default_cb": "returns" if case["cfg"]["hasSetter"] else "absent"}
        self.insts.append(inst)
        return inst


def _numeric(x):
    return isinstance(x, (int, float))


def _step_entry(sr: Dict[str, Any], value, step):
    if not (_numeric(value) and _numeric(step)):
        return
    if not value or not step:  # (NaN is truthy)
        return
    key = repr((enc(value), enc(step)))
    if key in sr:
        return
    try:
        r = step_fn()(value, step)
        if not _numeric(r) or isinstance(r, bool):
            res = {"err": "BadStepResult"}
        else:
            res = {"ok": enc(r), "_f": r}
    except Exception as ex:  # noqa: BLE001
        res = {"err": type(ex).__name__}
    sr[key] = [enc(value), enc(step), res]
    if key not in STEP_REF:
        # diagnostic only: the source's expression against the exact rational reference
        try:
            kind, want = steprat.step_reference(value, step)
        except Exception:  # noqa: BLE001
            kind, want = "skip", None
        if kind == "skip":
            STEP_REF[key] = "skipped"
        elif kind == "ok":
            STEP_REF[key] = "agree" if ("ok" in res and enc(want) == res["ok"]) else "differ"
        else:
            STEP_REF[key] = "agree" if res.get("err") == want else "differ"
        if STEP_REF[key] == "differ" and len(STEP_DIFF) < 5:
            STEP_DIFF.append(f"value={value!r:.40} step={step!r:.20}: source {res.get('ok', res.get('err'))!r:.60} "
                             f"reference {enc(want) if kind == 'ok' else want!r:.60}")


def _enc_props_safe(props):
    try:
        return enc_props(props)
    except Exception as ex:  # noqa: BLE001
        return "unencodable:" + type(ex).__name__


def observe(inst, exn, ret=None):
    o = _observe(inst, exn)
    if ret is not None:
        o["ret"] = ret
    return o


def _observe(inst, exn):
    char, rec = inst["char"], inst["rec"]
    try:
        hap = char.to_HAP()
        rep = enc(hap["value"]) if "value" in hap else ABSENT
    except Exception as ex:  # noqa: BLE001
        rep = "raised:" + type(ex).__name__
    out = [[k, enc(v)] for k, v in rec.log]
    return {"exn": exn, "value": enc(char.value), "props": _enc_props_safe(char.properties), "hap": rep, "out": out}


def resolve_cb(inst, op):
    """what the setter callback does on this controller write (explicit, else the script's default)"""
    return op.get("cb") or inst["default_cb"]


def apply_op(inst, op):
    """Returns the encoded result of a read (None for the other operations)."""
    char, rec = inst["char"], inst["rec"]
    if op["op"] == "set":
        char.set_value(op["v"], should_notify=op.get("notify", True))
    elif op["op"] == "client":
        cb = resolve_cb(inst, op)
        # callbacks are installed / removed between operations, as an application may do
        char.setter_callback = None if cb == "absent" else (rec.callback if cb == "returns" else rec.raiser(cb[1]))
        char.client_update_value(op["v"], ("10.0.0.7", 51234))
    elif op["op"] == "read":
        g = op["g"]
        if g[0] == "returns":
            char.getter_callback = lambda v=g[1]: v
        elif g[0] == "raises":
            def boom(cls=g[1]):
                raise APP_EXC[cls]("the application's getter callback failed")
            char.getter_callback = boom
        try:
            if op.get("hap"):
                hap = char.to_HAP()
                return enc(hap["value"]) if "value" in hap else ABSENT
            return enc(char.get_value())
        finally:
            char.getter_callback = None
    elif op["op"] == "override":
        char.override_properties(
            properties=copy.deepcopy(op.get("props")), valid_values=copy.deepcopy(op.get("valid_values"))
        )
    else:  # configure: through the real Service.configure_char, as an application does
        inst["svc"].configure_char(
            char.display_name, properties=copy.deepcopy(op.get("props")),
            valid_values=copy.deepcopy(op.get("valid_values")), value=op.get("v"),
        )


def _snapshot(inst):
    o = observe(inst, None)
    return (o["value"], o["hap"], o["props"])


def _inst_info(inst, events):
    char = inst["char"]
    return {"stored": char.value, "reported": _reported(char), "props": char.properties, "events": events}


def run_impl(case, judge=None):
    """Run one script on real Characteristic objects.
    Returns (per-instance traces, sr-table, always_null, sibling_changes).
    `judge(info)` is called after construction and after every op with what the oracle needs:
    the state of EVERY instance."""
    sr: Dict[str, Any] = {}
    always_null = _def_always_null(case["def"]) if case.get("def") is not None else case["always_null"]
    world = World(case)
    traces: List[Dict[str, Any]] = []
    changes: List[Any] = []

    def add_instance(i):
        try:
            inst = world.create()
        except Exception as ex:  # noqa: BLE001
            traces.append({"init": {"err": type(ex).__name__}, "steps": []})
            world.insts.append(None)
            return
        first = observe(inst, None)
        traces.append({"init": {"ok": first["value"], "props": first["props"], "hap": first["hap"]}, "steps": []})
        if judge:
            judge({"i": i, "op": None if i == -1 else {"op": "create"}, "raised": None, "target": len(world.insts) - 1,
                   "before": None, "insts": [_inst_info(x, []) if x else None for x in world.insts],
                   "always_null": always_null})

    for _ in range(case.get("n_inst", 1)):
        add_instance(-1)
    snaps = [(_snapshot(x) if x else None) for x in world.insts]
    for i, op in enumerate(case["ops"]):
        if op["op"] == "create":
            add_instance(i)
            snaps.append(_snapshot(world.insts[-1]) if world.insts[-1] else None)
            continue
        j = op.get("inst", 0)
        inst = world.insts[j]  # IndexError for a script that addresses a missing instance
        if inst is None:
            continue
        for x in world.insts:
            if x:
                x["rec"].log.clear()
        char = inst["char"]
        before = char.value
        cur_step = char.properties.get("minStep")
        if op["op"] in ("set", "client"):
            _step_entry(sr, op["v"], cur_step)
        elif op["op"] == "read":
            if op["g"][0] == "returns":
                _step_entry(sr, op["g"][1], cur_step)
        else:
            new_step = (op.get("props") or {}).get("minStep", cur_step)
            _step_entry(sr, before, new_step)
            if op["op"] == "configure":
                _step_entry(sr, op.get("v"), new_step)
        exn = None
        ret = None
        try:
            ret = apply_op(inst, op)
        except Exception as ex:  # noqa: BLE001  (an application would catch ValueError and carry on)
            exn = type(ex).__name__
        if op["op"] == "read" and exn:
            ret = "raised"
        events = [list(x["rec"].log) if x else [] for x in world.insts]
        traces[j]["steps"].append(observe(inst, exn, ret))
        for k, x in enumerate(world.insts):
            if x is None:
                continue
            now = _snapshot(x)
            if k != j and (now != snaps[k] or events[k]):
                changes.append({"op_index": i, "op": op_to_json(op), "sibling": k,
                                "before": snaps[k], "after": now, "sibling_events": [[a, enc(b)] for a, b in events[k]]})
            snaps[k] = now
        if judge:
            judge({"i": i, "op": op, "raised": exn, "target": j, "before": before, "ret": ret,
                   "cb": resolve_cb(inst, op) if op["op"] == "client" else None,
                   "insts": [_inst_info(x, events[k]) if x else None for k, x in enumerate(world.insts)],
                   "always_null": always_null})
    return traces, sr, always_null, changes


_NOVALUE = object()


def _reported(char):
    try:
        hap = char.to_HAP()
    except Exception:  # noqa: BLE001
        return _NOVALUE
    return hap.get("value", _NOVALUE)


# --------------------------------------------------------------------------- the oracle (property itself)

_SHOWN = ("Format", "minValue", "maxValue", "minStep", "ValidValues", "maxLen")
# Report a getter callback's answer that is stored / reported outside the declared valid values as a property
# failure?  False: it is counted (evidence note) - the property's quantifier lists set / controller-write /
# override operations and the lead has not ruled on getter answers (design/audit/char.md, section 3).  True: the
# unrepaired tree then yields `C09:stored-not-a-valid-value:after-read` with a replay, the tree with
# design/fixes/C09-getter-valid-values.patch is clean.
JUDGE_GETTER_ANSWERS = True
GETTER_UNDECLARED = [0]  # getter answers stored / reported outside the declared valid values (counted, see judge_case)


def judge_case(case) -> List[Dict[str, str]]:
    """Evaluate C09 on the real behaviour of one script; returns the list of failures found.
    After every operation EVERY instance is judged against ITS OWN declared properties."""
    fails: List[Dict[str, str]] = []
    allow = case["cfg"]["allowInvalid"]

    def bad(sig, text, i):
        fails.append({"signature": sig, "description": text, "at": i})

    # instances whose stored value is a getter callback's answer (value, properties at that time):
    # get_value() stores to_valid_value(answer) WITHOUT the valid-values check; whether that is inside
    # the property is an open reading question (design/audit/char.md), so valid-values membership of such a
    # value is counted (GETTER_UNDECLARED) instead of being reported; format / type / range / length are judged
    tainted: Dict[int, Any] = {}

    def judge(info):
        if fails:
            return  # judge a history up to its first failure; what follows starts from a bad state
        an = info["always_null"]
        i, op, raised, target = info["i"], info["op"], info["raised"], info["target"]
        kind = op["op"] if op else "init"
        tgt = info["insts"][target]
        # the exception came out of the application's own setter callback: the characteristic did not
        # reject the write (sentence 2 speaks of writes the characteristic rejects)
        cb = info.get("cb")
        app_raised = bool(raised and kind == "client" and isinstance(cb, (list, tuple)) and raised == cb[1]
                          and tgt is not None and any(a == "callback" for a, _ in tgt["events"]))
        # (2) a rejected write leaves the value unchanged and emits nothing
        if raised and not app_raised and kind in ("set", "client") and tgt is not None:
            if enc(info["before"]) != enc(tgt["stored"]):
                bad("C09:rejected-write-changed-value",
                    f"{kind}({op['v']!r:.60}) raised {raised} but the stored value went from "
                    f"{info['before']!r:.40} to {tgt['stored']!r:.40}", i)
            if tgt["events"]:
                bad("C09:rejected-write-emitted",
                    f"{kind}({op['v']!r:.60}) raised {raised} but emitted {tgt['events']!r:.80}", i)
        # a read that raises (getter raised / its answer was refused) stores nothing
        if raised and kind == "read" and tgt is not None and enc(info["before"]) != enc(tgt["stored"]):
            bad("C09:failed-read-changed-value",
                f"read({_show_op(op)}) raised {raised} but the stored value went from "
                f"{info['before']!r:.40} to {tgt['stored']!r:.40}", i)
        if tgt is not None and kind != "init":
            if kind == "read" and not raised and op["g"][0] == "returns":
                tainted[target] = (enc(tgt["stored"]), _enc_props_safe(tgt["props"]))
            elif target in tainted and tainted[target] != (enc(tgt["stored"]), _enc_props_safe(tgt["props"])):
                del tainted[target]
        # (1) stored / reported / notified / callback values conform to the declared constraints
        order = [target] + [k for k in range(len(info["insts"])) if k != target]
        for k in order:
            st = info["insts"][k]
            if st is None or fails:
                continue
            props = st["props"]
            sibling = k != target and kind not in ("init", "create")
            if not ref.admits_conforming(props):
                if kind == "init" and case.get("def") is not None:
                    # a shipped definition whose declared set admits no conforming value at all
                    shown = {x: props[x] for x in _SHOWN if x in props}
                    bad("C09:shipped-definition-inconsistent",
                        f"the declared constraints {shown!r:.200} admit no conforming value, so the stored value "
                        f"{st['stored']!r:.40} cannot satisfy them", i)
                continue  # no conforming value exists for an inconsistent set (the generator avoids them)
            seen = [("notified" if a == "notify" else "callback-argument", v) for a, v in st["events"]]
            seen.append(("stored", st["stored"]))
            if st["reported"] is not _NOVALUE:
                seen.append(("reported", st["reported"]))
            if k == target and kind == "read" and info.get("ret") not in (None, ABSENT, "raised"):
                seen.append(("returned", dec(info["ret"])))
            # the opt-in exempts CONTROLLER values: what a successful set_value stores / notifies and what an
            # accepted override leaves behind is judged without it
            strict = k == target and not raised and kind in ("set", "override")
            for where, v in seen:
                why = ref.nonconformity(props, an, allow and not strict, v)
                if why == "not-a-valid-value" and k in tainted and where in ("stored", "reported", "returned"):
                    GETTER_UNDECLARED[0] += 1
                    if not JUDGE_GETTER_ANSWERS:
                        continue
                if why and not fails:
                    shown = {x: props[x] for x in _SHOWN if x in props}
                    if sibling and kind in ("override", "configure"):
                        sig = "C09:sibling-changed-by-override"
                    elif sibling:
                        sig = f"C09:sibling-{where}-{why}"
                    elif raised and kind == "override":
                        # the override raised after it had replaced the property set
                        sig = "C09:override-raised-after-replacing-properties"
                    elif kind == "configure":
                        sig = f"C09:{where}-{why}:after-configure"
                    elif kind == "read":
                        sig = f"C09:{where}-{why}:after-read"
                    elif an and where in ("notified", "callback-argument") and why == "not-a-valid-value":
                        sig = "C09:always-null-emits-nonconforming-value"
                    elif strict and allow and why == "not-a-valid-value" and ref.nonconformity(props, an, True, v) is None:
                        sig = f"C09:application-{where}-value-exempted-by-controller-opt-in"
                    else:
                        sig = f"C09:{where}-{why}" + (":always-null" if an else "")
                    who = f"instance {k}" + (f" (the operation was addressed to instance {target})" if sibling else "")
                    bad(sig,
                        f"after {kind}" + (f"({_show_op(op)})" if op and kind != "create" else "")
                        + (f" raising {raised}" if raised else "")
                        + f" the {where} value {v!r:.60} of {who} violates its declared constraints {shown!r:.200}", i)

    try:
        run_impl(case, judge)
    except IndexError:
        return []  # (a shrunk script that addresses an instance it no longer creates)
    return fails


def _show_op(op):
    if op["op"] == "create":
        return ""
    if op["op"] in ("set", "client"):
        return f"{op['v']!r:.60}" + (f", setter callback {op['cb']}" if op.get("cb") else "")
    if op["op"] == "read":
        return ("to_HAP" if op.get("hap") else "get_value") + ", getter callback " + \
            (f"answers {op['g'][1]!r:.40}" if op["g"][0] == "returns" else " ".join(op["g"]))
    t = f"properties={op.get('props')!r:.80}, valid_values={op.get('valid_values')!r:.60}"
    return t + (f", value={op.get('v')!r:.40}" if op["op"] == "configure" else "")


def case_to_replay(case):
    r = {"kind": "script", "def": case.get("def"), "cfg": case["cfg"], "ops": [op_to_json(o) for o in case["ops"]],
         "n_inst": case.get("n_inst", 1)}
    if case.get("def") is None:
        r["props"] = props_to_json(case["props"])
        r["always_null"] = case["always_null"]
    return r


def replay_to_case(r):
    case = {"def": r.get("def"), "cfg": r["cfg"], "ops": [op_from_json(o) for o in r["ops"]],
            "n_inst": r.get("n_inst", 1)}
    if case["def"] is None:
        case["props"] = props_from_json(r["props"])
        case["always_null"] = r["always_null"]
    return case


def oracle(ctx: Ctx, case):
    fails = judge_case(case)
    for f in fails:
        if any(x.signature == f["signature"] for x in ctx.failures):
            continue
        # shrink the script: keep only the ops needed for this failure shape
        sig = f["signature"]
        ops = case["ops"][: f["at"] + 1] if f["at"] >= 0 else []

        def still(cand, sig=sig):
            c = dict(case, ops=cand)
            return any(x["signature"] == sig for x in judge_case(c))

        if len(ops) > 1:
            ops = delta_min(ops, still, max_steps=80)
        small = dict(case, ops=ops)
        again = [x for x in judge_case(small) if x["signature"] == sig]
        desc = (again[0] if again else f)["description"]
        who = case["def"] if case.get("def") is not None else "generated property set"
        ctx.fail(sig, f"[{who}] {desc}", case_to_replay(small))
    return fails


# --------------------------------------------------------------------------- generators

HUGE = 10**400
COMMON_POOL = [
    0, 1, -1, 2, 3, 7, 0.0, 0.5, -0.5, 1.5, 2.5, 0.1, 0.05, 0.15, 0.25, 0.35, 1e-320, 1e22,
    True, False, None, "", "abc", "7", "x" * 300, "é中" * 40, [1], [], {}, {"a": 1},
    float("nan"), float("inf"), float("-inf"), HUGE, -HUGE, 1e308, -1e308,
    119, 100, 101, 255, 256, 65535, 65536, 2**32, 2**64, -273.15,
]


def value_pool(props) -> List[Any]:
    pool = list(COMMON_POOL)
    lo, hi, st = props.get("minValue"), props.get("maxValue"), props.get("minStep")
    for b in (lo, hi):
        if b is not None:
            pool += [b, b - 1, b + 1, b - 0.5, b + 0.5, float(b), math.nextafter(float(b), math.inf),
                     math.nextafter(float(b), -math.inf)]
    if lo is not None and hi is not None:
        pool += [(lo + hi) / 2, (lo + hi) // 2 if isinstance(lo + hi, int) else lo + (hi - lo) / 3]
    if st:
        base = lo if lo is not None else 0
        pool += [base + st / 2, base + st, base + 3 * st / 2, base + 2.5 * st, base + st * 0.49, base + 7 * st]
    for x in ref.valid_values(props):
        pool += [x, float(x), x + 0.5]
    vv = ref.valid_values(props)
    if vv:
        pool += [max(vv) + 1, min(vv) - 1, bool(vv[0])]
    ml = props.get("maxLen", 64)
    pool += ["y" * ml, "y" * (ml + 1), "y" * max(ml - 1, 0)]
    return pool


def merged_props(cur, op):
    """Property dict after an override (generator bookkeeping; mirrors dict.update only)."""
    p, vv = op.get("props"), op.get("valid_values")
    if not p and not vv:
        return cur
    if p and "maxLen" in p and p["maxLen"] > 256:
        return cur
    new = dict(cur)
    if p:
        new.update(p)
    if vv:
        new["ValidValues"] = vv
    return new


def _vv_dict(vals):
    return {f"v{i}": x for i, x in enumerate(vals)}


def gen_override(rng, cur, stored_hint=None):
    """One override op whose resulting property set is consistent (or which is rejected up front)."""
    fmt = cur["Format"]
    for _ in range(20):
        r = rng.random()
        props: Optional[Dict[str, Any]] = None
        vv = None
        if r < 0.05:
            props = rng.choice([None, {}])  # rejected: nothing to override
        elif r < 0.10:
            props = {"unit": rng.choice(["celsius", "percentage"])}
        elif fmt == "string":
            props = {"maxLen": rng.choice([0, 1, 2, 5, 63, 64, 65, 255, 256, 257, 300])}
        elif fmt in NUMERIC:
            integer = fmt in INT_FORMATS
            lo, hi = cur.get("minValue"), cur.get("maxValue")
            anchor = rng.choice([0, 1, 5, 10, 50, 100, -20, 1000, lo if lo is not None else 0, hi if hi is not None else 3])
            width = rng.choice([0, 1, 2, 3, 10, 100, 0.5, 0.25, 1000])
            if integer:
                a, b = int(anchor), int(anchor) + int(width)
                if rng.random() < 0.2:
                    a, b = float(a), float(b)
            else:
                a, b = rng.choice([anchor, float(anchor), anchor + 0.25]), anchor + width + rng.choice([0, 0.5])
                if b < a:
                    a, b = b, a
            props = {}
            kind = rng.random()
            if kind < 0.45:
                props.update({"minValue": a, "maxValue": b})
            elif kind < 0.55:
                props["maxValue"] = b
            elif kind < 0.65:
                props["minValue"] = a
            if rng.random() < 0.45:
                props["minStep"] = rng.choice([1, 2, 5, 10, 90, 0.1, 0.5, 0.25, 0.001, 0, 0.0, 1e-320, 3, 0.3])
            if rng.random() < 0.35:
                nlo = props.get("minValue", lo)
                nhi = props.get("maxValue", hi)
                base = int(math.ceil(nlo)) if nlo is not None else 0
                top = int(math.floor(nhi)) if nhi is not None else base + 6
                top = min(top, base + 8)
                cand = list(range(base, top + 1))
                if cand:
                    pick = rng.sample(cand, rng.randint(1, min(4, len(cand))))
                    if rng.random() < 0.5:
                        vv = _vv_dict(pick)
                    else:
                        props["ValidValues"] = _vv_dict(pick)
            if not props and not vv:
                props = {"minStep": 1}
        elif fmt == "bool":
            props = {"unit": "x"} if rng.random() < 0.5 else {"Format": "uint8", "minValue": 0, "maxValue": 1}
        else:
            props = {"unit": "x"}
        if rng.random() < 0.04 and props is not None:
            props = dict(props)
            props["Format"] = rng.choice(NUMERIC + ["string", "bool", "tlv8"])
        if rng.random() < 0.06:
            props = dict(props or {})
            props["Permissions"] = rng.choice([["pr", "pw", "ev"], ["pw"], ["pr", "ev"], ["pw", "ev"]])
        if rng.random() < 0.08:
            # an override that is REFUSED (maxLen above 256), alone or carrying other constraints:
            # nothing of it may stay behind
            props = dict(props or {}) if rng.random() < 0.75 else {}
            props["maxLen"] = rng.choice([257, 300, 2**31])
        op = {"op": "override", "props": props, "valid_values": vv}
        new = merged_props(cur, op)
        if ref.consistent(new):
            return op, new
    op = {"op": "override", "props": {"unit": "x"}, "valid_values": None}
    return op, merged_props(cur, op)


FALSY = [0, 0.0, False, "", None]
P_READ = 0.12


def gen_ops(rng, props, n, p_override=0.2, n_inst=1):
    """Random ops; with n_inst > 1 each op is addressed to a random instance (the generator keeps
    one property dict per instance: instances are independent on a healthy tree)."""
    ops = []
    curs = [dict(props) for _ in range(n_inst)]
    p_conf = 0.12
    for _ in range(n):
        if n_inst > 1 and rng.random() < 0.06:
            ops.append({"op": "create"})
            curs.append(dict(props))
            continue
        j = rng.randrange(len(curs))
        cur = curs[j]
        r = rng.random()
        if r < p_override:
            op, curs[j] = gen_override(rng, cur)
        elif r < p_override + p_conf:
            # Service.configure_char(properties=..., valid_values=..., value=...)
            if rng.random() < 0.8:
                ov, new = gen_override(rng, cur)
            else:
                ov, new = {"props": None, "valid_values": None}, cur
            v = rng.choice(FALSY) if rng.random() < 0.4 else rng.choice(value_pool(new))
            op = {"op": "configure", "props": ov["props"], "valid_values": ov["valid_values"], "v": v}
            curs[j] = new
        elif r < p_override + p_conf + P_READ:
            g = rng.random()
            if g < 0.2:
                getter = ["absent"]
            elif g < 0.35:
                getter = ["raises", rng.choice(["Other", "ValueError"])]
            else:
                getter = ["returns", rng.choice(value_pool(cur))]
            op = {"op": "read", "g": getter, "hap": rng.random() < 0.5}
        else:
            v = rng.choice(value_pool(cur))
            if r < p_override + p_conf + P_READ + (1 - p_override - p_conf - P_READ) * 0.5:
                op = {"op": "set", "v": v, "notify": rng.random() < 0.9}
            else:
                op = {"op": "client", "v": v}
                if rng.random() < 0.35:
                    op["cb"] = rng.choice(["absent", "returns", ["raises", "Other"], ["raises", "ValueError"]])
        if j:
            op["inst"] = j
        ops.append(op)
    return ops


def _narrowings(props):
    """(legal value for the shipped set, narrowing override that excludes it) pairs."""
    fmt = props["Format"]
    out = []
    vv = ref.valid_values(props)
    lo, hi = props.get("minValue"), props.get("maxValue")
    if fmt in NUMERIC:
        integer = fmt in INT_FORMATS
        if vv:
            keep = [x for x in vv if x != vv[-1]][:2]
            if keep:
                out.append((vv[-1], {"props": None, "valid_values": _vv_dict(keep)}))
                out.append((vv[-1], {"props": {"ValidValues": _vv_dict(keep)}, "valid_values": None}))
        else:
            a = lo if lo is not None else 0
            top = hi if hi is not None else a + 80
            if top != a:
                a2 = a if (not integer or isinstance(a, int)) else int(math.ceil(a))
                out.append((top, {"props": {"minValue": a2, "maxValue": a2}, "valid_values": None}))
            if hi is not None and lo is not None and hi - lo >= 4:
                q = (hi - lo) // 4 if integer else (hi - lo) / 4
                out.append((hi, {"props": {"minValue": lo + q, "maxValue": hi - q}, "valid_values": None}))
                out.append((lo, {"props": {"minValue": lo + q, "maxValue": hi - q}, "valid_values": None}))
    elif fmt == "string":
        out.append(("z" * 40, {"props": {"maxLen": 5}, "valid_values": None}))
    return [(v, ov) for v, ov in out if ref.consistent(merged_props(props, dict(ov, op="override")))]


def sibling_scripts(name, props) -> List[Dict[str, Any]]:
    """Two (then three) characteristics of one type from the same loader: a value legal for the
    shipped definition on one, a narrowing override / configure on ANOTHER, a third created later."""
    cases = []
    cfg = {"allowInvalid": False, "hasSetter": True}
    for legal, ov in _narrowings(props)[:3]:
        for kind in ("override", "configure"):
            narrow = dict(ov, op=kind)
            if kind == "configure":
                narrow["v"] = None
            cases.append({"def": name, "cfg": cfg, "n_inst": 2, "ops": [
                {"op": "set", "v": legal, "notify": True, "inst": 1},
                narrow,  # addressed to instance 0
                {"op": "create"},
                {"op": "set", "v": legal, "notify": True, "inst": 2},
                {"op": "client", "v": legal, "inst": 1},
            ]})
    if not cases:
        cases.append({"def": name, "cfg": cfg, "n_inst": 2, "ops": [
            {"op": "override", "props": {"unit": "x"}, "valid_values": None},
            {"op": "create"},
            {"op": "set", "v": 1, "notify": True, "inst": 2},
        ]})
    return cases


def refused_override_scripts(name, props) -> List[Dict[str, Any]]:
    """Overrides that `_validate_properties` refuses (maxLen 257 / 300 / 2**31), alone and combined with
    range / step / valid-values / format changes the stored value does not satisfy, and a valid
    override after a refused one: a refused call is a no-op, the history goes on as if it never happened."""
    cases = []
    cfg = {"allowInvalid": False, "hasSetter": True}
    pairs = _narrowings(props)[:2] or [(1, {"props": {"minStep": 5}, "valid_values": None})]
    for n, (legal, ov) in enumerate(pairs):
        big = [257, 300, 2**31][n % 3]
        mixed = dict(ov, op="override", props=dict(ov.get("props") or {}, maxLen=big))
        only = {"op": "override", "props": {"maxLen": big}, "valid_values": None}
        valid = dict(ov, op="override")
        cases.append({"def": name, "cfg": cfg, "ops": [
            {"op": "set", "v": legal, "notify": True}, mixed, {"op": "client", "v": legal}]})
        cases.append({"def": name, "cfg": cfg, "ops": [
            {"op": "set", "v": legal, "notify": True}, only, valid, {"op": "client", "v": legal}]})
        cases.append({"def": name, "cfg": cfg, "ops": [
            {"op": "set", "v": legal, "notify": True},
            dict(mixed, op="configure", v=None), dict(only, op="configure", v=0), valid]})
    fmt_change = {"op": "override", "props": {"Format": "string" if props["Format"] != "string" else "uint8", "maxLen": 300,
                                              "minStep": 7}, "valid_values": None}
    cases.append({"def": name, "cfg": cfg, "ops": [{"op": "set", "v": 1, "notify": True}, fmt_change,
                                               {"op": "set", "v": 2, "notify": True}]})
    return cases


def configure_scripts(name, props) -> List[Dict[str, Any]]:
    """`Service.configure_char(properties / valid_values, value)` with the stored value made illegal
    by the new constraints and a value that is falsy (`if value:` skips it), rejected by set_value
    (the application catches the error), absent, or fine."""
    cases = []
    cfg = {"allowInvalid": False, "hasSetter": True}
    fmt = props["Format"]
    for legal, ov in _narrowings(props)[:2]:
        new = merged_props(props, dict(ov, op="override"))
        good = ref.valid_values(new)[0] if ref.valid_values(new) else new.get("minValue", new.get("maxValue", 1))
        values = [0, 0.0, False, "", None, "abc", [1], good]
        if fmt in NUMERIC:
            values += [float("nan"), (max(ref.valid_values(new)) + 7) if ref.valid_values(new) else HUGE]
        for v in values:
            cases.append({"def": name, "cfg": cfg, "ops": [
                {"op": "set", "v": legal, "notify": True},
                dict(ov, op="configure", v=v),
                {"op": "client", "v": legal},
            ]})
    # no override part at all: only the value
    for v in (0, "", 1, "abc", True):
        cases.append({"def": name, "cfg": cfg, "ops": [{"op": "configure", "props": None, "valid_values": None, "v": v},
                                                   {"op": "configure", "props": {}, "valid_values": {}, "v": v}]})
    return cases


def callback_scripts(name, props) -> List[Dict[str, Any]]:
    """Application callbacks: a getter callback answering with in-range, out-of-range, undeclared,
    wrongly typed values (through get_value() and through to_HAP()), or raising; a setter callback that
    raises on a legal and on an illegal write; callbacks installed and removed between operations."""
    cases = []
    cfg = {"allowInvalid": False, "hasSetter": True}
    fmt = props["Format"]
    vv = ref.valid_values(props)
    lo, hi = props.get("minValue"), props.get("maxValue")
    answers: List[Any] = [None, "abc", True, [1]]
    if fmt in NUMERIC:
        answers += [float("nan"), HUGE, 2.5, (max(vv) + 1) if vv else 7, vv[-1] if vv else 1]
        answers += [b + d for b in (lo, hi) if b is not None for d in (-1, 1)]
    elif fmt == "string":
        answers += ["y" * (props.get("maxLen", 64) + 1), 12.5]
    legal = vv[-1] if vv else (hi if hi is not None else (lo if lo is not None else 1))
    for hap in (False, True):
        ops = []
        for a in answers:
            ops.append({"op": "read", "g": ["returns", a], "hap": hap})
        ops.append({"op": "read", "g": ["raises", "Other"], "hap": hap})
        ops.append({"op": "read", "g": ["absent"], "hap": hap})
        for i in range(0, len(ops), 8):
            cases.append({"def": name, "cfg": cfg, "ops": ops[i : i + 8] + [{"op": "set", "v": legal, "notify": True}]})
    bad = (max(vv) + 1) if vv else "abc"
    cases.append({"def": name, "cfg": cfg, "ops": [
        {"op": "client", "v": legal, "cb": ["raises", "Other"]},
        {"op": "client", "v": bad, "cb": ["raises", "ValueError"]},
        {"op": "client", "v": legal, "cb": "absent"},
        {"op": "read", "g": ["returns", bad], "hap": False},
        {"op": "set", "v": bad, "notify": True},
        {"op": "override", "props": {"unit": "x"}, "valid_values": None},
        {"op": "client", "v": legal, "cb": ["raises", "ValueError"]},
        {"op": "override", "props": {"Permissions": ["pw"]}, "valid_values": None},
        {"op": "read", "g": ["returns", legal], "hap": True},
        {"op": "read", "g": ["returns", legal], "hap": False},
    ]})
    # the opt-in exempts controller writes, not application updates
    if vv:
        cases.append({"def": name, "cfg": {"allowInvalid": True, "hasSetter": True}, "ops": [
            {"op": "client", "v": max(vv) + 1}, {"op": "set", "v": max(vv) + 1, "notify": True},
            {"op": "override", "props": {"unit": "x"}, "valid_values": None},
            {"op": "client", "v": max(vv) + 2}, {"op": "configure", "props": None, "valid_values": None, "v": max(vv) + 2},
        ]})
    return cases


def boundary_scripts(name, props, rng) -> List[Dict[str, Any]]:
    """Deterministic per-definition scripts: the whole pool through both write paths, and the
    shapes named in DESIGN (huge stored value followed by a restricting override, override that
    invalidates the current value)."""
    cases = []
    pool = value_pool(props)
    cfg = {"allowInvalid": False, "hasSetter": True}
    for kind in ("set", "client"):
        ops = [({"op": "set", "v": v, "notify": True} if kind == "set" else {"op": "client", "v": v}) for v in pool]
        for i in range(0, len(ops), 12):
            cases.append({"def": name, "cfg": cfg, "ops": ops[i : i + 12]})
    fmt = props["Format"]
    if fmt in NUMERIC:
        integer = fmt in INT_FORMATS
        lo, hi = props.get("minValue"), props.get("maxValue")
        a = lo if lo is not None else 0
        b = hi if hi is not None else 5
        for big, narrow in ((1e308, {"maxValue": b, "minStep": 0.001}), (-1e308, {"minValue": a, "minStep": 0.001}),
                            (HUGE, {"maxValue": b, "minStep": 0.5})):
            if not integer or True:
                op = {"op": "override", "props": dict(narrow), "valid_values": None}
                if ref.consistent(merged_props(props, op)):
                    cases.append({"def": name, "cfg": cfg, "ops": [{"op": "set", "v": big, "notify": True}, op,
                                                               {"op": "set", "v": a, "notify": True}]})
        # override that makes the current value invalid
        mid = b if hi is not None else 3
        ops = [{"op": "set", "v": mid, "notify": True},
               {"op": "override", "props": {"minValue": a, "maxValue": a}, "valid_values": None},
               {"op": "client", "v": mid},
               {"op": "override", "props": None, "valid_values": _vv_dict([a if integer or isinstance(a, int) else int(math.ceil(a))])}]
        ok_ops, cur = [], dict(props)
        for op in ops:
            if op["op"] == "override":
                new = merged_props(cur, op)
                if not ref.consistent(new):
                    continue
                cur = new
            ok_ops.append(op)
        cases.append({"def": name, "cfg": dict(cfg, allowInvalid=False), "ops": ok_ops})
    if fmt == "string":
        cases.append({"def": name, "cfg": cfg, "ops": [
            {"op": "set", "v": "z" * 64, "notify": True},
            {"op": "override", "props": {"maxLen": 5}, "valid_values": None},
            {"op": "client", "v": "q" * 300},
            {"op": "override", "props": {"maxLen": 300}, "valid_values": None},
            {"op": "override", "props": {"maxLen": 256}, "valid_values": None},
            {"op": "set", "v": "w" * 300, "notify": True}]})
    return cases


def random_props(rng):
    """A random consistent property set (generated configurations)."""
    for _ in range(50):
        fmt = rng.choice(NUMERIC * 3 + ["string", "string", "bool"] + OTHER_FORMATS[:1])
        p: Dict[str, Any] = {"Format": fmt, "Permissions": rng.choice([["pr", "pw", "ev"], ["pw"], ["pr"]])}
        if fmt in NUMERIC:
            integer = fmt in INT_FORMATS
            lo = rng.choice([0, 1, -90, 10, -273.1, 0.0001, 2.55, 140, -5])
            width = rng.choice([0, 1, 3, 7.5, 100, 255, 360, 0.5, 1e6])
            if integer:
                lo = int(lo)
                hi = lo + int(width)
                if rng.random() < 0.15:
                    lo, hi = float(lo), float(hi)
            else:
                hi = lo + width
            r = rng.random()
            if r < 0.6:
                p["minValue"], p["maxValue"] = lo, hi
            elif r < 0.7:
                p["minValue"] = lo
            elif r < 0.8:
                p["maxValue"] = hi
            if rng.random() < 0.6:
                p["minStep"] = rng.choice([1, 1, 5, 90, 0.1, 0.1, 0.5, 0.01, 0.25, 2, 3, 0.3, 1e-3, 0])
            if rng.random() < 0.3:
                base = int(math.ceil(p.get("minValue", 0)))
                top = int(math.floor(p.get("maxValue", base + 5)))
                cand = list(range(base, min(top, base + 10) + 1))
                if cand:
                    p["ValidValues"] = _vv_dict(rng.sample(cand, rng.randint(1, min(5, len(cand)))))
        elif fmt == "string":
            if rng.random() < 0.7:
                p["maxLen"] = rng.choice([0, 1, 5, 32, 64, 100, 255, 256])
        if ref.consistent(p):
            return p
    return {"Format": "uint8", "Permissions": ["pr"]}


SHAPE_SETS = [
    # generated configurations that no shipped definition covers, always run with the whole pool
    {"Format": "float", "maxValue": 11},
    {"Format": "float", "minValue": -3.5},
    {"Format": "float"},
    {"Format": "float", "minValue": 0.25, "maxValue": 0.25},
    {"Format": "float", "minValue": 1, "maxValue": 4, "minStep": 3},
    {"Format": "float", "minValue": 0, "maxValue": 1, "ValidValues": {"a": 0, "b": 1}},
    {"Format": "uint8", "minValue": 1, "maxValue": 4, "minStep": 3},
    {"Format": "uint8", "minValue": 1.0, "maxValue": 200.0, "minStep": 0.5},
    {"Format": "int", "minValue": -7, "maxValue": -2, "minStep": 5},
    {"Format": "int", "maxValue": 10, "minStep": 0.1},
    {"Format": "uint16", "minValue": 3},
    {"Format": "uint32", "minValue": 0, "maxValue": 10, "minStep": 1, "ValidValues": {"a": 2, "b": 10, "c": 0}},
    {"Format": "uint64", "minStep": 1e-320},
    {"Format": "string", "maxLen": 0},
    {"Format": "string", "maxLen": 256},
    {"Format": "string", "maxLen": 5},
    {"Format": "bool"},
    {"Format": "tlv8"},
    {"Format": "data"},
]


def shape_scripts() -> List[Dict[str, Any]]:
    cases = []
    for base in SHAPE_SETS:
        for perms in (["pr", "pw", "ev"], ["pw"]):
            p = dict(base, Permissions=perms)
            pool = value_pool(p)
            for an in (False, True):
                for kind in ("set", "client"):
                    if perms == ["pw"] and (an or kind == "client"):
                        continue
                    ops = [({"op": "set", "v": v, "notify": True} if kind == "set" else {"op": "client", "v": v}) for v in pool]
                    for i in range(0, len(ops), 12):
                        cases.append({"def": None, "props": p, "always_null": an,
                                      "cfg": {"allowInvalid": False, "hasSetter": True}, "ops": ops[i : i + 12]})
    return cases


def gen_cases(ctx: Ctx, thorough_size=False) -> List[Dict[str, Any]]:
    rng = ctx.rng
    defs = _defs()
    cases: List[Dict[str, Any]] = []
    quick = ctx.quick and not thorough_size
    for name, d in defs.items():
        props = {k: v for k, v in d.items() if k != "UUID"}
        cases += boundary_scripts(name, props, rng)
        cases += sibling_scripts(name, props)
        cases += configure_scripts(name, props)
        cases += refused_override_scripts(name, props)
        cases += callback_scripts(name, props)
        for _ in range(5 if quick else 250):
            cfg = {"allowInvalid": rng.random() < 0.15, "hasSetter": rng.random() < 0.8}
            k = rng.choice([1, 1, 1, 2, 3])
            cases.append({"def": name, "cfg": cfg, "n_inst": k,
                          "ops": gen_ops(rng, props, rng.randint(1, 12), n_inst=k)})
    cases += shape_scripts()
    for _ in range(500 if quick else 50000):
        p = random_props(rng)
        cfg = {"allowInvalid": rng.random() < 0.15, "hasSetter": rng.random() < 0.8}
        k = rng.choice([1, 1, 1, 2])
        cases.append({"def": None, "props": p, "always_null": rng.random() < 0.1, "cfg": cfg, "n_inst": k,
                      "ops": gen_ops(rng, p, rng.randint(1, 12), p_override=0.3, n_inst=k)})
    return cases


# --------------------------------------------------------------------------- model side


def inst_ops(case, j):
    """the ops addressed to instance j (what the model, where instances share nothing, runs for it)"""
    return [o for o in case["ops"] if o["op"] != "create" and o.get("inst", 0) == j]


def model_line(case, sr, always_null, j=0):
    if case.get("def") is not None:
        d = _defs()[case["def"]]
        props = {k: v for k, v in d.items() if k != "UUID"}
    else:
        props = case["props"]
    floats: Dict[str, Any] = {}

    def note(x):
        if isinstance(x, float):
            floats[repr(enc(x))] = [enc(x), str(x)]

    note(0.0)
    for k in ("minValue", "maxValue", "minStep"):
        note(props.get(k))
    ops = inst_ops(case, j)
    for op in ops:
        if op["op"] in ("override", "configure"):
            for k in ("minValue", "maxValue", "minStep"):
                note((op.get("props") or {}).get(k))
        if op["op"] == "read":
            if op["g"][0] == "returns":
                note(op["g"][1])
        elif op["op"] != "override":
            note(op.get("v"))
    srl = []
    for v, s, res in sr.values():
        if "ok" in res:
            note(res["_f"])
            srl.append([v, s, {"ok": res["ok"]}])
        else:
            srl.append([v, s, {"err": res["err"]}])
    return {
        "layer": "char", "op": "script", "variant": getter_variant(), "props": enc_props(props),
        "cfg": {"alwaysNull": always_null, "allowInvalid": case["cfg"]["allowInvalid"]},
        "ops": [enc_op(o, "returns" if case["cfg"]["hasSetter"] else "absent") for o in ops],
        "sr": srl, "fr": list(floats.values()),
    }


def _short(x, n=400):
    s = str(x)
    return s if len(s) <= n else s[:n] + f"...<{len(s)} chars>"


def run(ctx: Ctx):
    st = ctx.stats
    st.rule = (
        "scripts = every shipped definition x (the whole boundary pool through set_value and client_update_value in "
        "chunks of 12; huge-value-then-restricting-override; override-invalidating-the-current-value; two/three "
        "instances from ONE Loader with a narrowing override/configure on a sibling and a late-created instance; "
        "refused overrides (maxLen 257/300/2**31 alone and with other constraints) followed by valid ones; "
        "Service.configure_char with falsy / rejected / absent / fine values after a narrowing; getter callbacks "
        "answering in-range / out-of-range / undeclared / wrongly typed values through get_value() and to_HAP() or "
        "raising, setter callbacks raising on legal and illegal writes, callbacks installed and removed between "
        "operations, the controller opt-in followed by application updates) + random scripts "
        "(<= 12 ops of set/client/override/configure/read/create over 1-3 instances) per shipped definition + random "
        "consistent generated property sets; every instance is judged after every op and compared with its own "
        "independent model run; a script is non-trivial if at least one op raised, clamped/rounded/converted its "
        "argument, was an override/configure, or emitted an event; distinct by (definition or property set, "
        "configuration, instance count, op list)."
    )
    cases = gen_cases(ctx)
    lines, impls, owner = [], [], []
    cons_lines, cons_want = [], []
    step_exn_seen = set()
    judged: Dict[str, Any] = {}
    judge_cap = ctx.n(6000, 40000)

    for ci, case in enumerate(cases):
        fails = oracle(ctx, case)
        allow = case["cfg"]["allowInvalid"]

        def note_pair(props, an, v, allow=allow):
            # (property set, value) pairs seen on the real objects: the model's `consistent` / `conf`
            # predicates (what the theorems talk about) are compared with the oracle's on them
            if len(judged) >= judge_cap:
                return
            try:
                pj = enc_props(props)
            except Exception:  # noqa: BLE001
                return
            key = repr((pj, an, allow, enc(v)))
            if key not in judged:
                judged[key] = (
                    {"layer": "char", "op": "judge", "props": pj, "v": enc(v),
                     "cfg": {"alwaysNull": an, "allowInvalid": allow}},
                    {"consistent": ref.consistent(props), "conf": ref.nonconformity(props, an, allow, v) is None,
                     # the two other predicates of the theorems: no opt-in exemption / no valid-values clause
                     "strict": ref.nonconformity(props, an, False, v) is None,
                     "base": ref.nonconformity(dict(props, ValidValues=None), an, True, v) is None},
                )

        def collect(info):
            for x in info["insts"]:
                if x is not None:
                    for v in [x["stored"]] + [v for _, v in x["events"]]:
                        note_pair(x["props"], info["always_null"], v)

        traces, sr, an, changes = run_impl(case, collect)
        # raw (unvalidated) pool values against the declared set: exercises the refusing side of `conf`
        p0 = case.get("props") or {k: v for k, v in _defs()[case["def"]].items() if k != "UUID"}
        for v in ctx.rng.sample(COMMON_POOL, 3) + ctx.rng.sample(value_pool(p0), 3):
            note_pair(p0, an, v)
        for j, tr in enumerate(traces):
            impls.append(tr)
            lines.append(model_line(case, sr, an, j))
            owner.append((ci, j))
        for chg in changes[:1]:
            # instances share nothing in the model: a sibling that changes without an op addressed to it
            ctx.disagree("sibling-changed", {"def": case.get("def"), "replay": case_to_replay(case), **chg},
                         "unchanged (instances are independent)", _short(chg["after"]))
        for _, _, res in sr.values():
            if "err" in res:
                step_exn_seen.add(res["err"])
        nontriv = False
        for j, tr in enumerate(traces):
            for op, obs in zip(inst_ops(case, j), tr["steps"]):
                st.hit("op", op["op"])
                if obs["exn"]:
                    st.hit("outcome", f"{op['op']}-raised-{obs['exn']}"
                           + ("-by-setter-callback" if op["op"] == "client" and any(a == "callback" for a, _ in obs["out"]) else ""))
                    nontriv = True
                elif op["op"] in ("override", "configure"):
                    st.hit("outcome", f"{op['op']}-applied")
                    nontriv = True
                elif op["op"] == "read":
                    if op["g"][0] == "returns" and obs.get("ret") != ABSENT:
                        conv = obs["value"] != enc(op["g"][1])
                        st.hit("outcome", "read-getter-answer-" + ("converted" if conv else "stored-as-given"))
                        nontriv = True
                    else:
                        st.hit("outcome", "read-" + ("not-readable" if obs.get("ret") == ABSENT else "no-getter"))
                else:
                    conv = obs["value"] != enc(op["v"])
                    st.hit("outcome", f"{op['op']}-" + ("converted" if conv else "stored-as-given"))
                    nontriv = nontriv or conv or bool(obs["out"])
                if obs["out"]:
                    st.hit("outcome", "events-emitted", len(obs["out"]))
        st.hit("outcome", f"instances-{len(traces)}")
        if fails:
            st.hit("outcome", "oracle-failure")
        st.case([case.get("def"), case.get("props"), case["cfg"], case.get("n_inst", 1),
                 [op_to_json(o) for o in case["ops"]]], nontriv)
    # one consistency line per shipped definition
    for name, d in _defs().items():
        p = {k: v for k, v in d.items() if k != "UUID"}
        cons_lines.append({"layer": "char", "op": "consistent", "props": enc_props(p)})
        cons_want.append({"ok": ref.consistent(p)})
    # deliberately inconsistent sets: both sides must say no
    for p in (
        {"Format": "uint8", "minValue": 5, "maxValue": 4},
        {"Format": "uint8", "minValue": 0.5, "maxValue": 4},
        {"Format": "float", "minValue": 0, "maxValue": 4, "ValidValues": {"a": 7}},
        {"Format": "string", "ValidValues": {"a": 1}},
        {"Format": "bool", "ValidValues": {"a": 1}},
        {"Format": "float", "maxValue": float("inf")},
        {"Format": "uint8", "minStep": "x"},
    ):
        cons_lines.append({"layer": "char", "op": "consistent", "props": enc_props(p)})
        cons_want.append({"ok": ref.consistent(p)})

    bad_step = step_exn_seen - {"ValueError", "OverflowError"}
    if bad_step:
        ctx.disagree("step-rounding-exception-class", sorted(bad_step), "ValueError|OverflowError", sorted(step_exn_seen))

    for ln, want in judged.values():
        cons_lines.append(ln)
        cons_want.append(want)
    model = run_model_parallel("C09", lines + cons_lines, workers=12)
    for (ci, j), ln, m, i in zip(owner, lines, model[: len(lines)], impls):
        st.traces_validated += 1
        if m != i:
            case = cases[ci]
            k = next((x for x, (a, b) in enumerate(zip(m.get("steps", []), i["steps"])) if a != b), None)
            detail_m = m.get("steps", [None])[k] if k is not None and k < len(m.get("steps", [])) else m.get("init", m)
            detail_i = i["steps"][k] if k is not None else i["init"]
            ctx.disagree("char-script", {"def": case.get("def"), "props": ln["props"], "cfg": ln["cfg"], "instance": j,
                                         "first_diff_at": k, "op": ln["ops"][k] if k is not None else None,
                                         "replay": case_to_replay(case)}, _short(detail_m), _short(detail_i))
    for ln, m, w in zip(cons_lines, model[len(lines) :], cons_want):
        st.traces_validated += 1
        if "conf" in w and not w["consistent"]:
            m = dict(m, conf=w["conf"], strict=w["strict"], base=w["base"])  # conformance is only compared on consistent sets
        if m != w:
            ctx.disagree("predicates", {"props": ln["props"], "cfg": ln.get("cfg"), "v": ln.get("v")}, m, w)

    for idx in (0, len(lines) // 2, len(lines) - 1):
        ci, j = owner[idx]
        c = cases[ci]
        st.sample({"definition": c.get("def") or c.get("props"), "cfg": c["cfg"], "instances": c.get("n_inst", 1),
                   "instance": j, "ops": [_short(op_to_json(o), 120) for o in c["ops"][:5]],
                   "impl": _short(impls[idx]["steps"][:3], 600), "model_agrees": model[idx] == impls[idx]})
    st.notes.append(f"{len(judged)} (property set, value) pairs: model consistent/conf vs oracle")
    agree = sum(1 for v in STEP_REF.values() if v == "agree")
    differ = sum(1 for v in STEP_REF.values() if v == "differ")
    st.notes.append(f"step-rounding expression found in the source vs exact rational reference (ref/steprat.py) on "
                    f"{len(STEP_REF)} distinct (value, step) pairs: {agree} agree, {differ} differ, "
                    f"{len(STEP_REF) - agree - differ} IEEE specials skipped" + (f"; first differences: {STEP_DIFF}" if STEP_DIFF else ""))
    st.notes.append(f"get_value compared with the proved variant '{getter_variant()}' of the model (probe: does an "
                    f"undeclared getter answer raise?)")
    st.notes.append(f"getter answers stored/reported outside the declared valid values (get_value does not run the "
                    f"valid-values check; counted, not reported - see design/audit/char.md): {GETTER_UNDECLARED[0]}")
    st.notes.append(f"{len(cases)} scripts, {len(lines)} instance runs, {sum(len(c['ops']) for c in cases)} ops; "
                    f"step-rounding exception classes seen: {sorted(step_exn_seen)}")


def search(ctx: Ctx):
    """Deeper failing-input search on the real code (oracle only, thorough-size generation)."""
    for case in gen_cases(ctx, thorough_size=True):
        oracle(ctx, case)


def replay(ctx: Ctx, r):
    if r.get("kind") != "script":
        print("this replay names a broken proof obligation / correspondence stream, not an input:")
        print(_short(r, 1500))
        if r.get("correspondence_disagreements"):
            rr = r["correspondence_disagreements"][0]["case"].get("replay")
            if rr:
                return replay(ctx, rr)
        return 1
    case = replay_to_case(r)
    traces, _, _, changes = run_impl(case)
    print("definition:", case.get("def") or case.get("props"), "cfg:", case["cfg"], "instances:", case.get("n_inst", 1))
    for j, tr in enumerate(traces):
        print(f"instance {j}: initial", _short(tr["init"], 300))
        for op, obs in zip(inst_ops(case, j), tr["steps"]):
            print("   ", op["op"], _show_op(op), "->", _short(obs, 400))
    for chg in changes:
        print("  sibling", chg["sibling"], "changed by op", chg["op_index"], ":", _short(chg["before"], 200), "->",
              _short(chg["after"], 200))
    fails = judge_case(case)
    for f in fails:
        print("FAILS:", f["signature"], f["description"])
        ctx.fail(f["signature"], f["description"], r)
    print("verdict:", "property violated on this input" if fails else "holds on this input")
    return 1 if fails else 0
