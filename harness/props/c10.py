"""C10 — Writes do what their status says; timed writes need a live prepare."""
from __future__ import annotations

import asyncio
import copy
import json
import logging
import os
import time as _real_time
from typing import Any, Dict, List, Optional, Tuple
from unittest.mock import patch

from common import Ctx, delta_min, log, run_model_parallel
from ref import writes as ref

PROP = "C10"
LEAN_MODULE = "Props.C10"


def extract(ctx):
    """regenerate the protocol-constant table from the source under check"""
    import sys as _sys

    from common import LEAN, REPO, VERIF

    _sys.path.insert(0, str(VERIF / "extract"))
    import handler_consts

    handler_consts.write(REPO, LEAN)
TRUSTED = [
    "Lean 4.33 kernel; axioms propext, Classical.choice, Quot.sound only (audited by #print axioms)",
    "hand-written model lean/HapModel/Writes.lean of AccessoryDriver.set_characteristics / prepare / "
    "connection_lost(prepared_writes) / _wrap_* and the 204/207/200 selection of hap_handler, tied by this differential run",
    "parameters of the model, supplied per request from the real objects: the characteristic's own normalisation "
    "(to_valid_value + valid_value_or_raise evaluated on a detached twin; its correctness is C09's subject), the scripted "
    "outcome of application callbacks (return / raise / write-response value), the attribute database (service of a "
    "characteristic, which services/accessories carry a setter_callback)",
    "connections: every request comes over a real HAPServerProtocol object on a fake transport (timed/untimed requests "
    "either as HTTP bytes through data_received or by calling the driver with the connection's address); a connection "
    "ends by the client (connection_lost delivered) or by the server (Connection: close request, HTTP/1.0 request, a "
    "frame that fails decryption, the idle sweep of HAPServer) through the real close() and, as asyncio does, "
    "connection_lost(None) on the next loop turn; the next use of the connection index is a NEW protocol object with the "
    "SAME peer address and port. asyncio contract (modelled): connection_lost is delivered once after transport.close(), "
    "and a peer address is reused only after that delivery. The model's `lose` op stands for the end of a connection "
    "however initiated. The session cipher for the bad-frame close is installed by the harness just before the frame",
    "configuration and environment as generator dimensions (script['topo']['config'/'peers']): characteristics with "
    "allow_invalid_client_values, restricted declared valid values, overridden range/step, an ALWAYS_NULL event type "
    "(ProgrammableSwitchEvent: holds None by definition after the write, so only its callbacks and status are judged), "
    "IPv4 (host, port) and IPv6 (host, port, flowinfo, scope_id) peer names; driver calls made directly use the client "
    "address the server's own handler object holds; 'the normalised value' is computed on a never-written twin with the same configuration",
    "scope: batches are arbitrary lists of entries — the same (aid,iid) may be named several times, entries may name "
    "something that is not a characteristic (unknown iid, unknown aid, the iid of a service), entries may carry 'ev' "
    "(subscription itself is C12's; here only that it does not disturb the write path); handlers are marked verified (is_encrypted) directly, the 401 path is C03's",
    "for a characteristic named several times in one batch the application callback is scripted per invocation (the k-th "
    "invocation in the request behaves as scripted for the k-th entry that reaches the callback: has a non-null value "
    "the characteristic accepts); the oracle then demands only what every sequential reading of the batch grants (see judge_write)",
    "virtual clock: the name `time` in pyhap.accessory_driver is replaced by a stub whose time() returns the script clock "
    "(multiples of 125 ms, exact in binary floating point)",
    "harness/ref/writes.py (live-prepare judgement, value canonicalisation), harness generators and the oracle in this file",
]

T0_MS = 1_000_000_000  # virtual epoch (1e6 s): every clock value is an exact float
ACCS = [
    # (aid, name, [(service, extra chars)])
    (2, "Lamp", [("Lightbulb", ["Brightness", "Hue", "Saturation"]), ("Fan", ["RotationSpeed"])]),
    (3, "Thermo", [("Thermostat", []), ("Switch", [])]),
    (4, "Door", [("GarageDoorOpener", []), ("LockMechanism", []), ("WindowCovering", []),
                 ("StatelessProgrammableSwitch", [])]),  # ProgrammableSwitchEvent: an ALWAYS_NULL (event) type
]
# characteristics a generated batch may address: (aid, service index, display name)
WRITABLE = {
    "On", "Brightness", "Hue", "Saturation", "RotationSpeed", "TargetHeatingCoolingState", "TargetTemperature",
    "TemperatureDisplayUnits", "TargetDoorState", "LockTargetState", "TargetPosition", "Identify", "Name",
    "ProgrammableSwitchEvent",
}


IDLE_DT_MS = 90 * 60 * 60 * 1000 + 1000  # the idle sweep closes connections silent for more than 90 h
TTL_HUGE = 400_000_000  # a client-chosen ttl that outlives the idle timeout (multiple of 125 ms)
SERVER_CLOSES = ["close-header", "http10", "bad-frame"]  # ways the SERVER ends a connection (plus the idle sweep)


class Transport(asyncio.Transport):
    """Socket stand-in that behaves like asyncio's selector transport: close() only marks the
    transport closing; the protocol's connection_lost(None) is delivered once, on a later loop turn."""

    def __init__(self, peer):
        super().__init__()
        self.peer = peer
        self.proto = None
        self.out: List[bytes] = []
        self.closing = False
        self.delivered = False

    def get_extra_info(self, name, default=None):
        return self.peer if name == "peername" else default

    def set_write_buffer_limits(self, high=None, low=None):
        pass

    def write(self, data):
        if not self.closing:
            self.out.append(bytes(data))

    def writelines(self, lines):
        if not self.closing:
            self.out.extend(bytes(x) for x in lines)

    def write_eof(self):
        pass

    def close(self):
        self.closing = True

    def is_closing(self):
        return self.closing

    def loop_turn(self):
        if self.closing and not self.delivered:
            self.delivered = True
            self.proto.connection_lost(None)


class FakeTime:
    """Stands in for the `time` module inside pyhap.accessory_driver."""

    def __init__(self):
        self.now_ms = T0_MS

    def time(self):
        return self.now_ms / 1000

    def __getattr__(self, name):
        return getattr(_real_time, name)


CLOCK = FakeTime()
_LOADER = None


def _mods():
    import pyhap.accessory_driver as ad
    import pyhap.hap_handler as hh
    from pyhap.accessory import Accessory, Bridge

    return ad, hh, Accessory, Bridge


class Raised(Exception):
    pass


class World:
    """A real AccessoryDriver with a Bridge of three accessories built from shipped services."""

    def __init__(self, svc_cb: List[List[int]], acc_cb: List[int], config: Optional[dict] = None, peers: str = "v4"):
        global _LOADER
        self.peers = peers
        ad, hh, Accessory, Bridge = _mods()
        self.ad, self.hh = ad, hh
        if _LOADER is None:
            from pyhap.loader import Loader

            _LOADER = Loader()
        self.loop = _loop()
        with patch("pyhap.accessory_driver.AsyncZeroconf"):
            self.driver = ad.AccessoryDriver(
                loop=self.loop, address="127.0.0.1", mac="AA:BB:CC:DD:EE:FF", port=51826,
                persist_file="/nonexistent/c10.state", loader=_LOADER, pincode=b"031-45-154",
            )
        self.log: List[dict] = []
        self.behav: Dict[str, Any] = {"char": {}, "svcRaise": set(), "accRaise": set()}
        bridge = Bridge(self.driver, "Bridge")
        self.accs = {1: bridge}
        for aid, name, svcs in ACCS:
            acc = Accessory(self.driver, name, aid=aid)
            for sname, extra in svcs:
                acc.add_preload_service(sname, chars=extra or None)
            bridge.add_accessory(acc)
            self.accs[aid] = acc
        with patch.object(ad.AccessoryDriver, "persist"):
            self.driver.add_accessory(bridge)
        self.chars: Dict[Tuple[int, int], Any] = {}
        self.svc_of: Dict[Tuple[int, int], int] = {}
        self.name_to_id: Dict[Tuple[int, int], Dict[str, Tuple[int, int]]] = {}
        self.svc_cb = {tuple(x) for x in svc_cb}
        self.acc_cb = set(acc_cb)
        for aid, acc in self.accs.items():
            for sidx, svc in enumerate(acc.services):
                names = {}
                for ch in svc.characteristics:
                    iid = acc.iid_manager.get_iid(ch)
                    self.chars[(aid, iid)] = ch
                    self.svc_of[(aid, iid)] = sidx
                    names[ch.display_name] = (aid, iid)
                self.name_to_id[(aid, sidx)] = names
                if (aid, sidx) in self.svc_cb:
                    svc.setter_callback = self._svc_cb(aid, sidx)
            if aid in self.acc_cb:
                acc.setter_callback = self._acc_cb(aid, acc)
        # non-default but legal configuration of single characteristics (keys "aid.iid")
        config = config or {}
        for key, vv in (config.get("vv") or {}).items():
            self.chars[_cid(key)].override_properties(valid_values=dict(vv))
        for key, props in (config.get("props") or {}).items():
            self.chars[_cid(key)].override_properties(properties=dict(props))
        for key in config.get("aicv") or []:
            self.chars[_cid(key)].allow_invalid_client_values = True
        self.driver.http_server.loop = self.loop
        self.driver.aio_stop_event = asyncio.Event()  # what async_start creates; event delivery consults it
        self.conns: Dict[int, Any] = {}  # conn index -> (HAPServerProtocol, Transport) of the OPEN connection

    # --- application callbacks (behaviour scripted per request) -----------------------------
    def _char_cb(self, cid, specs):
        """`specs`: behaviour of the 1st, 2nd, ... invocation within the current request."""
        calls = [0]

        def cb(value):
            k = calls[0]
            calls[0] += 1
            spec = specs[k] if k < len(specs) else "raise"  # an invocation the script did not foresee
            rec = {"level": "char", "id": cid, "arg": value, "raised": spec == "raise", "ret": None,
                   "unforeseen": k >= len(specs)}
            self.log.append(rec)
            if spec == "raise":
                raise Raised(f"char {cid}")
            rec["ret"] = spec[1]
            return spec[1]

        return cb

    def _svc_cb(self, aid, sidx):
        def cb(char_values):
            names = self.name_to_id[(aid, sidx)]
            args = [[names.get(k, (aid, -1)), v] for k, v in char_values.items()]
            raised = (aid, sidx) in self.behav["svcRaise"]
            self.log.append({"level": "svc", "id": (aid, sidx), "arg": args, "raised": raised})
            if raised:
                raise Raised(f"service {aid}.{sidx}")

        return cb

    def _acc_cb(self, aid, acc):
        def cb(by_service):
            args = []
            for svc, chars in by_service.items():
                sidx = acc.services.index(svc)
                args.append([sidx, [[(aid, acc.iid_manager.get_iid(ch)), v] for ch, v in chars.items()]])
            raised = aid in self.behav["accRaise"]
            self.log.append({"level": "acc", "id": aid, "arg": args, "raised": raised})
            if raised:
                raise Raised(f"accessory {aid}")

        return cb

    # --- helpers --------------------------------------------------------------------------
    def addr(self, conn: int):
        """peer name of connection slot #conn as asyncio reports it: (host, port) for IPv4,
        (host, port, flowinfo, scope_id) for IPv6"""
        if self.peers == "v6":
            return (f"fe80::{conn + 1}", 50000 + conn, 0, 3)
        return (f"10.0.0.{conn + 1}", 50000 + conn)

    def client(self, conn: int):
        """the client address the server itself hands to the driver for requests of this connection"""
        return self.conn(conn)[0].handler.client_address

    def values(self):
        return {cid: ch.value for cid, ch in self.chars.items()}

    def prepared(self):
        out = []
        rev = {self.addr(c)[:2]: c for c in range(8)}
        for addr, d in self.driver.prepared_writes.items():
            for pid, exp in d.items():
                out.append([rev.get(tuple(addr)[:2] if isinstance(addr, (tuple, list)) else addr, -1), pid, int(round(exp * 1000))])
        return sorted(out)

    def conn(self, conn: int):
        """The open connection #conn; a new HAPServerProtocol object (same peer address and port as any
        earlier connection with this index) is accepted when there is none."""
        c = self.conns.get(conn)
        if c is None:
            import pyhap.hap_protocol as hp

            proto = hp.HAPServerProtocol(self.loop, self.driver.http_server.connections, self.driver)
            tr = Transport(self.addr(conn))
            tr.proto = proto
            proto.connection_made(tr)
            proto.handler.is_encrypted = True  # a verified session
            c = self.conns[conn] = (proto, tr)
        return c

    def turn(self):
        """One loop turn: asyncio delivers connection_lost for every transport that was closed."""
        for k, (proto, tr) in list(self.conns.items()):
            tr.loop_turn()
            if tr.closing:
                del self.conns[k]

    def raw(self, conn: int, data: bytes):
        """Feed bytes to the real protocol object; returns (status, json body) of the reply, if any."""
        proto, tr = self.conn(conn)
        start = len(tr.out)
        proto.data_received(data)
        reply = b"".join(tr.out[start:])
        self.turn()
        if not reply:
            return None, None
        head, _, rbody = reply.partition(b"\r\n\r\n")
        return int(head.split(b" ")[1]), (json.loads(rbody) if rbody else None)

    def http(self, conn: int, path: str, obj: dict):
        body = json.dumps(obj).encode()
        return self.raw(conn, (
            b"PUT " + path.encode() + b" HTTP/1.1\r\nHost: hap\r\nContent-Type: application/hap+json\r\n"
            b"Content-Length: " + str(len(body)).encode() + b"\r\n\r\n" + body
        ))

    def end_connection(self, conn: int, how: str) -> str:
        """Connection #conn ends. `client`: the peer closes / resets (asyncio delivers connection_lost);
        otherwise the SERVER closes it (HAPServerProtocol.close()) and asyncio delivers connection_lost on
        the next loop turn."""
        proto, tr = self.conn(conn)
        if how == "close-header":
            self.raw(conn, b"GET /characteristics?id=1.2 HTTP/1.1\r\nHost: hap\r\nConnection: close\r\n\r\n")
        elif how == "http10":
            self.raw(conn, b"GET /characteristics?id=1.2 HTTP/1.0\r\n\r\n")
        elif how == "bad-frame":
            from pyhap.hap_crypto import HAPCrypto

            proto.hap_crypto = HAPCrypto(b"\x07" * 32)  # the session's cipher; the next frame does not verify
            self.raw(conn, b"\x05\x00" + b"\xaa" * 5 + b"\x00" * 16)
        done = how if tr.closing else "client"
        if not tr.delivered:  # client close, or the server did not close: the peer goes away
            tr.delivered = True
            tr.closing = True
            proto.connection_lost(None)
        self.conns.pop(conn, None)
        return done

    # --- one op on the real code ----------------------------------------------------------
    def apply(self, op: dict) -> dict:
        """Returns the observation record of the op (python values, not canonicalised)."""
        kind = op["op"]
        CLOCK.now_ms = op["t"]
        if kind == "advance":
            return {}
        if kind == "idle":  # the clock has jumped past the idle timeout: the server's periodic sweep runs
            self.driver.http_server.async_cleanup_connections()
            self.turn()
            return {"prep": self.prepared()}
        conn = op["conn"]
        if kind == "lose":
            how = self.end_connection(conn, op.get("how", "client"))
            return {"prep": self.prepared(), "closed_by": how}
        self.conn(conn)  # requests come over an open connection
        if kind == "prepare":
            q = {}
            if op.get("ttl") is not None:
                q["ttl"] = op["ttl"]
            if op.get("pid") is not None:
                q["pid"] = op["pid"]
            if op.get("http"):
                code, body = self.http(conn, "/prepare", q)
            else:
                try:
                    code, body = 200, self.driver.prepare(q, self.client(conn))
                except Exception as ex:  # noqa: BLE001
                    code, body = 500, {"status": "raised " + type(ex).__name__}
            return {"http": code, "status": (body or {}).get("status"), "prep": self.prepared()}
        assert kind == "write"
        q = {"characteristics": []}
        specs: Dict[Tuple[int, int], List[Any]] = {}
        for e in op["entries"]:
            item = {"aid": e["aid"], "iid": e["iid"]}
            if e["hasValue"]:
                item["value"] = e["value"]
            if e.get("r") is not None:
                item["r"] = e["r"]
            if e.get("ev") is not None:
                item["ev"] = e["ev"]
            q["characteristics"].append(item)
            cid = (e["aid"], e["iid"])
            if cid not in self.chars:
                continue  # names something that is not a characteristic
            specs.setdefault(cid, [])
            if reaches_callback(e):
                specs[cid].append(e["cb"])
        for cid, sp in specs.items():
            absent = any(e["cb"] == "none" for e in op["entries"] if (e["aid"], e["iid"]) == cid)
            self.chars[cid].setter_callback = None if absent else self._char_cb(cid, sp)
        if op.get("pid") is not None:
            q["pid"] = op["pid"]
        self.behav["svcRaise"] = {tuple(x) for x in op["svcRaise"]}
        self.behav["accRaise"] = set(op["accRaise"])
        self.log = []
        before = self.values()
        if op.get("http"):
            code, body = self.http(conn, "/characteristics", q)
        else:
            try:
                body = self.driver.set_characteristics(q, self.client(conn))
                code = 204 if body is None else 207
            except Exception as ex:  # noqa: BLE001  (dispatch would answer 500)
                body, code = {"raised": type(ex).__name__}, 500
        return {
            "http": code, "body": body, "log": self.log, "before": before, "after": self.values(),
            "prep": self.prepared(),
        }


_LOOP = None


def _loop():
    global _LOOP
    if _LOOP is None:
        _LOOP = asyncio.new_event_loop()
    return _LOOP


def _cid(key: str) -> Tuple[int, int]:
    a, i = key.split(".")
    return int(a), int(i)


_TWINS: Dict[str, World] = {}
CFG: dict = {}  # configuration of the script being generated / run / judged (script["topo"]["config"])


def set_cfg(topo: Optional[dict]):
    global CFG
    CFG = (topo or {}).get("config") or {}


def twin() -> World:
    """A never-written world with the current configuration: its characteristics define 'the normalised
    value' of a request value."""
    key = json.dumps(CFG, sort_keys=True)
    if key not in _TWINS:
        _TWINS[key] = World([], [], CFG)
    return _TWINS[key]


def always_null(cid) -> bool:
    from pyhap.characteristic import ALWAYS_NULL

    ch = twin().chars.get(cid)
    return ch is not None and ch.type_id in ALWAYS_NULL


def normalise(cid, value):
    """(accepted, normalised value) by the characteristic's own validation, on a detached twin: conversion
    (`to_valid_value`) and — unless the characteristic is configured with allow_invalid_client_values — the
    declared-valid-values check."""
    ch = twin().chars.get(cid)
    if ch is None:
        return False, None
    try:
        n = ch.to_valid_value(value)
        if not ch.allow_invalid_client_values:
            ch.valid_value_or_raise(n)
    except ValueError:
        return False, None
    return True, n


def reaches_callback(e) -> bool:
    """the entry carries a non-null value that its characteristic accepts (so an executed request hands it
    to the characteristic's callback)"""
    return bool(e["hasValue"] and e["value"] is not None and normalise((e["aid"], e["iid"]), e["value"])[0])


def is_ghost(e) -> bool:
    return (e["aid"], e["iid"]) not in twin().chars


# ------------------------------------------------------------------------------- generation


def stamp(ops: List[dict]) -> List[dict]:
    """Attach the execution time `t` (ms) to every op."""
    t = T0_MS
    out = []
    for op in ops:
        op = dict(op)
        if op["op"] == "advance":
            t += op["dt"]
        if op["op"] == "idle":
            t += IDLE_DT_MS
        op["t"] = t
        out.append(op)
    return out


def targets():
    w = twin()
    return sorted(cid for cid, ch in w.chars.items() if ch.display_name in WRITABLE)


def gen_value(rng, cid, kind):
    """kind: ok | norm (accepted but changed by normalisation) | reject"""
    ch = twin().chars[cid]
    p = ch.properties
    fmt = p["Format"]
    vv = p.get("ValidValues")
    if fmt == "bool":
        if kind == "ok":
            return rng.choice([True, False, 1, 0])
        if kind == "norm":
            return rng.choice([2, "yes", 0.5, -1])
        return None  # a bool characteristic rejects nothing
    if fmt == "string":
        if kind == "ok":
            return rng.choice(["abc", "", "Lampe 2"])
        if kind == "norm":
            return rng.choice(["x" * 70, 5, True, 2.5])
        return None
    if vv:
        ok = sorted(vv.values())
        if kind == "ok":
            return rng.choice(ok)
        if kind == "norm":
            return rng.choice(ok) + 0.5 if rng.random() < 0.5 else float(rng.choice(ok))
        return rng.choice([max(ok) + 1, 250, "1", "x", [1]])
    lo, hi = p.get("minValue", 0), p.get("maxValue", 100)
    if kind == "ok":
        v = rng.choice([lo, hi, (lo + hi) // 2, lo + 1])
        return float(v) if fmt == "float" and rng.random() < 0.5 else v
    if kind == "norm":
        return rng.choice([hi + 10, lo - 5, lo + 0.25, hi + 0.5, (lo + hi) / 2 + 0.125, True])
    return rng.choice(["12", "warm", [3], {"a": 1}])


GHOSTS = [(2, 999), (9, 2), (2, 1), (1, 1), (3, 0), (77, 77)]  # unknown iid / unknown aid / the iid of a service


def gen_ghost(rng):
    aid, iid = rng.choice(GHOSTS)
    e = {"aid": aid, "iid": iid, "hasValue": rng.random() < 0.85, "value": rng.choice([1, True, "x", None, 2.5]),
         "r": rng.choice([None, True]), "cb": "none"}
    if not e["hasValue"]:
        e["value"] = None
    return e


def add_extras(rng, entries, ghosts=0.12, dups=0.12, evs=0.10):
    """Sometimes: name a characteristic of the batch again, name something that is not a characteristic,
    carry an 'ev' flag (alone or next to the value)."""
    entries = list(entries)
    if entries and rng.random() < dups:
        for _ in range(rng.choice([1, 1, 2])):
            src = rng.choice(entries)
            cid = (src["aid"], src["iid"])
            if cid not in twin().chars:
                continue
            e = gen_entry(rng, cid)
            same = [x for x in entries if (x["aid"], x["iid"]) == cid]
            if any(x["cb"] == "none" for x in same):
                e["cb"] = "none"  # one characteristic has one setter_callback attribute
            elif e["cb"] == "none":
                e["cb"] = ["ret", None]
            entries.insert(rng.randrange(len(entries) + 1), e)
    if rng.random() < ghosts:
        for _ in range(rng.choice([1, 1, 2])):
            entries.insert(rng.randrange(len(entries) + 1), gen_ghost(rng))
    if rng.random() < evs:
        for e in rng.sample(entries, min(len(entries), rng.choice([1, 2]))):
            e["ev"] = rng.choice([True, False])
    return entries


def gen_entry(rng, cid, want=None):
    kind = want or rng.choices(
        ["ok", "norm", "reject", "null", "novalue"], weights=[46, 16, 16, 10, 12]
    )[0]
    e = {"aid": cid[0], "iid": cid[1], "hasValue": True, "value": None, "r": None, "cb": "none"}
    if kind == "novalue":
        e["hasValue"] = False
    elif kind != "null":
        v = gen_value(rng, cid, kind)
        if v is None:
            v = gen_value(rng, cid, "ok")
        e["value"] = v
    e["r"] = rng.choice([None, None, False, True, True])
    cbk = rng.choices(["none", "retnone", "retval", "raise"], weights=[30, 25, 25, 20])[0]
    if cbk == "retnone":
        e["cb"] = ["ret", None]
    elif cbk == "retval":
        e["cb"] = ["ret", rng.choice(["resp", 7, True, 1.5, ""])]
    elif cbk == "raise":
        e["cb"] = "raise"
    return e


def gen_batch(rng, topo, conn, pid, size=None, calm=False):
    ts = targets()
    k = size or rng.choice([1, 1, 2, 2, 3, 4, 5, 7])
    if rng.random() < 0.5:  # concentrate on few services so that groups have several entries
        aid = rng.choice([1, 2, 3, 4])
        pool = [c for c in ts if c[0] == aid] or ts
        ids = rng.sample(pool, min(k, len(pool)))
    else:
        ids = rng.sample(ts, min(k, len(ts)))
    entries = [gen_entry(rng, c, "ok" if calm and rng.random() < 0.8 else None) for c in ids]
    if calm:
        for e in entries:
            if e["cb"] == "raise" and rng.random() < 0.8:
                e["cb"] = ["ret", None]
    entries = add_extras(rng, entries)
    p = 0.04 if calm else 0.25
    svc_raise = [list(s) for s in sorted(topo["svcCb"]) if rng.random() < p]
    acc_raise = [a for a in sorted(topo["accCb"]) if rng.random() < p]
    return {
        "op": "write", "conn": conn, "pid": pid, "http": rng.random() < 0.4, "entries": entries,
        "svcRaise": svc_raise, "accRaise": acc_raise,
    }


def config_menu():
    """Non-default but legal configurations of single characteristics: allow_invalid_client_values (the
    documented way to let the application see values outside the declared valid values), a restricted set of
    declared valid values, overridden numeric range / step."""
    global CFG
    saved, CFG = CFG, {}
    try:
        w = twin()
        name = {}
        for cid, ch in w.chars.items():
            name.setdefault(ch.display_name, []).append(cid)
        k = lambda n, aid=None: "%d.%d" % next(c for c in sorted(name[n]) if aid is None or c[0] == aid)  # noqa: E731
        thcs, lts, tds, tdu = k("TargetHeatingCoolingState"), k("LockTargetState"), k("TargetDoorState"), k("TemperatureDisplayUnits")
        pse, bri, tt = k("ProgrammableSwitchEvent"), k("Brightness"), k("TargetTemperature")
        sub = {"Off": 0, "Heat": 1, "Cool": 2}
        return [
            {"aicv": [thcs]},
            {"aicv": [thcs], "vv": {thcs: sub}},  # accepts Siri's "Auto" (3) although only Off/Heat/Cool are declared
            {"vv": {thcs: sub}},
            {"aicv": [lts, tds, tdu, pse]},
            {"aicv": [thcs, pse], "vv": {thcs: sub, pse: {"SinglePress": 0}}, "props": {bri: {"minValue": 10, "maxValue": 50, "minStep": 5}}},
            {"props": {tt: {"minValue": 15, "maxValue": 25, "minStep": 0.5}, bri: {"minStep": 10}}, "aicv": [tdu]},
        ]
    finally:
        CFG = saved


_MENU = None


def gen_config(rng):
    global _MENU
    if _MENU is None:
        _MENU = config_menu()
    return {} if rng.random() < 0.5 else copy.deepcopy(rng.choice(_MENU))


def gen_topo(rng):
    t = _gen_topo(rng)
    t["config"] = gen_config(rng)
    t["peers"] = "v6" if rng.random() < 0.3 else "v4"
    set_cfg(t)
    return t


def _gen_topo(rng):
    w = twin()
    svcs = sorted({(aid, s) for (aid, _), s in w.svc_of.items() if s > 0})
    mode = rng.random()
    if mode < 0.15:
        return {"svcCb": [], "accCb": []}
    if mode < 0.3:
        return {"svcCb": [list(s) for s in svcs], "accCb": [1, 2, 3, 4]}
    return {
        "svcCb": [list(s) for s in svcs if rng.random() < 0.55],
        "accCb": [a for a in (1, 2, 3, 4) if rng.random() < 0.45],
    }


TTLS = [0, 125, 250, 500, 1000]
PIDS = [0, 1, 7, 11, -3]


def boundary_scripts(rng):
    """Deterministic histories named by the property and the anchors."""
    topo = {"svcCb": [[2, 1], [3, 1], [4, 2]], "accCb": [3]}
    set_cfg(topo)

    def W(conn, pid, **kw):
        return gen_batch(rng, topo, conn, pid, calm=True, **kw)

    P = lambda conn, ttl, pid, http=False: {"op": "prepare", "conn": conn, "ttl": ttl, "pid": pid, "http": http}  # noqa: E731
    A = lambda dt: {"op": "advance", "dt": dt}  # noqa: E731
    L = lambda conn, how="client": {"op": "lose", "conn": conn, "how": how}  # noqa: E731
    IDLE = {"op": "idle"}
    w = twin()
    on = next(c for c in targets() if c[0] == 2 and w.chars[c].display_name == "On")
    fixed_write = {
        "op": "write", "conn": 0, "pid": 7, "http": True, "svcRaise": [], "accRaise": [],
        "entries": [{"aid": on[0], "iid": on[1], "hasValue": True, "value": True, "r": None, "cb": ["ret", None]}],
    }
    hs = [
        [fixed_write],  # the plainest case: a pid that nobody ever prepared (seed-independent witness)
        [W(0, 7)],  # never prepared
        [W(0, 0)],  # pid 0, never prepared
        [P(0, 250, 7), A(250), W(0, 7)],  # exactly at expiry: still live
        [P(0, 250, 7), A(375), W(0, 7)],  # just expired
        [P(0, 250, 7), A(125), W(0, 7)],  # well in time
        [P(0, 0, 7), W(0, 7)],  # ttl 0, same instant
        [P(0, 0, 7), A(125), W(0, 7)],
        [P(0, 1000, 7, True), W(0, 7), W(0, 7)],  # reuse
        [P(0, 1000, 7), W(1, 7), W(0, 7)],  # another connection's pid, then the owner
        [P(0, 1000, 7), L(0), W(0, 7)],  # prepare dies with the connection
        [P(0, 1000, 7), L(1), W(0, 7)],  # someone else's loss is irrelevant
        [P(0, None, 7, True), W(0, 7)],  # malformed prepare registers nothing
        [P(0, 500, None, True), W(0, 7)],
        [P(0, 125, 7), P(0, 1000, 7), A(500), W(0, 7)],  # re-prepare extends
        [P(0, 1000, 7), P(0, 125, 7), A(500), W(0, 7)],  # re-prepare shortens
        [P(0, 1000, 7), P(0, None, 7), A(500), W(0, 7)],  # a refused re-prepare leaves the first
        [P(0, 1000, 7), P(0, 1000, 11), W(0, 11), W(0, 7), W(0, 11)],  # pids are independent
        [P(0, 1000, 7), P(1, 125, 7), A(250), W(1, 7), W(0, 7)],  # same pid on two connections
        [P(0, 1000, 7), W(0, None), W(0, 7)],  # an untimed write does not consume
        [P(0, 500, 7), A(500), W(0, 7), P(0, 500, 7), A(625), W(0, 7)],
        [P(0, 1000, 0), W(0, 0), W(0, 0)],
    ]
    # a prepare dies with its connection however the connection ended; the next connection from the same
    # peer address and port starts with nothing (and somebody else's end is irrelevant)
    for how in SERVER_CLOSES + ["client"]:
        hs.append([P(0, 1000, 7, True), L(0, how), W(0, 7)])
        hs.append([P(0, 1000, 7), A(125), L(0, how), A(125), W(0, 7), W(0, 7)])
        hs.append([P(0, 1000, 7, True), L(1, how), W(0, 7)])
        hs.append([P(0, 1000, 7), L(0, how), P(0, 1000, 7, True), W(0, 7)])
        hs.append([P(0, 1000, 7), P(1, 1000, 7), L(0, how), W(1, 7), W(0, 7)])
    hs.append([P(0, TTL_HUGE, 7, True), IDLE, W(0, 7)])  # idle sweep, ttl still running
    hs.append([P(0, TTL_HUGE, 7), P(1, TTL_HUGE, 11, True), IDLE, W(1, 11), W(0, 7)])
    hs.append([P(0, TTL_HUGE, 7, True), A(IDLE_DT_MS), W(0, 7)])  # same wait without a sweep: still live
    hs.append([P(0, TTL_HUGE, 7), IDLE, P(0, 1000, 7), W(0, 7)])
    out = [{"topo": topo, "ops": h} for h in hs]
    # the same histories over IPv6 connections: the peer name is (host, port, flowinfo, scope_id)
    topo6 = dict(topo, peers="v6")
    out += [{"topo": topo6, "ops": copy.deepcopy(h)} for h in hs[:24:2] + hs[22:]]
    return out


def gen_script(rng):
    topo = gen_topo(rng)
    mode = rng.random()
    ops: List[dict] = []
    if mode < 0.35:  # untimed batches only (mixed)
        for _ in range(rng.choice([1, 1, 2, 3])):
            ops.append(gen_batch(rng, topo, rng.randrange(3), None))
        return {"topo": topo, "ops": ops}
    conns = [0, 1] if rng.random() < 0.7 else [0, 1, 2]
    pids = rng.sample(PIDS, 2)
    pending: List[Tuple[int, int, int]] = []  # (conn, pid, ttl) prepared in this script, for boundary advances
    for _ in range(rng.choice([2, 3, 4, 5, 6, 8, 10])):
        r = rng.random()
        if r < 0.3:
            c, p, ttl = rng.choice(conns), rng.choice(pids), rng.choice(TTLS + ([TTL_HUGE] if rng.random() < 0.5 else []))
            op = {"op": "prepare", "conn": c, "ttl": ttl, "pid": p, "http": rng.random() < 0.4}
            if rng.random() < 0.08:
                op["ttl" if rng.random() < 0.5 else "pid"] = None
            else:
                pending.append((c, p, ttl))
            ops.append(op)
        elif r < 0.5:
            if pending and rng.random() < 0.6:
                ttl = rng.choice(pending)[2]
                dt = max(0, ttl + rng.choice([-125, 0, 0, 125]))
            else:
                dt = rng.choice([0, 125, 250, 375, 500, 1000, 1125])
            ops.append({"op": "advance", "dt": dt})
        elif r < 0.88:
            if pending and rng.random() < 0.7:
                c, p, _ = rng.choice(pending)
                if rng.random() < 0.15:
                    c = rng.choice(conns)
            else:
                c, p = rng.choice(conns), rng.choice([None, None, rng.choice(pids)])
            ops.append(gen_batch(rng, topo, c, p, calm=rng.random() < 0.5))
        else:
            if rng.random() < 0.12:
                ops.append({"op": "idle"})
            else:
                ops.append({"op": "lose", "conn": rng.choice(conns),
                            "how": rng.choice(["client", "client"] + SERVER_CLOSES + SERVER_CLOSES)})
    if not any(o["op"] == "write" for o in ops):
        ops.append(gen_batch(rng, topo, conns[0], pids[0], calm=True))
    return {"topo": topo, "ops": ops}


def mixed_boundary(rng):
    """Deterministic untimed batches: every entry kind next to every other, in one service and across."""
    out = []
    set_cfg(None)
    w = twin()
    by_svc: Dict[Tuple[int, int], List[Tuple[int, int]]] = {}
    for c in targets():
        by_svc.setdefault((c[0], w.svc_of[c]), []).append(c)
    multi = [v for v in by_svc.values() if len(v) >= 2]
    topo_all = {"svcCb": [list(k) for k in sorted(by_svc) if k[1] > 0], "accCb": [1, 2, 3, 4]}
    topo_none = {"svcCb": [], "accCb": []}
    kinds = ["ok", "norm", "reject", "null", "novalue"]
    # the plainest normalising write: Brightness := 150 on a 0..100 characteristic, all callback levels present
    bri = next(c for c in targets() if w.chars[c].display_name == "Brightness")
    out.append({"topo": topo_all, "ops": [{
        "op": "write", "conn": 0, "pid": None, "http": True, "svcRaise": [], "accRaise": [],
        "entries": [{"aid": bri[0], "iid": bri[1], "hasValue": True, "value": 150, "r": None, "cb": ["ret", None]}]}]})
    for topo in (topo_all, topo_none):
        for grp in multi:
            for k1 in kinds:
                for cb1 in ("none", ["ret", "resp"], "raise"):
                    e1 = gen_entry(rng, grp[0], k1)
                    e1["cb"] = cb1
                    e1["r"] = True
                    e2 = gen_entry(rng, grp[1], "ok")
                    e2["cb"] = ["ret", None]
                    other = rng.choice([c for c in targets() if c[0] != grp[0][0]])
                    e3 = gen_entry(rng, other, "ok")
                    e3["cb"] = "none"
                    order = [e1, e2, e3]
                    rng.shuffle(order)
                    out.append({"topo": topo, "ops": [{
                        "op": "write", "conn": 0, "pid": None, "http": rng.random() < 0.5, "entries": order,
                        "svcRaise": [], "accRaise": []}]})
    # the same characteristic named twice (every kind before / after a good entry), something that is not a
    # characteristic next to good entries (before, between, after), 'ev' alone and next to a value
    def wr(entries, topo=topo_all, http=True, pid=None, conn=0):
        return {"op": "write", "conn": conn, "pid": pid, "http": http, "entries": entries, "svcRaise": [], "accRaise": []}

    g0, g1 = multi[0][0], multi[0][1]
    for k1 in kinds:
        for cbs in (("none", "none"), (["ret", "resp"], ["ret", None]), ("raise", ["ret", 5]), (["ret", None], "raise")):
            for first_good in (True, False):
                a = gen_entry(rng, g0, "ok")
                b = gen_entry(rng, g0, k1)
                a["cb"], b["cb"] = (cbs if first_good else cbs[::-1])
                a["r"] = b["r"] = True
                c = gen_entry(rng, g1, "ok")
                c["cb"] = ["ret", None]
                out.append({"topo": topo_all, "ops": [wr([a, c, b] if first_good else [b, c, a], http=rng.random() < 0.5)]})
    for gh in GHOSTS:
        for pos in (0, 1, 2):
            a = gen_entry(rng, g0, "ok")
            a["cb"] = ["ret", None]
            c = gen_entry(rng, rng.choice([t for t in targets() if t[0] != g0[0]]), "ok")
            c["cb"] = "none"
            g = {"aid": gh[0], "iid": gh[1], "hasValue": True, "value": 1, "r": None, "cb": "none"}
            es = [a, c]
            es.insert(pos, g)
            out.append({"topo": topo_all if pos else topo_none, "ops": [wr(es, http=pos != 1)]})
    out.append({"topo": topo_all, "ops": [wr([{"aid": 2, "iid": 999, "hasValue": True, "value": 1, "r": None, "cb": "none"}])]})
    out.append({"topo": topo_all, "ops": [wr([{"aid": 2, "iid": 999, "hasValue": False, "value": None, "r": None, "cb": "none", "ev": True}])]})
    out.append({"topo": topo_all, "ops": [wr([{"aid": 9, "iid": 2, "hasValue": True, "value": 1, "r": None, "cb": "none"}], pid=7)]})
    P = lambda conn, ttl, pid: {"op": "prepare", "conn": conn, "ttl": ttl, "pid": pid, "http": True}  # noqa: E731
    a = gen_entry(rng, g0, "ok")
    a["cb"] = ["ret", None]
    out.append({"topo": topo_all, "ops": [P(0, 1000, 7), wr([a, {"aid": 2, "iid": 999, "hasValue": True, "value": 1, "r": None, "cb": "none"}], pid=7)]})
    for ev in (True, False):
        a = gen_entry(rng, g0, "ok")
        a["cb"] = ["ret", None]
        a["ev"] = ev
        b = {"aid": g1[0], "iid": g1[1], "hasValue": False, "value": None, "r": None, "cb": "none", "ev": ev}
        out.append({"topo": topo_all, "ops": [wr([a, b]), wr([b, a], pid=7), wr([a], conn=1)]})
    # characteristics with non-default configuration: a value outside the declared valid values / range / step
    # to a characteristic with and without allow_invalid_client_values, an ALWAYS_NULL type, each next to
    # ordinary writes on other accessories (before and after), with and without write response
    global _MENU
    if _MENU is None:
        _MENU = config_menu()
    for cfg in _MENU:
        topo_c = dict(topo_all, config=cfg)
        set_cfg(topo_c)
        special = sorted({_cid(x) for x in (cfg.get("aicv") or [])} | {_cid(x) for x in (cfg.get("vv") or {})}
                         | {_cid(x) for x in (cfg.get("props") or {})})
        for cid in special:
            for kind in ("ok", "norm", "reject"):
                for cb in ("none", ["ret", "resp"]):
                    e1 = gen_entry(rng, cid, kind)
                    e1["cb"], e1["r"] = cb, True
                    e0 = gen_entry(rng, rng.choice([t for t in targets() if t[0] != cid[0]]), "ok")
                    e2 = gen_entry(rng, rng.choice([t for t in targets() if t[0] != cid[0] and t != (e0["aid"], e0["iid"])]), "ok")
                    e0["cb"], e2["cb"] = ["ret", None], "none"
                    out.append({"topo": topo_c, "ops": [wr([e0, e1, e2], http=rng.random() < 0.5)]})
    set_cfg(None)
    pse = next(c for c in targets() if w.chars[c].display_name == "ProgrammableSwitchEvent")
    for v, cb in ((0, "none"), (1, ["ret", None]), (2, ["ret", "resp"]), (1, "raise"), (7, ["ret", None]), (None, "none")):
        a = gen_entry(rng, g0, "ok")
        a["cb"] = ["ret", None]
        out.append({"topo": topo_all, "ops": [wr([{"aid": pse[0], "iid": pse[1], "hasValue": True, "value": v, "r": True, "cb": cb}, a]),
                                              wr([{"aid": pse[0], "iid": pse[1], "hasValue": True, "value": 0, "r": None, "cb": "none"}])]})
    # failing service / accessory callbacks next to healthy services
    for sr, ar in (([[2, 1]], []), ([], [3]), ([[3, 1]], [3]), ([[4, 2]], [2])):
        ids = [c for c in targets() if c[0] in (2, 3, 4)]
        entries = [gen_entry(rng, c, "ok") for c in rng.sample(ids, 6)]
        for e in entries:
            e["cb"] = ["ret", None]
        out.append({"topo": topo_all, "ops": [{
            "op": "write", "conn": 1, "pid": None, "http": True, "entries": entries, "svcRaise": sr, "accRaise": ar}]})
    return out


# ------------------------------------------------------------------------------- model line


def model_line(script: dict):
    """(line for the model driver, index of the model op that answers script op i).  `lose` stands for
    the end of a connection however it came about; `idle` is a clock jump followed by the loss of
    every open connection."""
    set_cfg(script["topo"])
    w = twin()
    ops = []
    at = []
    open_conns = set()
    for op in script["ops"]:
        if op["op"] in ("prepare", "write"):
            open_conns.add(op["conn"])
        if op["op"] == "idle":
            ops.append({"op": "advance", "dt": IDLE_DT_MS})
            for c in sorted(open_conns) or [0]:
                ops.append({"op": "lose", "conn": c})
            open_conns.clear()
            at.append(len(ops) - 1)
            continue
        at.append(len(ops))
        if op["op"] == "lose":
            open_conns.discard(op["conn"])
        if op["op"] != "write":
            ops.append({k: v for k, v in op.items() if k not in ("http", "t", "how")})
            continue
        entries = []
        for e in op["entries"]:
            cid = (e["aid"], e["iid"])
            acc, n = (False, None)
            if e["hasValue"] and e["value"] is not None:
                acc, n = normalise(cid, e["value"])  # (False, None) for something that is not a characteristic
            cb = e["cb"]
            if isinstance(cb, list):
                cb = ["ret", ref.canon(cb[1])]
            entries.append({
                "aid": e["aid"], "iid": e["iid"], "hasValue": e["hasValue"],
                "value": ref.canon(e["value"]) if e["hasValue"] else None,
                "r": bool(e.get("r")), "valid": ref.canon(n) if acc else None, "cb": cb,
                "nulls": always_null(cid),
            })
        ops.append({"op": "write", "conn": op["conn"], "pid": op.get("pid"), "entries": entries,
                    "svcRaise": op["svcRaise"], "accRaise": op["accRaise"]})
    return {
        "layer": "writes", "now": T0_MS,
        "topo": {
            "chars": [[a, i, w.svc_of[(a, i)]] for (a, i) in sorted(w.chars)],
            "svcCb": script["topo"]["svcCb"], "accCb": script["topo"]["accCb"],
        },
        "init": [[a, i, ref.canon(w.chars[(a, i)].value) or "null"] for (a, i) in sorted(w.chars)],
        "ops": ops,
    }, at


def canon_obs(op: dict, obs: dict) -> dict:
    """Observation of the real code in the shape the model driver answers."""
    kind = op["op"]
    if kind == "advance":
        return {}
    if kind in ("lose", "idle"):
        return {"prep": obs["prep"]}
    if kind == "prepare":
        return {"http": obs["http"], "status": obs["status"], "prep": obs["prep"]}
    body = None
    if obs["body"] is not None:
        body = sorted(
            [c.get("aid"), c.get("iid"), c.get("status"), ref.canon(c.get("value"))]
            for c in obs["body"].get("characteristics", [])
        )
    lg = []
    for r in obs["log"]:
        if r["level"] == "char":
            lg.append(["char", r["id"][0], r["id"][1], ref.canon(r["arg"])])
        elif r["level"] == "svc":
            lg.append(["svc", r["id"][0], r["id"][1], [[c[0], c[1], ref.canon(v)] for c, v in r["arg"]]])
        else:
            lg.append(["acc", r["id"], [[s, [[c[0], c[1], ref.canon(v)] for c, v in us]] for s, us in r["arg"]]])
    vals = [[a, i, ref.canon(v) or "null"] for (a, i), v in sorted(obs["after"].items())]
    return {"http": obs["http"], "body": body, "log": lg, "vals": vals, "prep": obs["prep"]}


def canon_model(op: dict, m: dict) -> dict:
    m = dict(m)
    if op["op"] == "write" and m.get("body") is not None:
        m["body"] = sorted(m["body"])
    if "prep" in m:
        m["prep"] = sorted(m["prep"])
    return m


# ------------------------------------------------------------------------------- the oracle


def judge_write(ctx: Ctx, script: dict, idx: int, ops: List[dict], obs: dict, world: World, sink=None):
    """The statement of C10 as a predicate on what the real code did for write op `idx`.

    Reports through `sink(signature, text)` (default: ctx.fail with a replay)."""
    op = ops[idx]
    conn, pid = op["conn"], op.get("pid")

    def bad(sig, text):
        if sink is not None:
            sink(sig, text)
        else:
            ctx.fail(sig, text, {"kind": "script", "topo": script["topo"], "ops": strip(ops[: idx + 1]), "at": idx})

    body = obs["body"]
    http = obs["http"]
    items = (body or {}).get("characteristics", []) if isinstance(body, dict) else []
    by_id: Dict[Tuple[int, int], List[dict]] = {}
    for it in items:
        by_id.setdefault((it.get("aid"), it.get("iid")), []).append(it)
    entries = op["entries"]
    refused = pid is not None and not ref.live_prepare(ops[:idx], conn, pid, op["t"])
    if http == 500:
        ghosts = [(e["aid"], e["iid"]) for e in entries if is_ghost(e) and (e["hasValue"] or refused)]
        others = [(e["aid"], e["iid"]) for e in entries if not is_ghost(e) and (e["hasValue"] or refused)]
        if ghosts and others:
            bad("C10:nonexistent-characteristic-aborts-request",
                f"the request names {ghosts}, which are not characteristics of the bridge, next to the characteristics "
                f"{others}: the whole request was aborted by an exception (HTTP 500, {body!r}) — no status for any "
                f"characteristic, the entries before the nonexistent one were already written (values {changed_now(obs)} "
                f"changed, {len(obs['log'])} callback(s) ran), the entries after it never were, no service/accessory "
                f"callback ran: a failing entry stopped the others")
        elif not ghosts:
            bad("C10:write-request-aborted", f"the write request was aborted by an exception (HTTP 500, {body!r}): no status per characteristic")
        # a request that names nothing but nonexistent things has no written characteristic: not judged
        return
    if (http == 204) != (body is None) or http not in (204, 207):
        bad("C10:http-status-body-mismatch", f"HTTP {http} with body {body!r}")
        return
    changed = [c for c in obs["before"] if not ref.same_value(obs["before"][c], obs["after"][c])
               or type(obs["before"][c]) is not type(obs["after"][c])]

    # ---- timed writes: "executed only if the same connection prepared that identifier and its
    # time-to-live has not elapsed, each prepare is usable once, and otherwise no value is written,
    # no callback runs and every characteristic is answered with the invalid-value status"
    if refused:
        why = []
        if changed:
            why.append(f"values of {changed} were written")
        if obs["log"]:
            why.append(f"{len(obs['log'])} callback(s) ran ({', '.join(sorted({r['level'] for r in obs['log']}))})")
        wrong = []
        for e in entries:
            cid = (e["aid"], e["iid"])
            sts = [it.get("status") for it in by_id.get(cid, [])]
            if is_ghost(e):  # not a characteristic: any failure status (or none at all), never success
                if 0 in sts:
                    wrong.append(cid)
            elif sts != [ref.INVALID_VALUE]:
                wrong.append(cid)
        if wrong:
            why.append(f"HTTP {http}; entries {wrong} not answered {ref.INVALID_VALUE}")
        if why:
            bad(
                "C10:timed-write-without-live-prepare",
                f"write with pid {pid} from connection {conn} has no live prepare (never prepared by it / expired / "
                f"already used / connection lost), yet " + "; ".join(why),
            )
        return

    # ---- executed request (untimed, or timed with a live prepare)
    if pid is not None and entries and not changed and not obs["log"] and len(items) == len({(e["aid"], e["iid"]) for e in entries}) and all(
        it.get("status") == ref.INVALID_VALUE for it in items
    ) and any(
        # a characteristic ALL of whose entries carry an acceptable value is not answered invalid-value by an executed request
        all(reaches_callback(x) for x in entries if (x["aid"], x["iid"]) == (e["aid"], e["iid"])) for e in entries
    ):
        bad(
            "C10:timed-write-with-live-prepare-refused",
            f"connection {conn} prepared pid {pid}, has not used it, and its time to live has not elapsed "
            f"(now - prepare time <= ttl), yet the write was refused ({ref.INVALID_VALUE} for every entry, nothing executed)",
        )
        return
    all_ok = True
    wr_due_sure = False   # a write-response value is due under every sequential reading of the batch
    wr_due_maybe = False  # ... under some reading (differs from _sure only for a characteristic named twice)
    named: List[Tuple[int, int]] = []
    for e in entries:
        if e["hasValue"] and (e["aid"], e["iid"]) not in named:
            named.append((e["aid"], e["iid"]))  # the written characteristics
    for cid in named:
        es = [e for e in entries if e["hasValue"] and (e["aid"], e["iid"]) == cid]
        its = by_id.get(cid, [])
        if cid not in world.chars:
            # names no characteristic: nothing can have been written, so it must not be answered success
            # (and must not stop the others: they are judged below as always)
            if any(it.get("status") == 0 for it in its):
                bad("C10:success-status-without-effect", f"{cid} is not a characteristic of the bridge but was answered success")
            all_ok = False
            continue
        sidx = world.svc_of[cid]
        if http == 207 and len(its) != 1:
            bad("C10:not-one-status-per-characteristic", f"{cid} has {len(its)} entries in the 207 body")
            return
        status = its[0].get("status") if its else 0  # a 204 answers success for every entry
        has_ccb = es[0]["cb"] != "none"
        has_scb = [cid[0], sidx] in script["topo"]["svcCb"]
        has_acb = cid[0] in script["topo"]["accCb"]
        ccalls = [r for r in obs["log"] if r["level"] == "char" and r["id"] == cid]
        scalls = [r for r in obs["log"] if r["level"] == "svc" and r["id"] == (cid[0], sidx)]
        acalls = [r for r in obs["log"] if r["level"] == "acc" and r["id"] == cid[0]]

        def svc_arg():
            return [v for c, v in scalls[0]["arg"] if c == cid]

        def acc_arg():
            return [v for s, us in acalls[0]["arg"] if s == sidx for c, v in us if c == cid]

        if len(es) > 1:
            # The characteristic is named several times. The property does not say which entry counts; demanded
            # is only what every sequential reading grants: ONE status; success means the stored value is the
            # normalised value of one of the entries, the characteristic callback's last invocation and the
            # (single) service and accessory invocations carry that stored value, and none of these raised.
            cands = [normalise(cid, e["value"])[1] for e in es if reaches_callback(e)]
            stored = obs["after"][cid]
            problems = []
            if not cands:
                problems.append("no entry carries a value acceptable for the characteristic")
            elif not always_null(cid) and not any(ref.same_value(stored, n) and type(stored) is type(n) for n in cands):
                problems.append(f"stored value {stored!r} is the normalised value of none of the entries ({cands!r})")
            else:
                if always_null(cid):
                    stored = ccalls[-1]["arg"] if ccalls else cands[-1]  # the characteristic itself holds None by definition
                if has_ccb and not (1 <= len(ccalls) <= len(es) and ref.same_value(ccalls[-1]["arg"], stored)):
                    problems.append(f"characteristic callback ran {len(ccalls)} time(s) with {[r['arg'] for r in ccalls]!r}, stored value is {stored!r}")
                if has_scb and not (len(scalls) == 1 and len(svc_arg()) == 1 and ref.same_value(svc_arg()[0], stored)):
                    problems.append(f"service callback ran {len(scalls)} time(s) / got {svc_arg() if scalls else None!r} for {cid}, stored value is {stored!r}")
                if has_acb and not (len(acalls) == 1 and len(acc_arg()) == 1 and ref.same_value(acc_arg()[0], stored)):
                    problems.append(f"accessory callback ran {len(acalls)} time(s) / got {acc_arg() if acalls else None!r} for {cid}, stored value is {stored!r}")
            raised = [r["level"] for r in ccalls[-1:] + scalls + acalls if r["raised"]]
            if status == 0 and problems:
                bad("C10:success-status-without-effect", f"{cid} (named {len(es)} times, values {[e['value'] for e in es]!r}) answered success (HTTP {http}) but " + "; ".join(problems))
            elif status == 0 and raised:
                bad("C10:success-status-despite-failing-callback", f"{cid} answered success (HTTP {http}) although its {'/'.join(raised)} callback raised")
            if not (not problems and not raised and status == 0):
                all_ok = False
            good_rets = [r for r in ccalls if not r["raised"] and r["ret"] is not None]
            if any(e.get("r") for e in es) and good_rets:
                wr_due_maybe = True
            if all(e.get("r") for e in es) and len(ccalls) == len(es) and len(good_rets) == len(ccalls):
                wr_due_sure = True
            continue

        e = es[0]
        acc, n = (False, None)
        if e["value"] is not None:
            acc, n = normalise(cid, e["value"])

        # what "success" means, judged on the observed effects
        problems = []
        if not acc:
            problems.append("the value is not acceptable for the characteristic")
        else:
            # (an ALWAYS_NULL event type holds None by definition once the write is over: only its callbacks are judged)
            if not always_null(cid) and (not ref.same_value(obs["after"][cid], n) or type(obs["after"][cid]) is not type(n)):
                problems.append(f"stored value is {obs['after'][cid]!r}, normalised value is {n!r}")
            if has_ccb and not (len(ccalls) == 1 and ref.same_value(ccalls[0]["arg"], n)):
                problems.append(f"characteristic callback ran {len(ccalls)} time(s) with {[r['arg'] for r in ccalls]!r}, expected once with {n!r}")
            if has_scb and len(scalls) != 1:
                problems.append(f"service callback ran {len(scalls)} time(s)")
            if has_acb and len(acalls) != 1:
                problems.append(f"accessory callback ran {len(acalls)} time(s)")
        upper_raw = []
        if acc and not problems:
            if has_scb and not (len(svc_arg()) == 1 and ref.same_value(svc_arg()[0], n)):
                (upper_raw if len(svc_arg()) == 1 and ref.same_value(svc_arg()[0], e["value"]) else problems).append(
                    f"service callback got {svc_arg()!r} for {cid}, normalised value is {n!r}")
            if has_acb and not (len(acc_arg()) == 1 and ref.same_value(acc_arg()[0], n)):
                (upper_raw if len(acc_arg()) == 1 and ref.same_value(acc_arg()[0], e["value"]) else problems).append(
                    f"accessory callback got {acc_arg()!r} for {cid}, normalised value is {n!r}")
        raised = [r["level"] for r in ccalls + scalls + acalls if r["raised"]]
        fine = acc and not problems and not raised  # this characteristic did not fail
        if status == 0 and problems:
            bad("C10:success-status-without-effect", f"{cid} (value {e['value']!r}) answered success (HTTP {http}) but " + "; ".join(problems))
        elif status == 0 and raised:
            bad("C10:success-status-despite-failing-callback", f"{cid} answered success (HTTP {http}) although its {'/'.join(raised)} callback raised")
        elif status == 0 and upper_raw:
            bad("C10:upper-callback-got-request-value",
                f"{cid} answered success and stored {n!r}, but " + "; ".join(upper_raw) +
                " (service/accessory callbacks receive the request value, not the normalised one)")
        # "a failing characteristic does not stop the others": whatever the other entries do, a
        # characteristic that is acceptable and whose own callbacks do not fail is carried out and says so
        script_fails = (
            e["cb"] == "raise" or (has_scb and [cid[0], sidx] in op["svcRaise"]) or (has_acb and cid[0] in op["accRaise"])
        )
        if acc and not script_fails:
            if problems:
                bad("C10:healthy-entry-not-carried-out", f"{cid} (value {e['value']!r}) is acceptable and none of its callbacks fails, but " + "; ".join(problems))
            elif status != 0:
                bad("C10:healthy-entry-answered-failure", f"{cid} was carried out completely but answered status {status}")
        if not (fine and status == 0):
            all_ok = False
        if e.get("r") and ccalls and not ccalls[0]["raised"] and ccalls[0]["ret"] is not None:
            wr_due_sure = wr_due_maybe = True
    # "the response is 204 exactly when everything succeeded and no write-response value is due"
    statuses_ok = all(it.get("status") == 0 for it in items)
    if http == 204 and wr_due_sure:
        bad("C10:204-although-write-response-due", "a requested write-response value was returned by the callback but the answer is 204")
    if http == 207 and statuses_ok and not any("value" in it for it in items):
        bad("C10:207-although-all-succeeded", "207 with only success statuses and no write-response value")
    if http == 207 and all_ok and not wr_due_maybe:
        bad("C10:207-although-all-succeeded", "every written characteristic succeeded and no write-response value is due, but the answer is 207")
    # entries that were not written (no value) must not have been touched
    for e in entries:
        cid = (e["aid"], e["iid"])
        if not e["hasValue"] and cid not in named and cid in changed:
            bad("C10:unwritten-characteristic-changed", f"{cid} carried no value but changed")


def changed_now(obs):
    return [c for c in obs["before"] if not ref.same_value(obs["before"][c], obs["after"][c])
            or type(obs["before"][c]) is not type(obs["after"][c])]


def strip(ops):
    return [{k: v for k, v in o.items() if k != "t"} for o in ops]


# ------------------------------------------------------------------------------- running


def run_script(ctx: Ctx, script: dict, judge=True, sink=None):
    """Run one history on a fresh real world; returns (ops with times, observations)."""
    set_cfg(script["topo"])
    ops = stamp(script["ops"])
    world = World(script["topo"]["svcCb"], script["topo"]["accCb"], script["topo"].get("config"), script["topo"].get("peers", "v4"))
    obs = []
    for i, op in enumerate(ops):
        o = world.apply(op)
        obs.append(o)
        if judge and op["op"] == "write":
            judge_write(ctx, script, i, ops, o, world, sink)
    return ops, obs


def fails_with(ctx: Ctx, script: dict, signature: str) -> bool:
    hits = []
    try:
        run_script(ctx, script, True, lambda s, t: hits.append(s))
    except Exception:  # noqa: BLE001
        return False
    return signature in hits


def minimise(ctx: Ctx, script: dict, signature: str) -> dict:
    """Delta-debug the history, then the entries of each remaining write."""
    ops = script["ops"]
    ops = delta_min(ops, lambda cand: fails_with(ctx, {"topo": script["topo"], "ops": cand}, signature), 200)
    for i, op in enumerate(ops):
        if op["op"] != "write" or len(op["entries"]) < 2:
            continue

        def f(cand, i=i, op=op):
            ops2 = list(ops)
            ops2[i] = dict(op, entries=cand)
            return fails_with(ctx, {"topo": script["topo"], "ops": ops2}, signature)

        ops[i] = dict(op, entries=delta_min(op["entries"], f, 120))
    return {"topo": script["topo"], "ops": ops}


class _Patches:
    def __enter__(self):
        import pyhap.hap_protocol as hp
        import pyhap.hap_server as hs

        ad, _, _, _ = _mods()
        logging.getLogger("pyhap").setLevel(logging.CRITICAL + 1)
        self.ps = [patch.object(m, "time", CLOCK) for m in (ad, hp, hs)]
        for p in self.ps:
            p.start()
        return self

    def __exit__(self, *a):
        for p in self.ps:
            p.stop()


def _patches():
    return _Patches()


def all_scripts(ctx: Ctx):
    rng = ctx.rng
    scripts = boundary_scripts(rng) + mixed_boundary(rng)
    for _ in range(ctx.n(4000, 60000)):
        scripts.append(gen_script(rng))
    return scripts


def run(ctx: Ctx):
    st = ctx.stats
    ad, _, _, _ = _mods()
    st.notes.append(f"implementation under check: {os.path.dirname(ad.__file__)}")
    st.rule = (
        "one case = one history (prepare / advance / write / connection end [client close, Connection: close, HTTP/1.0, "
        "undecryptable frame, idle sweep] followed by new connections from the same peer address, across up to 3 "
        "connection slots and 2 pids; writes are "
        "batches of 1..10 entries over 4 accessories mixing acceptable, normalised, rejected, null and value-less entries, "
        "entries naming a characteristic of the batch again, entries naming something that is not a characteristic (unknown "
        "iid, unknown aid, a service's iid), entries carrying 'ev', "
        "characteristic callbacks absent / returning / returning a write-response value / raising, raising service and "
        "accessory callbacks). Deterministic boundary histories first (never prepared, now == expiry, just expired, ttl 0, "
        "reuse, cross-connection, connection loss by every route x same-address reconnect, malformed prepare, re-prepare), then every entry kind x callback kind "
        "next to healthy entries, then random. Non-trivial: a history with a refused timed write, a failing or rejected "
        "entry, a write-response value or a raising service/accessory callback; distinct by canonical history."
    )
    with _patches():
        scripts = all_scripts(ctx)
        impl_all, lines, ats = [], [], []
        first_fail: Dict[str, dict] = {}
        for sc in scripts:
            nfail = len(ctx.failures)
            ops, obs = run_script(ctx, sc)
            for f in ctx.failures[nfail:]:
                first_fail[f.signature] = sc
            impl_all.append((ops, obs))
            ln, at = model_line(sc)
            lines.append(ln)
            ats.append(at)
            _count(ctx, sc, ops, obs)
        # shrink what the oracle found
        for f in ctx.failures:
            sc = first_fail.get(f.signature)
            if sc is None:
                continue
            at = f.replay["at"]
            small = minimise(ctx, {"topo": sc["topo"], "ops": copy.deepcopy(sc["ops"][: at + 1])}, f.signature)
            f.replay = {"kind": "script", "topo": small["topo"], "ops": small["ops"]}
            texts: List[str] = []
            try:  # describe the minimised input, not the one it was found on
                run_script(ctx, small, True, lambda sg, tx, f=f: texts.append(tx) if sg == f.signature else None)
            except Exception:  # noqa: BLE001
                pass
            if texts:
                f.description = texts[0]
        _drop_misattributed(ctx)
        model = run_model_parallel("C10", lines)
        for sc, (ops, obs), m, at in zip(scripts, impl_all, model, ats):
            st.traces_validated += 1
            if "fatal" in m:
                ctx.disagree("writes", {"topo": sc["topo"], "ops": strip(ops)}, m, None)
                continue
            for i, (op, o) in enumerate(zip(ops, obs)):
                mo = m["ops"][at[i]]
                ci, cm = canon_obs(op, o), canon_model(op, mo)
                if ci != cm:
                    diff = {k: (cm.get(k), ci.get(k)) for k in set(ci) | set(cm) if ci.get(k) != cm.get(k)}
                    ctx.disagree(
                        "writes",
                        {"topo": sc["topo"], "ops": strip(ops[: i + 1]), "first_difference_at_op": i, "fields": sorted(diff)},
                        {k: v[0] for k, v in diff.items()}, {k: v[1] for k, v in diff.items()},
                    )
                    break
        for k in (0, len(boundary_scripts(ctx.rng)) + 3, len(scripts) - 1):
            ops, obs = impl_all[k]
            novals = lambda d: {x: y for x, y in d.items() if x != "vals"}  # noqa: E731
            st.sample({
                "history": strip(ops),
                "impl_last_op": novals(canon_obs(ops[-1], obs[-1])),
                "model_last_op": novals(canon_model(ops[-1], model[k]["ops"][ats[k][-1]])) if "ops" in model[k] else model[k],
            })


def _count(ctx: Ctx, sc, ops, obs):
    st = ctx.stats
    nontrivial = False
    for i, (op, o) in enumerate(zip(ops, obs)):
        st.hit("op", op["op"] + ("-http" if op.get("http") else "") + ("-" + o.get("closed_by", "") if op["op"] == "lose" else ""))
        if op["op"] == "prepare":
            st.hit("outcome", "prepare-ok" if o["status"] == 0 else "prepare-refused")
        if op["op"] != "write":
            continue
        timed = op.get("pid") is not None
        live = (not timed) or ref.live_prepare(ops[:i], op["conn"], op["pid"], op["t"])
        st.hit("outcome", "write-untimed" if not timed else ("write-timed-live" if live else "write-timed-refused"))
        if timed and live and any(
            p["op"] == "prepare" and p["conn"] == op["conn"] and p.get("pid") == op["pid"] and p.get("ttl") is not None
            and p["t"] + p["ttl"] == op["t"] for p in ops[:i]
        ):
            st.hit("outcome", "write-exactly-at-expiry")
        st.hit("outcome", f"http-{o['http']}")
        ids = [(e["aid"], e["iid"]) for e in op["entries"]]
        if len(set(ids)) < len(ids):
            st.hit("outcome", "batch-names-a-characteristic-twice")
        if any(is_ghost(e) for e in op["entries"]):
            st.hit("outcome", "batch-names-a-nonexistent-characteristic")
        if any(e.get("ev") is not None for e in op["entries"]):
            st.hit("outcome", "batch-carries-ev")
        for it in (o["body"] or {}).get("characteristics", []):
            st.hit("outcome", f"entry-status-{it.get('status')}" + ("-with-value" if "value" in it else ""))
        if o["http"] == 204:
            st.hit("outcome", "entry-status-0(204)", sum(1 for e in op["entries"] if e["hasValue"]))
        for r in o["log"]:
            st.hit("outcome", f"callback-{r['level']}" + ("-raised" if r["raised"] else ""))
        if o["http"] == 207 or not live:
            nontrivial = True
    st.case(strip(ops), nontrivial)


def _drop_misattributed(ctx: Ctx):
    """An aborted request that names a nonexistent id is attributed to that id only if the same request
    without the nonexistent entries is NOT aborted (otherwise it is the plain C10:write-request-aborted)."""
    keep = []
    for f in ctx.failures:
        if f.signature == "C10:nonexistent-characteristic-aborts-request" and f.replay.get("ops"):
            set_cfg(f.replay["topo"])
            ops = copy.deepcopy(f.replay["ops"])
            for op in ops:
                if op["op"] == "write":
                    op["entries"] = [e for e in op["entries"] if not is_ghost(e)]
            if fails_with(ctx, {"topo": f.replay["topo"], "ops": ops}, "C10:write-request-aborted"):
                if not any(g.signature == "C10:write-request-aborted" for g in ctx.failures):
                    f.signature = "C10:write-request-aborted"
                    f.replay = dict(f.replay, ops=ops)
                    f.description = "the write request was aborted by an exception (HTTP 500): no status per characteristic"
                    keep.append(f)
                continue
        keep.append(f)
    ctx.failures[:] = keep


def search(ctx: Ctx):
    """Deeper oracle-only failing-input search on the real code."""
    saved = ctx.tier
    ctx.tier = "thorough"
    try:
        with _patches():
            rng = ctx.rng
            for sc in boundary_scripts(rng) + mixed_boundary(rng) + [gen_script(rng) for _ in range(12000)]:
                n = len(ctx.failures)
                run_script(ctx, sc)
                for f in ctx.failures[n:]:
                    small = minimise(ctx, {"topo": sc["topo"], "ops": copy.deepcopy(sc["ops"][: f.replay["at"] + 1])}, f.signature)
                    f.replay = {"kind": "script", "topo": small["topo"], "ops": small["ops"]}
            _drop_misattributed(ctx)
    finally:
        ctx.tier = saved


def replay(ctx: Ctx, r):
    with _patches():
        sc = {"topo": r["topo"], "ops": r["ops"]}
        ops, obs = run_script(ctx, sc)
        for op, o in zip(ops, obs):
            c = canon_obs(op, o)
            c.pop("vals", None)
            print(json.dumps({k: v for k, v in op.items() if k != "t"}, default=str)[:400])
            print("   t=%d ms ->" % (op["t"] - T0_MS), json.dumps(c, default=str)[:600])
    for f in ctx.failures:
        print("FAILS:", f.signature, f.description)
    print("verdict:", "property violated on this input" if ctx.failures else "holds on this input")
    return 1 if ctx.failures else 0
