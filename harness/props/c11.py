"""C11 — Reads always reflect the current attribute database."""
from __future__ import annotations

import copy
import json
import sys
from fractions import Fraction
from typing import Any, Dict, List, Optional

import common
from common import Ctx, delta_min, run_model_parallel
from ref import dbrig
from ref import render as ref
from ref.render import full_type, hap_type

PROP = "C11"
LEAN_MODULE = "Props.C11"
TRUSTED = [
    "Lean 4.33 kernel; axioms propext, Classical.choice, Quot.sound only (audited by #print axioms)",
    "hand-written model lean/HapModel/Db.lean of Characteristic (cache fields, every mutator's invalidation, "
    "to_HAP, get_value), Service.to_HAP, Accessory/Bridge.to_HAP, AccessoryDriver.get_accessories / "
    "get_characteristics and the 200/207 selection of handle_get_characteristics, tied by this differential run",
    "value validation (to_valid_value / valid_value_or_raise, C09's subject) and getter callbacks are parameters "
    "of the model: the harness supplies their outcome per operation, computed with the characteristic's own "
    "public methods",
    "harness/ref/render.py: the uncached reference renderer (oracle); it walks public attributes, never calls "
    "to_HAP, and asks side-effect-free scripted getters for the value a read must return",
    "application subclasses: in 30% of the configurations 1-3 characteristics get a subclass of Characteristic that "
    "overrides the public get_value() (reads a scripted device, no side effects, no getter callback); for the model such a "
    "characteristic is one with a permanently installed getter whose outcome is what the accessor answers (the model "
    "mirrors the repaired to_HAP, design/fixes/C11-overridden-get-value.patch, which never reuses a with-value "
    "representation of such a characteristic)",
    "single-threaded histories (the threaded window is C20); services are linked only to services of the same accessory; "
    "structural histories (add service / add, remove bridged accessory / IIDManager assign, remove_obj, remove_iid "
    "interleaved with mutations and reads) hand the model the loader-built definitions of every new service "
    "(type, properties, loader name, initial value) as data",
    "GET /characteristics is sent in varying legal spellings of the same id list (percent-encoded separators and digits, "
    "other / unknown / empty parameters before and after id); the model sees the id pairs only",
    "harness generators and the in-process rig harness/ref/dbrig.py (real HAPServerHandler.dispatch on a "
    "connection marked verified)",
]


def extract(ctx: Ctx):
    sys.path.insert(0, str(common.VERIF / "extract"))
    import services as ex

    if ex.write(common.REPO, common.LEAN):
        common.log("[C11] regenerated lean/HapModel/Gen/Services.lean")


def canon(x: Any) -> Any:
    """Canonical form for the model/implementation diff (numbers by value, bool distinct)."""
    if isinstance(x, bool):
        return ["b", x]
    if isinstance(x, (int, float)):
        try:
            return ["n", str(Fraction(x))]
        except (ValueError, OverflowError):
            return ["n", repr(x)]
    if isinstance(x, str):
        return ["s", x]
    if isinstance(x, dict):
        return {k: canon(v) for k, v in sorted(x.items())}
    if isinstance(x, (list, tuple)):
        return [canon(v) for v in x]
    return x


def is_always_null(c) -> bool:
    return str(c.type_id).upper() in dbrig.ALWAYS_NULL_TYPES


def validated(c, v, client: bool = False) -> Optional[dict]:
    """Outcome of the validation a write performs, computed with the public pure methods."""
    try:
        if client:
            if not is_always_null(c) or v is not None:
                v = c.to_valid_value(v)
            if not c.allow_invalid_client_values:
                c.valid_value_or_raise(v)
        else:
            v = c.to_valid_value(v)
            c.valid_value_or_raise(v)
    except Exception:  # noqa: BLE001
        return None
    return {"v": v}


def is_live(c) -> bool:
    return dbrig.overrides_get_value(c)


def other_reading(c):
    """A valid reading different from the characteristic's stored value (deterministic)."""
    props = c.properties
    fmt = props["Format"]
    vv = props.get("ValidValues")
    if vv:
        cands = sorted(vv.values())
    elif fmt == "bool":
        cands = [True, False]
    elif fmt in ref.NUMERIC_FORMATS:
        lo, hi = props.get("minValue", 0), props.get("maxValue", 100)
        cands = [hi, lo, 1, 2, 21.5 if fmt == "float" else 21]
    elif fmt == "string":
        cands = ["live", "reading"]
    else:
        cands = ["AQEA", "AgEB"]
    for v in cands:
        ok = validated(c, v)
        if ok is not None and ok["v"] != c.value:
            return v
    return cands[0]


def getter_outcome(c) -> Optional[dict]:
    """Outcome of `get_value`'s use of the getter callback: the answer converted by `to_valid_value` and
    accepted by `valid_value_or_raise` (an answer that is not one of the declared valid values counts as a
    raising getter, /repo e2cce9e), or None when any of the three raised."""
    if is_live(c):
        try:
            return {"v": c.get_value()}
        except Exception:  # noqa: BLE001
            return None
    try:
        v = c.to_valid_value(c.getter_callback())
        c.valid_value_or_raise(v)
        return {"v": v}
    except Exception:  # noqa: BLE001
        return None


def spell_query(ids, spell: Optional[dict]) -> str:
    """The request target of GET /characteristics for `ids` in one of its legal spellings: separators and
    digits percent-encoded, the id parameter before / after / between other (known, unknown, empty)
    parameters.  Every spelling names the same id list, so the same answer is demanded."""
    sp = spell or {}
    comma, dot = sp.get("comma", ","), sp.get("dot", ".")

    def num(n):
        t = str(n)
        return "%3" + t[0] + t[1:] if sp.get("digit") and t[0].isdigit() else t

    value = comma.join(num(a) + dot + num(i) for a, i in ids)
    params = list(sp.get("pre", [])) + ["id=" + value] + list(sp.get("post", []))
    return "/characteristics?" + "&".join(params)


def rand_spell(rng) -> Optional[dict]:
    if rng.random() < 0.6:
        return None
    extra = ["meta=0", "ev=0", "perms=0", "type=0", "meta=1", "x=", "foo=bar", "ev"]
    return {"comma": rng.choice([",", "%2C", "%2c"]), "dot": rng.choice([".", ".", "%2E"]), "digit": rng.random() < 0.3,
            "pre": rng.sample(extra, rng.choice([0, 0, 1, 2])), "post": rng.sample(extra, rng.choice([0, 1, 2]))}


class Hist:
    """One configuration + history, executed on the real code and judged by the oracle."""

    def __init__(self, cfg: dict):
        self.cfg = cfg
        self.rig = dbrig.Rig(cfg["bridge"], cfg["main"], cfg.get("mainAid", 1))
        rig = self.rig
        for a in cfg.get("accs", []):
            acc = rig.new_accessory(a["aid"], a["specs"])
            rig.top.add_accessory(acc)
            rig.number_accessory(acc)
        # application subclasses: some characteristics read their value from a device on demand
        # (cfg["live"] = [[k, "same"|"other"], ...]: the k-th readable characteristic, modulo their number;
        # the device's first reading is the stored default itself, or a different valid value)
        pickable = [c for _, acc in rig.accessories() for sv in acc.services for c in sv.characteristics
                    if "pr" in c.properties["Permissions"]]
        for k, reading in cfg.get("live", []):
            if not pickable:
                break
            c = pickable[k % len(pickable)]
            if is_live(c):
                continue
            dbrig.DEVICE[id(c)] = [c.value if reading == "same" else other_reading(c)]
            c.__class__ = dbrig.live_class()
        self.owner: Dict[int, int] = {}
        for key, acc in rig.accessories():
            for s in acc.services:
                for c in s.characteristics:
                    self.owner[id(c)] = key
        self.config = self.snapshot()
        self.ops: List[dict] = []  # harness-level (replayable)
        self.lines: List[dict] = []  # model-level
        self.outs: List[Any] = []  # canonical implementation outputs, one per op
        self.fails: List[tuple] = []
        self.reads_after_mutation = 0
        self.dirty = False
        self.structural = False  # the history changed the structure / the iid tables
        self.broken: Optional[dict] = None  # an op on which pyhap raised unexpectedly

    def fail(self, sig, desc):
        if not any(s == sig for s, _ in self.fails):
            self.fails.append((sig, desc))

    def chars(self):
        for key, acc in self.rig.accessories():
            for s in acc.services:
                for c in s.characteristics:
                    yield key, acc, s, c

    def snapshot(self) -> dict:
        rig = self.rig
        accs = []
        for key, acc in rig.accessories():
            accs.append(
                {
                    "aid": key,
                    "available": bool(acc.available),
                    "counter": acc.iid_manager.counter,
                    "iids": [[rig.num(o), i] for o, i in acc.iid_manager.iids.items()],
                    "services": [
                        {
                            "obj": rig.num(s),
                            "type": hap_type(s.type_id),
                            "primary": s.is_primary_service,
                            "linked": [rig.num(ls) for ls in s.linked_services],
                            "chars": [
                                {
                                    "obj": rig.num(c),
                                    "type": hap_type(c.type_id),
                                    "props": copy.deepcopy(c.properties),
                                    "loader": rig.loader_names.get(id(c)),
                                    "display": c.display_name,
                                    "value": c.value,
                                    "alwaysNull": is_always_null(c),
                                    "getter": bool(c.getter_callback) or is_live(c),
                                }
                                for c in s.characteristics
                            ],
                        }
                        for s in acc.services
                    ],
                }
            )
        return {"bridge": rig.is_bridge, "accessories": accs, "nextObj": len(rig.objs)}

    @staticmethod
    def service_def(svc) -> dict:
        """A freshly built service as data for the model: what the loader produced."""
        return {
            "type": hap_type(svc.type_id),
            "chars": [
                {
                    "type": hap_type(c.type_id),
                    "props": copy.deepcopy(c.properties),
                    "name": c.display_name,
                    "value": c.value,
                    "alwaysNull": is_always_null(c),
                }
                for c in svc.characteristics
            ],
        }

    # ------------------------------------------------------------------ operations

    def others_snapshot(self, target) -> Dict[int, Any]:
        """From-scratch metadata rendering + stored value + name of every characteristic but `target`."""
        rig = self.rig
        snap = {}
        for key, acc, s, c in self.chars():
            if c is target:
                continue
            try:
                meta = ref.render_char(c, acc.iid_manager, False, rig.loader_names.get(id(c)))
            except Exception as ex:  # noqa: BLE001
                meta = {"unrenderable": type(ex).__name__}
            snap[rig.num(c)] = (copy.deepcopy(meta), copy.deepcopy(c.value))
        return snap

    def guarded(self, op: dict):
        """Run one op; an exception coming out of pyhap is an observation (recorded, the history
        stops there), anything else is a harness bug and propagates."""
        n_ops, n_lines, n_outs = len(self.ops), len(self.lines), len(self.outs)
        try:
            self._apply(op)
        except Exception as ex:  # noqa: BLE001
            if not dbrig.from_pyhap(ex):
                raise
            del self.ops[n_ops:], self.lines[n_lines:], self.outs[n_outs:]
            self.broken = {"op": op, "raised": type(ex).__name__, "message": str(ex)[:200]}

    def apply(self, op: dict):
        if self.broken is not None:
            return
        k = op["op"]
        if k in ("set_value", "client_write", "override", "display_name", "getter", "assign_value", "device"):
            target = self.rig.objs[op["obj"]]
            before = self.others_snapshot(target)
            self.guarded(op)
            after = self.others_snapshot(target)
            for n, (meta, val) in before.items():
                meta2, val2 = after.get(n, (None, None))
                if not ref.same(meta, meta2) or not ref.same(val, val2):
                    what = ref.first_difference(meta, meta2) or f"value {val!r} -> {val2!r}"
                    self.fail(
                        "C11:other-characteristic-changed",
                        f"{k} addressed to characteristic #{op['obj']} changed the from-scratch rendering of "
                        f"characteristic #{n}: {what} (before / after)",
                    )
                    break
        else:
            self.guarded(op)

    def _apply(self, op: dict):
        self.ops.append(op)
        rig = self.rig
        k = op["op"]
        out = None
        if k in ("set_value", "client_write", "override", "display_name", "getter", "assign_value", "device"):
            c = rig.objs[op["obj"]]
            n = op["obj"]
        if k == "set_value":
            vres = validated(c, op["value"])
            try:
                c.set_value(op["value"])
            except Exception:  # noqa: BLE001
                pass
            self.lines.append({"op": "setValue", "obj": n, "vres": vres})
            self.dirty = True
        elif k == "client_write":
            vres = validated(c, op["value"], client=True)
            cb = op.get("cb", "none")
            if cb == "none":
                c.setter_callback = None
            elif cb == "ok":
                c.setter_callback = lambda v: None
            else:

                def boom(v):
                    raise dbrig.SetterBoom("scripted setter failure")

                c.setter_callback = boom
            key = self.owner[id(c)]
            acc = rig.accessory(key)
            q = {"characteristics": [{"aid": acc.aid, "iid": acc.iid_manager.get_iid(c), "value": op["value"]}]}
            rig.http("PUT", "/characteristics", json.dumps(q).encode())
            self.lines.append({"op": "clientUpdate", "obj": n, "vres": vres, "cbRaises": cb == "raise"})
            self.dirty = True
        elif k == "override":
            props, vv = op.get("props"), op.get("valid_values")
            if not props and not vv:
                kind = "noArgs"
            elif props and "maxLen" in props and props["maxLen"] > 256:
                kind = "invalid"
            else:
                kind = "done"
            raised = None
            try:
                c.override_properties(copy.deepcopy(props), copy.deepcopy(vv))
            except Exception as ex:  # noqa: BLE001
                raised = ex
            new_val = None if raised is not None else {"v": c.value}
            self.lines.append(
                {"op": "override", "obj": n, "kind": kind, "props": props or None, "validValues": vv or None, "newVal": new_val}
            )
            self.dirty = True
        elif k == "display_name":
            c.display_name = op["name"]
            self.lines.append({"op": "setDisplay", "obj": n, "name": op["name"]})
            self.dirty = True
        elif k == "getter":
            mode = op["mode"]
            c.getter_callback = None if mode == "off" else dbrig.ScriptedGetter(mode, op.get("value"))
            # (a class that overrides get_value never consults the callback: its value stays on demand)
            self.lines.append({"op": "setGetter", "obj": n, "on": mode != "off" or is_live(c)})
            self.dirty = True
        elif k == "available":
            acc = rig.accessory(op["aid"])
            acc.rig_available = op["on"]
            self.lines.append({"op": "setAvailable", "aid": op["aid"], "on": op["on"]})
        elif k == "primary":
            acc = rig.accessory(op["aid"])
            svc = rig.objs[op["svc"]]
            acc.set_primary_service(svc)
            self.lines.append({"op": "setPrimary", "aid": op["aid"], "type": hap_type(svc.type_id)})
            self.dirty = True
        elif k == "device":
            dbrig.DEVICE[id(c)][0] = op["value"]  # the reading changes in the device; pyhap is not told
            self.lines.append({"op": "setGetter", "obj": n, "on": True})
            self.dirty = True
        elif k == "assign_value":
            c.value = op["value"]  # the public property setter: no validation
            self.lines.append({"op": "assignValue", "obj": n, "value": op["value"]})
            self.dirty = True
        elif k == "add_service":
            acc = rig.accessory(op["aid"])
            svc = rig.add_service(acc, op["spec"])
            for ch in svc.characteristics:
                self.owner[id(ch)] = op["aid"]
            self.lines.append({"op": "addService", "aid": op["aid"], "def": self.service_def(svc)})
            self.dirty = self.structural = True
            out = {"ok": None}
        elif k == "add_accessory":
            acc = rig.new_accessory(op["aid"], op["specs"])
            defs = [self.service_def(sv) for sv in acc.services]
            self.lines.append({"op": "addAccessory", "aid": op["aid"], "defs": defs})
            try:
                rig.top.add_accessory(acc)
            except ValueError:
                out = {"err": "ValueError"}
            else:
                rig.number_accessory(acc)
                for sv in acc.services:
                    for ch in sv.characteristics:
                        self.owner[id(ch)] = acc.aid
                out = {"ok": acc.aid}
            self.dirty = self.structural = True
        elif k == "remove_accessory":
            rig.top.accessories.pop(op["aid"], None)
            self.lines.append({"op": "removeAccessory", "aid": op["aid"]})
            self.dirty = self.structural = True
            out = {"ok": None}
        elif k in ("iid_assign", "iid_remove_obj", "iid_remove_iid"):
            acc = rig.accessory(op["aid"])
            m = acc.iid_manager
            if k == "iid_assign":
                m.assign(rig.objs[op["obj"]])
                self.lines.append({"op": "assign", "aid": op["aid"], "obj": op["obj"]})
                out = {"ok": None}
            elif k == "iid_remove_obj":
                out = {"ok": m.remove_obj(rig.objs[op["obj"]])}
                self.lines.append({"op": "removeObj", "aid": op["aid"], "obj": op["obj"]})
            else:
                out = {"ok": rig.num(m.remove_iid(op["iid"]))}
                self.lines.append({"op": "removeIid", "aid": op["aid"], "iid": op["iid"]})
            self.dirty = self.structural = True
        elif k == "link":
            rig.objs[op["svc"]].add_linked_service(rig.objs[op["other"]])
            self.lines.append({"op": "addLinked", "aid": op["aid"], "svc": op["svc"], "other": op["other"]})
            self.dirty = True
        elif k == "read_all":
            out = self.read_all(op)
        elif k == "read_chars":
            out = self.read_chars(op)
        else:
            raise ValueError(f"unknown op {k}")
        self.outs.append(out)

    def read_all(self, op):
        rig = self.rig
        incl = op["incl"]
        g = [[rig.num(c), getter_outcome(c)] for _, _, _, c in self.chars() if c.getter_callback or is_live(c)]
        self.lines.append({"op": "readAll", "incl": incl, "g": g})
        try:
            want = ref.render_db(rig.top, incl, rig.loader_names)
        except Exception:  # noqa: BLE001 - a getter raises / the state cannot be rendered at all
            want = None
        if op.get("via") == "handler" and incl:
            status, doc = rig.http("GET", "/accessories")
            got = doc if status == 200 else None
            how = f"GET /accessories ({status})"
        else:
            try:
                got = copy.deepcopy(rig.driver.get_accessories(include_value=incl))
            except Exception:  # noqa: BLE001
                got = None
            how = f"get_accessories(include_value={incl})"
        if self.dirty:
            self.reads_after_mutation += 1
        if want is not None:
            if got is None:
                self.fail("C11:accessories-read-failed", f"{how} failed although every value can be rendered")
            elif not ref.same(got, want):
                self.fail(
                    "C11:stale-accessories",
                    f"{how} differs from the from-scratch rendering at {ref.first_difference(got, want)} (served / current)",
                )
        if got is None:
            return {"raised": True}
        return {"accessories": canon(got["accessories"])}

    def read_chars(self, op):
        rig = self.rig
        from pyhap.characteristic import Characteristic

        ids = [tuple(p) for p in op["ids"]]
        g = []
        for pos, (aid, iid) in enumerate(ids):
            acc = ref.accessory_for(rig.top, aid)
            obj = acc.iid_manager.get_obj(iid) if acc is not None else None
            if isinstance(obj, Characteristic) and (obj.getter_callback or is_live(obj)):
                g.append([pos, getter_outcome(obj)])
        self.lines.append({"op": "readChars", "ids": [list(p) for p in ids], "g": g})
        try:
            want = ref.expected_read(rig.top, ids)
        except Exception:  # noqa: BLE001 - the state cannot be walked: nothing to demand
            want = None
        status, doc = rig.http("GET", spell_query(ids, op.get("spell")))
        if self.dirty:
            self.reads_after_mutation += 1
        entries = doc.get("characteristics") if isinstance(doc, dict) else None
        if status not in (200, 207) or not isinstance(entries, list):
            self.fail("C11:characteristics-read-failed", f"GET {spell_query(ids, op.get('spell'))} (ids {ids}) answered {status}")
            return {"code": status, "characteristics": None}
        if want is None:
            return {"code": status, "characteristics": canon(entries)}
        # entries for ids of existing accessories (anything the server adds for unknown accessories is not judged)
        known = {a for a, _ in ((w["aid"], 0) for w in want)}
        judged = [e for e in entries if e.get("aid") in known]
        # an id naming an accessory that does not exist has no characteristic: whatever the server answers
        # for it (nothing on a bridge, a failure entry on a plain accessory), it is never a value
        for e in entries:
            if ref.accessory_for(rig.top, e.get("aid")) is None and ("value" in e or e.get("status", 0 if status == 200 else None) == 0):
                self.fail(
                    "C11:value-for-unknown-accessory",
                    f"request {ids}: accessory {e.get('aid')} does not exist, yet the entry for ({e.get('aid')},{e.get('iid')}) "
                    f"reports success with value {e.get('value', '<none>')!r}",
                )
                break
        want_ids = sorted((w["aid"], w["iid"]) for w in want)
        got_ids = sorted((e.get("aid"), e.get("iid")) for e in judged)
        if want_ids != got_ids:
            self.fail(
                "C11:read-entry-count",
                f"requested {ids}: entries for existing accessories are {got_ids}, expected one per requested id {want_ids}",
            )
        else:
            has_status = ["status" in e for e in entries]
            if all(w["ok"] for w in want) and all(e.get("status", 0) == 0 for e in entries):
                if status != 200 or any(has_status):
                    self.fail(
                        "C11:status-on-success",
                        f"all reads of {ids} succeed but the answer is {status} with "
                        f"{sum(has_status)} per-entry status member(s)",
                    )
            elif not all(w["ok"] for w in want):
                if status != 207 or not all(has_status):
                    self.fail(
                        "C11:status-aggregation",
                        f"a read in {ids} fails but the answer is {status} with a status on "
                        f"{sum(has_status)}/{len(entries)} entries",
                    )
            # values: duplicates of one id have one expectation (scripted getters are pure)
            exp = {(w["aid"], w["iid"]): w for w in want}
            for e in judged:
                w = exp[(e.get("aid"), e.get("iid"))]
                if w["ok"]:
                    if "value" not in e or not ref.same(e["value"], w["value"]) or e.get("status", 0) != 0:
                        self.fail(
                            "C11:stale-characteristic-value",
                            f"read of ({w['aid']},{w['iid']}) returned {e.get('value', '<no value>')!r} status "
                            f"{e.get('status', '<none>')}, current value is {w['value']!r}",
                        )
                elif e.get("status", 0) == 0 and status == 207:
                    self.fail(
                        "C11:failed-read-reported-success",
                        f"read of ({w['aid']},{w['iid']}) cannot succeed (unavailable / no such characteristic / "
                        f"getter raises) but its entry carries status 0",
                    )
        return {"code": status, "characteristics": canon(entries)}

    def line(self) -> dict:
        return {"layer": "db", "op": "c11u", "config": self.config, "ops": self.lines}

    def replayable(self) -> dict:
        return {"kind": "c11", "cfg": self.cfg, "ops": self.ops}


# --------------------------------------------------------------------------- generation


def rand_value(rng, c):
    props = c.properties
    fmt = props["Format"]
    vv = props.get("ValidValues")
    x = rng.random()
    if x < 0.06:
        return rng.choice(["bogus", None, [1]])
    if vv and x < 0.8:
        return rng.choice(list(vv.values()))
    if fmt == "bool":
        return rng.choice([True, False, 0, 1])
    if fmt == "float":
        return rng.choice([0, 1, 1.5, 22.25, -3, 37.5, 100, 99.9, 1000.125, 0.1, 55])
    if fmt in ("int", "uint8", "uint16", "uint32", "uint64"):
        return rng.choice([0, 1, 2, 3, 7, 50, 100, 255, 256, 360, 1000, 70000, -5, 2.5, 12.75])
    if fmt == "string":
        return rng.choice(["", "a", "Hello", "Name " + str(rng.randrange(100)), "x" * 70, "ünï"])
    return rng.choice(["", "AQEA", "AgEB", "01020304"])


def rand_override(rng, c):
    props = c.properties
    fmt = props["Format"]
    x = rng.random()
    if x < 0.05:
        return {"props": None, "valid_values": None}
    if fmt == "string":
        return {"props": {"maxLen": rng.choice([8, 32, 64, 128, 256, 300])}, "valid_values": None}
    if x < 0.2:
        perms = rng.choice([["pr"], ["pw"], ["pr", "ev"], ["pr", "pw", "ev"], ["pw", "ev"]])
        return {"props": {"Permissions": perms}, "valid_values": None}
    if props.get("ValidValues") and x < 0.6:
        items = list(props["ValidValues"].items())
        k = rng.randrange(1, len(items) + 1)
        return {"props": None, "valid_values": dict(rng.sample(items, k))}
    if fmt in ("float", "int", "uint8", "uint16", "uint32", "uint64"):
        p = {}
        if rng.random() < 0.06:
            # a badly typed bound: the properties are updated, then re-validation raises TypeError
            return {"props": {rng.choice(["minValue", "maxValue"]): "oops"}, "valid_values": None}
        if rng.random() < 0.6:
            p["minValue"] = rng.choice([0, 1, 10, -10, 5])
        if rng.random() < 0.6:
            p["maxValue"] = rng.choice([20, 50, 100, 255, 1000])
        if rng.random() < 0.3:
            p["minStep"] = rng.choice([1, 5, 0.5, 0.1])
        if rng.random() < 0.15:
            p["unit"] = rng.choice(["celsius", "percentage", "lux"])
        if not p:
            p["maxValue"] = 100
        return {"props": p, "valid_values": None}
    return {"props": {"Permissions": ["pr", "ev"]}, "valid_values": None}


def random_cfg(rng, pool) -> dict:
    bridge = rng.random() < 0.7
    main = [dbrig.random_spec(rng, pool) for _ in range(rng.choice([0, 1, 1, 2]) if bridge else rng.choice([1, 2, 3]))]
    cfg = {"bridge": bridge, "mainAid": 1 if bridge else rng.choice([1, None]), "main": main, "accs": []}
    if bridge:
        for _ in range(rng.choice([1, 1, 2, 3, 4])):
            cfg["accs"].append(
                {"aid": rng.choice([None, None, 7, 12]) if rng.random() < 0.9 else None,
                 "specs": [dbrig.random_spec(rng, pool) for _ in range(rng.choice([1, 1, 2]))]}
            )
        # explicit aids must be distinct
        seen = set()
        for a in cfg["accs"]:
            if a["aid"] in seen:
                a["aid"] = None
            if a["aid"] is not None:
                seen.add(a["aid"])
    if rng.random() < 0.3:
        # application subclasses overriding Characteristic.get_value(): 1-3 live characteristics
        cfg["live"] = [[rng.randrange(1000), rng.choice(["same", "same", "other"])] for _ in range(rng.choice([1, 2, 3]))]
    return cfg


BOUNDARY_PROGRAMS = [
    # (description, ops applied to "the first characteristic that is readable and has a loader name")
    ["read_all", ("display_name", "Renamed"), "read_all", "read_all_nv", ("display_name", None), "read_all_nv", "read_all"],
    ["read_all", ("set_value", None), "read_all", ("getter", "value"), "read_all", "read_all", ("getter", "off"), "read_all"],
    ["read_all", ("getter", "value"), ("getter_change",), "read_all", "read_one", ("getter", "raise"), "read_one", "read_all", ("getter", "off"), "read_all", "read_one"],
    ["read_all_nv", ("override", None), "read_all_nv", "read_all", ("override", None), "read_all", "read_all_nv"],
    ["read_all", ("client_write", "none"), "read_all", ("client_write", "raise"), "read_all", "read_one", ("client_write", "ok"), "read_one"],
    ["read_one", "read_many", ("getter", "raise"), "read_many", "read_unknown", "read_all"],
    # an override whose re-validation raises TypeError after the properties were updated
    ["read_all_nv", "read_all", ("override_bad",), "read_all_nv", "read_all", "read_one"],
    # a getter whose answer is not one of the declared valid values is a failed read (/repo e2cce9e):
    # -70402 for its entry, GET /accessories fails like for any raising getter, nothing stale afterwards
    ["read_all", "read_one", ("getter_invalid",), "read_one", "read_many", "read_all", ("getter_change",), "read_one", "read_all",
     ("getter_invalid",), ("getter", "off"), "read_all", "read_one"],
    # an application subclass overriding get_value(): the device reading changes, nobody tells pyhap
    ["live", "read_all", "read_one", ("device",), "read_all", "read_one", "read_all_nv", ("device",), ("device",), "read_many", "read_all",
     ("display_name", "Renamed"), "read_all", ("device",), "read_all"],
    # same-typed characteristics (one loader): fill the caches, override exactly one instance, read the
    # siblings, update a sibling's value, read again
    ["siblings", "read_all", "read_all_nv", ("override",), "read_all", "read_all_nv", "read_sib", ("sib_set_value",),
     "read_all", "read_sib", ("override",), ("sib_set_value",), "read_sib", "read_all"],
]


def sibling_cfg(rng, pool) -> dict:
    """The same shipped service on several bridged accessories and twice on one accessory."""
    numeric_first = ["TemperatureSensor", "Lightbulb", "HumiditySensor", "Thermostat", "Fanv2", "LightSensor", "WindowCovering"]
    name = rng.choice(numeric_first) if rng.random() < 0.7 else rng.choice(pool)["svc"]
    row = next(r for r in pool if r["svc"] == name)
    opt = [c for c in row["optional"] if rng.random() < 0.3][:2]
    spec = {"svc": name, "opt": opt}
    accs = [{"aid": None, "specs": [dict(spec)] + ([dict(spec)] if i == 0 and rng.random() < 0.5 else [])}
            for i in range(rng.choice([2, 2, 3]))]
    main = [dict(spec)] if rng.random() < 0.3 else []
    return {"bridge": True, "mainAid": 1, "main": main, "accs": accs}


def gen_history(ctx: Ctx, pool, program=None, n_ops: Optional[int] = None) -> Hist:
    rng = ctx.rng
    cfg = sibling_cfg(rng, pool) if (program is not None and "siblings" in program) or (program is None and rng.random() < 0.2) else random_cfg(rng, pool)
    if program is not None and "live" in program:
        cfg["live"] = [[rng.randrange(1000), "same"], [rng.randrange(1000), rng.choice(["same", "other"])]]
    h = Hist(cfg)
    rig = h.rig
    live = [(key, acc, s, c) for key, acc, s, c in h.chars()]
    readable = [t for t in live if "pr" in t[3].properties["Permissions"]]
    focus = rng.sample(live, min(len(live), rng.choice([1, 2, 3, 5]))) + rng.sample(readable, min(len(readable), 2))
    focus += [t for t in live if is_live(t[3])]

    def pair_of(t):
        key, acc, s, c = t
        iid = acc.iid_manager.get_iid(c)
        if iid is None:  # removed from the manager: no path names it; ask for an iid nobody holds
            iid = acc.iid_manager.counter + 1
        return [acc.aid, iid]

    structural = program is None and rng.random() < 0.4
    removed: List[tuple] = []  # (aid, object number) taken out of a manager

    def refresh():
        nonlocal live, readable, focus
        live = [(key, acc, s, c) for key, acc, s, c in h.chars()]
        ids_live = {id(t[3]) for t in live}
        readable = [t for t in live if "pr" in t[3].properties["Permissions"]]
        focus = [t for t in focus if id(t[3]) in ids_live]
        fresh = [t for t in live if id(t[3]) not in {id(x[3]) for x in focus}]
        focus += rng.sample(fresh, min(len(fresh), 2 if focus else 4))

    def struct_op():
        keys = [k for k, _ in rig.accessories()]
        x = rng.random()
        if x < 0.2:
            return {"op": "add_service", "aid": rng.choice(keys), "spec": dbrig.random_spec(rng, pool)}
        if rig.is_bridge and x < 0.4:
            y = rng.random()
            aid = None if y < 0.6 else (rng.choice(range(2, 10)) if y < 0.85 else rng.choice(keys + [7]))
            return {"op": "add_accessory", "aid": aid, "specs": [dbrig.random_spec(rng, pool) for _ in range(rng.choice([0, 1, 1, 2]))]}
        if rig.is_bridge and x < 0.5 and len(keys) > 1:
            return {"op": "remove_accessory", "aid": rng.choice(keys[1:] + [rng.randrange(2, 10)])}
        key = rng.choice(keys)
        acc = rig.accessory(key)
        own = [rig.num(o) for sv in acc.services for o in [sv, *sv.characteristics]]
        mine = [o for a, o in removed if a == key and o in own]
        z = rng.random()
        if mine and z < 0.45:
            return {"op": "iid_assign", "aid": key, "obj": rng.choice(mine)}
        if z < 0.75:
            return {"op": "iid_remove_obj", "aid": key, "obj": rng.choice(own)}
        if z < 0.92:
            return {"op": "iid_remove_iid", "aid": key, "iid": rng.randrange(1, acc.iid_manager.counter + 3)}
        return {"op": "iid_assign", "aid": key, "obj": rng.choice(own)}

    def rand_ids():
        ids = []
        for _ in range(rng.choice([1, 1, 2, 3, 5, 8])):
            y = rng.random()
            if y < 0.6:
                ids.append(pair_of(rng.choice(focus)))
            elif y < 0.8:
                ids.append(pair_of(rng.choice(live)))
            elif y < 0.86:
                key, acc, s, c = rng.choice(live)
                sid = acc.iid_manager.get_iid(s)
                ids.append([acc.aid, sid if sid is not None else acc.iid_manager.counter + 2])  # a service iid
            elif y < 0.93:
                key, acc, s, c = rng.choice(live)
                ids.append([acc.aid, acc.iid_manager.counter + rng.randrange(1, 9)])  # unknown iid
            else:
                # a run of consecutive ids of one accessory that does not exist, naming iids the
                # accessory before it in the request owns
                u = rng.choice([40, 99])
                prev = ids[-1][1] if ids else rng.randrange(1, 12)
                ids += [[u, prev + d] for d in range(rng.choice([1, 2, 2, 3]))]
                if rng.random() < 0.5:
                    ids.append(pair_of(rng.choice(focus)))
        return ids

    def mutate(t):
        key, acc, s, c = t
        y = rng.random()
        n = rig.num(c)
        if is_live(c) and rng.random() < 0.5:
            return {"op": "device", "obj": n, "value": rand_value(rng, c)}
        if y < 0.3:
            return {"op": "set_value", "obj": n, "value": rand_value(rng, c)}
        if y < 0.34:
            return {"op": "assign_value", "obj": n, "value": _other_value(rng, c) if rng.random() < 0.8 else rand_value(rng, c)}
        if y < 0.5 and acc.iid_manager.get_iid(c) is not None and rig.accessory(key) is acc:
            return {"op": "client_write", "obj": n, "value": rng.choice([v for v in [rand_value(rng, c) for _ in range(4)] if v is not None] or [0]),
                    "cb": rng.choice(["none", "none", "ok", "raise"])}
        if y < 0.65:
            return {"op": "override", "obj": n, **rand_override(rng, c)}
        if y < 0.8:
            return {"op": "display_name", "obj": n, "name": rng.choice(["Renamed", "Other", rig.loader_names.get(id(c)), None, ""])}
        mode = rng.choice(["off", "value", "value", "value", "raise", "bad"])
        val = rand_value(rng, c) if mode == "value" else ("not-a-number" if c.properties["Format"] not in ("string", "bool", "tlv8", "data") else [1])
        if mode == "bad" and c.properties["Format"] in ("string", "bool", "tlv8", "data"):
            mode = "raise"
        return {"op": "getter", "obj": n, "mode": mode, "value": val}

    if program is not None:
        cands = readable or live
        if ("override_bad",) in program:
            numeric = [x for x in cands if x[3].properties["Format"] in ref.NUMERIC_FORMATS and not x[3].properties.get("ValidValues")]
            cands = numeric or cands
        if ("getter_invalid",) in program:
            with_vv = [x for x in cands if x[3].properties.get("ValidValues") and x[3].properties["Format"] in ref.NUMERIC_FORMATS]
            cands = with_vv or cands
        if "live" in program:
            cands = [x for x in live if is_live(x[3])] or cands
        if "siblings" in program:
            # a characteristic type that occurs at least twice outside the information service
            by_type: Dict[str, list] = {}
            for x in live:
                if x[2] is not x[1].services[0]:
                    by_type.setdefault(str(x[3].type_id), []).append(x)
            multi = [v for v in by_type.values() if len(v) >= 2]
            if multi:
                group = rng.choice(multi)
                cands = [group[rng.randrange(len(group))]]
        t = cands[rng.randrange(len(cands))]
        key, acc, s, c = t
        n = rig.num(c)
        sibs = [x for x in live if x[3] is not c and x[3].type_id == c.type_id] or [t]
        for step in program:
            if step in ("siblings", "live"):
                continue
            if step[0] == "device":
                h.apply({"op": "device", "obj": n, "value": _other_value(rng, c)})
                continue
            if step == "read_sib":
                h.apply({"op": "read_chars", "ids": [pair_of(x) for x in sibs[:4]]})
            elif step[0] == "sib_set_value":
                sc = rng.choice(sibs)[3]
                h.apply({"op": "set_value", "obj": rig.num(sc), "value": _other_value(rng, sc)})
            elif step == "read_all":
                h.apply({"op": "read_all", "incl": True, "via": rng.choice(["driver", "handler"])})
            elif step == "read_all_nv":
                h.apply({"op": "read_all", "incl": False})
            elif step == "read_one":
                h.apply({"op": "read_chars", "ids": [pair_of(t)], "spell": rng.choice([None, {"dot": "%2E", "post": ["meta=0"]}, {"digit": True, "pre": ["ev=0"]}])})
            elif step == "read_many":
                h.apply({"op": "read_chars", "ids": [pair_of(t), pair_of(rng.choice(live)), pair_of(t)],
                         "spell": rng.choice([None, {"comma": "%2C"}, {"comma": "%2C", "pre": ["meta=0"], "post": ["ev=0", "x="]}])})
            elif step == "read_unknown":
                h.apply({"op": "read_chars", "ids": [pair_of(t), [acc.aid, acc.iid_manager.counter + 3], [77, 1]]})
                # runs of ids of an accessory that does not exist: after, between and before existing ones
                me = pair_of(t)
                h.apply({"op": "read_chars", "ids": [me, [99, me[1]], [99, me[1] + 1], me, [40, me[1]], [40, me[1]], [40, 2]]})
                h.apply({"op": "read_chars", "ids": [[99, me[1]], [99, me[1] + 1], me]})
            elif step[0] == "display_name":
                h.apply({"op": "display_name", "obj": n, "name": step[1]})
            elif step[0] == "set_value":
                h.apply({"op": "set_value", "obj": n, "value": _other_value(rng, c)})
            elif step[0] == "getter":
                h.apply({"op": "getter", "obj": n, "mode": step[1], "value": _other_value(rng, c)})
            elif step[0] == "getter_invalid":
                vv = c.properties.get("ValidValues")
                bad = max(vv.values()) + 7 if vv and c.properties["Format"] in ref.NUMERIC_FORMATS else "not-a-number"
                h.apply({"op": "getter", "obj": n, "mode": "value", "value": bad})
            elif step[0] == "getter_change":
                h.apply({"op": "getter", "obj": n, "mode": "value", "value": _other_value(rng, c)})
            elif step[0] == "override":
                h.apply({"op": "override", "obj": n, **rand_override(rng, c)})
            elif step[0] == "override_bad":
                h.apply({"op": "override", "obj": n, "props": {"minValue": "oops"}, "valid_values": None})
            elif step[0] == "client_write":
                v = _other_value(rng, c)
                h.apply({"op": "client_write", "obj": n, "value": 0 if v is None else v, "cb": step[1]})
        return h

    for _ in range(n_ops or rng.randrange(6, 30)):
        if structural and rng.random() < 0.2:
            op = struct_op()
            h.apply(op)
            if h.broken is None and op["op"] in ("iid_remove_obj", "iid_remove_iid") and h.outs and (h.outs[-1] or {}).get("ok") is not None:
                removed.append((op["aid"], op["obj"] if op["op"] == "iid_remove_obj" else h.outs[-1]["ok"]))
            refresh()
            if not live:
                break
            continue
        x = rng.random()
        if x < 0.22:
            h.apply({"op": "read_all", "incl": rng.random() < 0.7, "via": rng.choice(["driver", "handler"])})
        elif x < 0.42:
            h.apply({"op": "read_chars", "ids": rand_ids(), "spell": rand_spell(rng)})
        elif x < 0.46 and rig.is_bridge and len(rig.top.accessories):
            h.apply({"op": "available", "aid": rng.choice(list(rig.top.accessories)), "on": rng.random() < 0.5})
        elif x < 0.49:
            key, acc, s, c = rng.choice(live)
            h.apply({"op": "primary", "aid": key, "svc": rig.num(s)})
        elif x < 0.53:
            # link two services of one accessory (sometimes the same pair again, sometimes a service to itself)
            key, acc, s, c = rng.choice(live)
            if rig.accessory(key) is acc:
                other = rng.choice(acc.services) if rng.random() < 0.8 or not s.linked_services else rng.choice(s.linked_services)
                h.apply({"op": "link", "aid": key, "svc": rig.num(s), "other": rig.num(other)})
        else:
            h.apply(mutate(rng.choice(focus if rng.random() < 0.85 else live)))
    return h


def _other_value(rng, c):
    """A valid value different from the current one where possible."""
    for _ in range(12):
        v = rand_value(rng, c)
        ok = validated(c, v)
        if ok is not None and ok["v"] != c.value and v is not None:
            return v
    return rand_value(rng, c)


def replay_ops(cfg: dict, ops: List[dict]) -> Hist:
    h = Hist(cfg)
    try:
        for op in ops:
            h.apply(op)
    finally:
        h.rig.close()
    return h


def minimise(h: Hist, sig: str) -> dict:
    def still(ops):
        try:
            r = replay_ops(h.cfg, ops)
        except Exception:  # noqa: BLE001
            return False
        return any(s == sig for s, _ in r.fails)

    try:
        ops = delta_min(h.ops, still, max_steps=150)
    except Exception:  # noqa: BLE001
        ops = h.ops
    return {"kind": "c11", "cfg": h.cfg, "ops": ops}


def judge(ctx: Ctx, h: Hist):
    for sig, desc in h.fails:
        if any(f.signature == sig for f in ctx.failures):
            continue
        ctx.fail(sig, desc, minimise(h, sig))


def safe_history(ctx: Ctx, pool, program=None) -> Optional[Hist]:
    """A generated history; None (plus a recorded disagreement) if pyhap cannot even build the
    configuration from the shipped definitions."""
    try:
        h = gen_history(ctx, pool, program=program)
    except Exception as ex:  # noqa: BLE001
        if not dbrig.from_pyhap(ex):
            raise
        ctx.disagree("c11-construction", {"program": program}, "configuration is built", f"pyhap raised {type(ex).__name__}: {str(ex)[:160]}")
        return None
    h.rig.close()
    return h


def generate(ctx: Ctx, pool, n_random: int) -> List[Hist]:
    hs = []
    for prog in BOUNDARY_PROGRAMS:
        for _ in range(ctx.n(3, 12)):
            hs.append(safe_history(ctx, pool, program=prog))
    for _ in range(n_random):
        hs.append(safe_history(ctx, pool))
    return [h for h in hs if h is not None]


def run(ctx: Ctx):
    from pyhap.loader import Loader

    st = ctx.stats
    st.rule = (
        "a case is one configuration (standalone accessory or bridge with 1-4 bridged accessories, all built from "
        "shipped services) plus a history of set_value / controller write (PUT /characteristics, with or without a "
        "raising setter callback) / override_properties / display-name change / getter install, change, removal / "
        "availability and primary-service changes / linking services / plain value assignment / a changed device reading behind a "
        "characteristic whose class overrides get_value(), and in 40% of the random histories also structural "
        "changes (add service, add / remove bridged accessory, IIDManager assign / remove_obj / remove_iid), interleaved with GET /accessories (with and without values, via the "
        "driver and via HAPServerHandler.dispatch) and GET /characteristics. Non-trivial: at least one read happens "
        "after a mutation; distinct by configuration + op list."
    )
    pool = dbrig.spec_pool(Loader())
    hs = generate(ctx, pool, ctx.n(600, 9000))
    model = run_model_parallel("C11", [h.line() for h in hs])
    for h, m in zip(hs, model):
        judge(ctx, h)
        st.traces_validated += 1
        if h.broken is not None:
            st.hit("outcome", "op-raised:" + h.broken["raised"])
            ctx.disagree(
                "c11-op-raised", {"cfg": h.cfg, "ops": h.ops + [h.broken["op"]]},
                "the operation completes (or fails with its documented error)",
                f"pyhap raised {h.broken['raised']}: {h.broken['message']}",
            )
        st.case([h.cfg, h.ops], h.reads_after_mutation > 0)
        if h.structural:
            st.hit("outcome", "structural-history")
        if h.cfg.get("live"):
            st.hit("outcome", "live-subclass-history")
        for op, out in zip(h.ops, h.outs):
            st.hit("op", op["op"] + (":no-value" if op["op"] == "read_all" and not op["incl"] else ""))
            if op["op"] == "read_chars":
                st.hit("outcome", f"read_chars:{out['code']}")
            elif op["op"] == "read_all":
                st.hit("outcome", "read_all:" + ("raised" if "raised" in out else "ok"))
        st.hit("outcome", "reads-after-mutation", h.reads_after_mutation)
        if "fatal" in m:
            ctx.disagree("c11-history", {"cfg": h.cfg, "ops": h.ops[:10]}, m, "(model driver error)")
            continue
        mouts = [canon_model(o) for o in m["outs"]]
        for i, (mo, io) in enumerate(zip(mouts, h.outs)):
            if mo != io:
                ctx.disagree(
                    "c11-history:" + h.ops[i]["op"],
                    {"cfg": h.cfg, "ops": h.ops[: i + 1]},
                    _short(_diff_hint(mo, io)),
                    _short(io if not isinstance(io, dict) or "accessories" not in io else "(see hint)"),
                )
                break
    for i in sorted({0, min(len(BOUNDARY_PROGRAMS) * ctx.n(3, 12), len(hs) - 1), len(hs) - 1} if hs else set()):
        h, m = hs[i], model[i]
        st.sample(
            {
                "config": {"bridge": h.cfg["bridge"], "main": h.cfg["main"], "accs": h.cfg.get("accs")},
                "ops": h.ops[:10],
                "impl_outs": [_short(o, 160) for o in h.outs[:10]],
                "model_agrees": "fatal" not in m and [canon_model(o) for o in m["outs"]] == h.outs,
            }
        )


def canon_model(o):
    if o is None:
        return None
    if "ok" in o or "err" in o:
        return o
    if "raised" in o:
        return {"raised": True}
    if "accessories" in o:
        return {"accessories": canon(o["accessories"])}
    return {"code": o["code"], "characteristics": canon(o["characteristics"])}


def _diff_hint(mo, io):
    if isinstance(mo, dict) and isinstance(io, dict) and "accessories" in mo and "accessories" in io:
        return "model/impl differ at " + str(ref.first_difference(mo["accessories"], io["accessories"]))
    return mo


def _short(x, n=400):
    s = x if isinstance(x, str) else json.dumps(x, default=str)
    return s if len(s) < n else s[:n] + f"...<{len(s)} chars>"


def search(ctx: Ctx):
    from pyhap.loader import Loader

    pool = dbrig.spec_pool(Loader())
    for i in range(1500):
        h = safe_history(ctx, pool, program=BOUNDARY_PROGRAMS[i % len(BOUNDARY_PROGRAMS)] if i % 4 == 0 else None)
        if h is None:
            continue
        judge(ctx, h)
        if ctx.failures and i > 300:
            break


def replay(ctx: Ctx, r):
    h = replay_ops(r["cfg"], r["ops"])
    print("configuration:", json.dumps(r["cfg"])[:400])
    for op, out in zip(h.ops, h.outs):
        print("  ", json.dumps(op)[:160], "->", _short(out, 200) if out is not None else "")
    if h.broken is not None:
        print("pyhap raised", h.broken["raised"], "on", json.dumps(h.broken["op"])[:160], "-", h.broken["message"])
    for sig, desc in h.fails:
        print("FAILS:", sig, desc)
    print("verdict:", "property violated on this input" if h.fails else "holds on this input")
    return 1 if h.fails else 0
