"""C12 — Events reach exactly the subscribed other controllers, with the latest value."""
from __future__ import annotations

from common import Ctx
from props import c13 as base
from ref import sysev_gen as gen

PROP = "C12"
LEAN_MODULE = "Props.C12"
TRUSTED = [
    "Lean 4.33 kernel; axioms propext, Classical.choice, Quot.sound only (audited by #print axioms)",
    "hand-written model lean/HapModel/SysEvents.lean of characteristic.py (set_value / client_update_value / notify), "
    "accessory.py (publish), accessory_driver.py (publish / async_send_event / set_characteristics / subscriptions), "
    "hap_server.py (push_event), hap_protocol.py (queue_event / _send_events), tied by this differential run",
    "asyncio contract (modelled): callbacks run to completion on one thread; call_soon / call_soon_threadsafe are one FIFO; "
    "timers fire in deadline order",
    "worker-thread changes: set_value runs in a real thread (publish defers through call_soon_threadsafe); the worker's "
    "validate+assign+notify is modelled as one atomic step (sub-statement preemption of set_value is C20's subject); "
    "C12_quiescent is proved for histories without worker-thread changes only (C12_quiescent_partial); for the code "
    "without design/fixes/C12-stale-handoff.patch its full statement is refuted by C12_quiescent_fails (finding "
    "C12:worker-change-overtaken-by-newer-change); with that patch histories with worker-thread changes are covered by "
    "the differential run and the oracle, not by a theorem",
    "setter callbacks of three kinds (echo the written value, set a different value, set another characteristic) on "
    "non-always-null characteristics, and raising callbacks (write answered -70402); no getter / service / accessory callbacks; "
    "valid in-range integer values; PUTs with one or several queries (scene writes), on a standalone accessory or on a "
    "bridge with two accessories sharing their iids (the model's characteristic index stands for an (aid, iid) pair); "
    "C12_quiescent_partial is proved for every callback configuration satisfying CbOK (failed-write repair applied, "
    "state-changing callbacks on characteristics that are not always-null)",
    "address-reuse hypothesis (stated in the theorems): a peer address reconnects only after the loss of its "
    "previous connection was processed",
    "harness: virtual-time loop, fake transports, EVENT/HTTP decoder, generators, oracles in harness/ref/sysev_*.py",
]


def scripts_for(ctx: Ctx):
    rng = ctx.rng
    scripts = list(gen.boundary_c12()) + gen.resub_family() + gen.worker_family() + gen.callback_family() + gen.raise_family() + gen.scene_family()
    scripts = gen.string_family() + scripts + gen.family_variants(scripts)
    for _ in range(ctx.n(800, 20000)):
        scripts.append(gen.random_script(rng, 30, "c12"))
    scripts += gen.exhaustive_c12(2 if ctx.quick else 4)
    return scripts


def run(ctx: Ctx):
    ctx.stats.rule = (
        "scripts: controller write inside / at the edge of / after the 0.5 s window, unsubscribe-resubscribe around a "
        "pending event, coalescing, immediate types with pending ready callbacks; then random scripts <= 30 ops over up to "
        "3 connections x 3 of 4 characteristics (two immediate types, one always-null). Non-trivial = at least one EVENT "
        "message or transport close; distinct by the full per-connection transport log (virtual time, kind, content)."
    )
    ctx.assumptions.append("address reuse only after the previous loss was processed (generator-enforced)")
    base.evaluate(ctx, scripts_for(ctx), "C12", crypto_of=base.crypto_of)
    if not ctx.quick:
        # exhaustive scripts of length 5 over the 2-connection / 1-characteristic alphabet: oracle only
        before = ctx.stats.evaluations
        base.evaluate(ctx, gen.exhaustive_c12(5), "C12", compare_model=False, sample=False)
        ctx.stats.notes.append(f"exhaustive length-5 scripts judged by the oracle only: {ctx.stats.evaluations - before}")
        ctx.stats.exhaustive = True


def search(ctx: Ctx):
    scripts = gen.string_family() + list(gen.boundary_c12()) + gen.resub_family() + gen.worker_family() + gen.callback_family() + gen.raise_family() + gen.scene_family() + gen.exhaustive_c12(3) + [gen.random_script(ctx.rng, 30, "c12") for _ in range(4000)]
    base.evaluate(ctx, scripts, "C12", compare_model=False)


def replay(ctx: Ctx, r):
    return base.replay(ctx, r, which="C12")
