"""C13 — A finished connection leaves nothing behind."""
from __future__ import annotations

import json
from concurrent.futures import ProcessPoolExecutor

from common import Ctx, delta_min, run_model_parallel
from ref import sysev_gen as gen
from ref import sysev_oracle as orc

PROP = "C13"
LEAN_MODULE = "Props.C13"
TRUSTED = [
    "Lean 4.33 kernel; axioms propext, Classical.choice, Quot.sound only (audited by #print axioms)",
    "hand-written model lean/HapModel/SysEvents.lean of hap_protocol.py / hap_server.py / accessory_driver.py "
    "(connection life cycle, registry, topics, prepared_writes, event queue/timer), tied by this differential run",
    "asyncio contract (modelled): callbacks run to completion on one thread; connection_lost is delivered once; "
    "no data_received after transport.close(); call_soon is FIFO; timers fire in deadline order",
    "h11 (modelled): a complete request yields Request/EndOfMessage; garbage raises ProtocolError; "
    "'Connection: close' gives MUST_CLOSE after the response; data while a response is outstanding raises",
    "address-reuse hypothesis (stated in the theorems): a peer address reconnects only after the loss of its "
    "previous connection was processed",
    "harness: virtual-time loop, fake transports, generators, oracles in harness/ref/sysev_*.py",
]
SIGS = {}


def _run_one(args):
    ops, crypto = args[0], args[1]
    v6 = args[2] if len(args) > 2 else 0
    from ref.sysev_world import run_script

    try:
        return run_script(ops, crypto_conns=crypto, v6=v6)
    except Exception as ex:  # noqa: BLE001
        import traceback

        return {"crash": f"{type(ex).__name__}: {ex}", "tb": traceback.format_exc()[-1500:]}


def run_impl(scripts, crypto_of=None, workers=12):
    jobs = [(ops, tuple(crypto_of(i)) if crypto_of else (), v6_of(i)) for i, ops in enumerate(scripts)]
    if len(jobs) < 40:
        return [_run_one(j) for j in jobs]
    with ProcessPoolExecutor(workers) as ex:
        return list(ex.map(_run_one, jobs, chunksize=16))


def judge(ops, res, which):
    imm, nul = gen.tables(ops)  # by HAP type of the test characteristics (the property's notion)
    f = orc.Facts(ops, res, imm, nul)
    return orc.oracle_c13(f) if which == "C13" else orc.oracle_c12(f)


def v6_of(i):
    """every third script talks to IPv6 peers (asyncio reports 4-tuple peernames for them)"""
    return 1 if i % 3 == 1 else 0


def shrink(ops, sig, which, crypto=(), v6=0):
    def fails(cand):
        if not cand or cand[0] != ["advance", 1] or not orc.reuse_ok(cand):
            return False
        r = _run_one((cand, crypto, v6))
        if "crash" in r:
            return False
        try:
            return any(s == sig for s, _ in judge(cand, r, which))
        except Exception:  # noqa: BLE001
            return False

    return delta_min(ops, fails, max_steps=250)


def scripts_for(ctx: Ctx):
    rng = ctx.rng
    scripts = list(gen.boundary_c13())
    scripts += gen.family_variants(scripts, every=4) + gen.string_family()[::4]
    for _ in range(ctx.n(600, 12000)):
        scripts.append(gen.random_script(rng, 30, "c13"))
    for _ in range(ctx.n(200, 3000)):
        scripts.append(gen.random_script(rng, 30, "c12"))
    return scripts


def evaluate(ctx: Ctx, scripts, which, compare_model=True, crypto_of=None, sample=True):
    st = ctx.stats
    impl = run_impl(scripts, crypto_of)
    from ref.sysev_world import code_tables

    # the model is configured with the code's own tables; the oracle is not
    tabs = {False: code_tables(False), True: code_tables(True)}

    def mline(ops):
        imm, nul = tabs[gen.is_bridge(ops)]
        return gen.model_line(ops, imm=imm, nul=nul)

    model = [None] * len(scripts)
    if compare_model:
        # The theorems of C13 are proved for the model with the C13 repair and *either* setting of the
        # C12 repair switch (and the safety theorems of C12 likewise), so the tie may be made with
        # whichever of the two variants the code under check implements.
        # (fix12 discard_stale_event, fixResub discard_event, fixRaise failed-write restore, fixHand stale hand-off drop)
        variants = [(True, True, True, True, "with the C12 repairs"),
                    (True, True, False, False, "without C12-failed-write.patch and C12-stale-handoff.patch"),
                    (True, True, True, False, "without the drop of overtaken worker-thread hand-offs (C12-stale-handoff.patch)"),
                    (True, True, False, True, "without the restore of the previous value when a setter callback raises (C12-failed-write.patch)"),
                    (True, False, False, False, "without discard_event on unsubscribe (C12-resubscribe.patch), C12-failed-write.patch and C12-stale-handoff.patch"),
                    (False, False, False, False, "without the C12 repairs (discard_stale_event, discard_event, failed-write restore, stale hand-off drop)"),
                    (True, False, True, True, "without discard_event on unsubscribe (C12-resubscribe.patch)"),
                    (False, False, True, True, "without discard_stale_event and discard_event")]
        ok = False
        for fix12, fixr, fixf, fixh, label in variants:
            lines = [dict(mline(ops), fix12=fix12, fixResub=fixr, fixRaise=fixf, fixHand=fixh) for ops in scripts]
            model = run_model_parallel(which, lines, workers=12)
            ok = all("fatal" not in m and gen.first_difference(m, gen.canon_impl(r)) is None
                     for m, r in zip(model, impl) if "crash" not in r)
            if ok:
                st.hit("outcome", "model-variant: " + label, len(scripts))
                if not (fix12 and fixr and fixf and fixh):
                    st.notes.append("the code matches the model variant " + label + "; the C12 theorems that assume the "
                                    "missing repair (C12_quiescent / C12_delivered_current) do not apply to that variant")
                break
        if not ok:  # neither variant matches: report against the repaired model
            lines = [mline(ops) for ops in scripts]
            model = run_model_parallel(which, lines, workers=12)
    for idx, (ops, r, m) in enumerate(zip(scripts, impl, model)):
        for op in ops:
            st.hit("op", op[0])
        if "crash" in r:
            ctx.fail(f"{which}:harness-crash", f"real code raised outside any handler: {r['crash']}", {"kind": "script", "ops": ops, "crypto": list(crypto_of(idx)) if crypto_of else [], "v6": v6_of(idx)})
            continue
        verdicts = judge(ops, r, which)
        for sig, desc in verdicts:
            if not any(f.signature == sig for f in ctx.failures):
                cr = tuple(crypto_of(idx)) if crypto_of else ()
                small = shrink(ops, sig, which, cr, v6_of(idx))
                rr = _run_one((small, cr, v6_of(idx)))
                d2 = [d for s, d in judge(small, rr, which) if s == sig]
                ctx.fail(sig, d2[0] if d2 else desc, {"kind": "script", "ops": small, "crypto": list(cr), "v6": v6_of(idx)})
        ci = gen.canon_impl(r)
        closes = sum(1 for v in ci["log"].values() for e in v if e[1] == "close")
        events = sum(1 for v in ci["log"].values() for e in v if e[1] == "event")
        st.hit("outcome", "scripts-with-close" if closes else "scripts-without-close")
        if crypto_of and crypto_of(idx):
            st.hit("outcome", "scripts-over-real-session-cipher")
        if v6_of(idx) or gen.is_v6(ops):
            st.hit("outcome", "scripts-with-ipv6-4-tuple-peernames")
        if gen.is_strings(ops):
            st.hit("outcome", "scripts-with-a-string-characteristic")
        if r.get("loop_errors"):
            st.hit("outcome", "scripts-with-exception-in-loop-callback")
            if len(st.notes) < 3:
                st.notes.append(f"exception reached the event loop: {r['loop_errors'][:2]} in {ops}")
        st.hit("outcome", "event-messages", events)
        st.hit("outcome", "transport-closes", closes)
        st.case(json.dumps(ci["log"], sort_keys=True), bool(closes or events))
        if m is not None:
            st.traces_validated += 1
            if "fatal" in m:
                ctx.disagree("sysev", ops, m, None)
                continue
            diff = gen.first_difference(m, ci)
            if diff is not None:
                ctx.disagree("sysev", ops, diff["what"] + " model=" + json.dumps(diff["model"])[:300], json.dumps(diff["impl"])[:300])
        if sample and idx in (0, 37, len(scripts) - 1):
            st.sample({"ops": ops, "impl_log": ci["log"], "agrees_with_model": m is not None and gen.first_difference(m, ci) is None, "oracle": [s for s, _ in verdicts]})


def crypto_of(i):
    """every fifth script runs its verified connections over the real HAPCrypto session cipher"""
    return tuple(range(12)) if i % 5 == 3 else ()


def run(ctx: Ctx):
    ctx.stats.rule = (
        "scripts: termination cause (peer close, h11 error, bad frame, Connection: close, idle sweep, stop, data while a "
        "response is pending) x pending work (coalesced event, immediate event, snapshot, prepared write, subscription) "
        "x reconnect timing, idle boundary scripts, then random scripts <= 30 ops on up to 3 connections. Non-trivial = "
        "at least one transport close or one EVENT message; distinct by the full per-connection transport log."
    )
    ctx.assumptions.append("address reuse only after the previous loss was processed (generator-enforced)")
    evaluate(ctx, scripts_for(ctx), "C13", crypto_of=crypto_of)


def search(ctx: Ctx):
    saved = ctx.tier
    ctx.tier = "thorough"
    try:
        scripts = list(gen.boundary_c13()) + [gen.random_script(ctx.rng, 30, "c13") for _ in range(4000)]
        evaluate(ctx, scripts, "C13", compare_model=False)
    finally:
        ctx.tier = saved


def replay(ctx: Ctx, r, which="C13"):
    ops = r["ops"]
    res = _run_one((ops, tuple(r.get("crypto", ())), r.get("v6", 0)))
    if "crash" in res:
        print("real code crashed:", res["crash"])
        return 1
    for k, v in sorted(gen.canon_impl(res)["log"].items()):
        print(f"connection #{k}:", json.dumps(v))
    print("final maps:", json.dumps(res["final"]))
    verdicts = judge(ops, res, which)
    for s, d in verdicts:
        print("FAILS:", s, d)
    print("verdict:", "property violated on this input" if verdicts else "holds on this input")
    return 1 if verdicts else 0
