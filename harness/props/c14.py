"""C14 — Saved accessory state reloads to the same identity and pairings.

States are produced on the real code by C06 histories (pair-setup completions and POST /pairings
requests through the real handler), given a configuration number and a database hash, saved with the
real `AccessoryDriver.persist` to a temp file and loaded into a FRESH AccessoryDriver/State with
the real `AccessoryDriver.load` (a sample also through `add_accessory`).  Compared with the Lean
model (lean/HapModel/Encoder.lean, driver Drivers/C14.lean): the JSON tree of the file vs the
model's document, and the loaded state vs the model's `load`.  The oracle states the property on
the real behaviour: every field equal after the reload, list-pairings / admin test / long-term
key lookup identical, legacy documents load with every controller as admin.
"""
from __future__ import annotations

import json
import os
import uuid as uuidlib
from typing import Any, Dict, List, Optional

from common import Ctx, hx, run_model_parallel
from props import c06
from ref import c14_pairverify as refpv
from ref import pairings as refp

PROP = "C14"
LEAN_MODULE = "Props.C14"


def extract(ctx):
    """regenerate the member-name tables of the state file (and the protocol constants the shared driver imports)"""
    c06.extract(ctx)


TRUSTED = [
    "Lean 4.33 kernel; axioms propext, Classical.choice, Quot.sound only (audited by #print axioms)",
    "hand-written model lean/HapModel/Encoder.lean of AccessoryEncoder.persist/load_into over the JSON document "
    "tree, tied by this differential run (file tree vs model document, loaded State vs model load)",
    "json.dump/json.load text layer = identity on the tree (members keep their order); "
    "cryptography's Ed25519 from_private_bytes/private_bytes raw round trip (keys are modelled by their 32 raw bytes)",
    "str(UUID)/UUID(str) and bytes.hex/fromhex are modelled concretely and proved to round-trip; the model's UUID "
    "parser covers hex digits, hyphens, braces, urn:/uuid: prefixes only (int(x,16) extras such as sign, 0x, '_', "
    "blanks are not modelled; they never occur in a file written by persist); bytes.fromhex's tolerance of blanks likewise",
    "harness/ref/pairings.py list decoder, harness generators; states are generated through the C06 request path",
    "files written by the implementation are opaque to the oracle (state before save == state after load + observables); "
    "legacy / respelled documents are authored by the harness in the historical format of the snapshot release (str(UUID) keys, "
    "hex strings, {\"permissions\": n}); the file-tree comparison with the model's document is correspondence only",
    "member names of the state file: lean/HapModel/Gen/EncoderFields.lean is regenerated on every run by probing persist / load_into "
    "of the tree under check with sentinel values (extract/encoder_fields.py); C14_field_names / C14_roundtrip_file are stated over it; "
    "whole-life stream: histories over the model's full alphabet (hstep: pair-setup, real pair-verify exchanges, POST /pairings, "
    "config_changed, hash update, restart through the real state file) where the MODEL predicts the state after every restart",
    "round 6: whole-life histories and a share of the state cases run with application-supplied encoders (harness/ref/encoders.py: checksummed, base64, "
    "JSON envelope around the stock document) and, for whole-life histories, a live driver (real async_persist, stop / start of the same object); "
    "after every step that changed the persisted state and whose background saves have finished the file must load (fresh driver, same encoder) to "
    "the in-memory state",
    "multi-save stream: one real driver per history, driver.async_persist replaced by a synchronous call of the real "
    "driver.persist; the model side of that stream is persist/load of the in-memory state at each save (C14_history_roundtrip); "
    "whether and when the driver writes the file is otherwise C15's concern",
]

MAXCV = 65535


# ----------------------------------------------------------------------------- real code


def build_state(spec: Dict[str, Any]) -> c06.Real:
    """Run the history of `spec` on a fresh real driver and set config number / hash."""
    real = c06.Real(encoder=spec.get("encoder", "stock"))
    for op in spec["ops"]:
        if op["k"] == "restart":  # C06 histories may restart; a state case saves and reloads once, at its end
            continue
        if op["k"] == "setup":
            try:
                real.driver.pair(bytes.fromhex(op["id"]), bytes.fromhex(op["key"]), b"\x01")
            except Exception:  # noqa: BLE001
                pass
        else:
            cu = int(op["cu"]) if op["cu"] is not None else None
            real.request(op["enc"], cu, bytes.fromhex(op["body"]))
    for v in spec.get("verifiers", []):  # controllers owning a real Ed25519 key pair (registered as pair-setup does)
        try:
            real.driver.pair(bytes.fromhex(v["id"]), refpv.controller_key(bytes.fromhex(v["seed"]))[1], bytes([v["perm"]]))
        except Exception:  # noqa: BLE001
            pass
    real.state.config_version = spec["config_version"]
    real.state.accessories_hash = spec["accessories_hash"]
    return real


def full_state(real: c06.Real) -> Dict[str, Any]:
    d = real.ident()
    d.update(real.snapshot())
    return d


def dict_view(st: Dict[str, Any]) -> Dict[str, Any]:
    """Order-free view used by the oracle (the property speaks of fields and pairings, not order)."""
    return {
        "mac": st["mac"], "config_version": st["config_version"], "accessories_hash": st["accessories_hash"],
        "private_key": st["private_key"], "public_key": st["public_key"],
        "paired_clients": dict(map(tuple, st["paired"])), "client_properties": {u: json.dumps(p) for u, p in st["props"]},
        # identifier bytes of PAIRED controllers (the property speaks of pairings; recorded bytes of controllers
        # that are no longer paired are compared by the correspondence only)
        "uuid_to_bytes": {u: b for u, b in st["u2b"] if u in {x for x, _ in st["paired"]}},
    }


def behaviour(real: c06.Real, verifiers=(), saved_identity=None) -> Dict[str, Any]:
    """What paired controllers can observe: list answer from the first admin, admin test and the
    long-term key looked up by pair-verify for every controller; for controllers with a real key
    pair a complete pair-verify by the reference controller (which checks the accessory's proof
    against the identifier and long-term public key it knew BEFORE the restart)."""
    st = real.state
    acc_id, acc_ltpk = saved_identity if saved_identity else (st.mac.encode(), bytes.fromhex(real.ident()["public_key"]))
    verify = {}
    for v in verifiers:
        post, h = real.connection()
        try:
            res = refpv.pair_verify(lambda b: post("/pair-verify", b), bytes.fromhex(v["id"]), bytes.fromhex(v["seed"]), acc_ltpk, acc_id)
        except Exception as ex:  # noqa: BLE001
            res = "controller error " + type(ex).__name__
        if res == "verified" and not (h.is_encrypted and h.client_uuid == uuidlib.UUID(bytes.fromhex(v["id"]).decode())):
            res = "M4 sent but the session is not marked verified for this controller"
        verify[v["id"]] = res
    admin = next((u for u in st.paired_clients if st.is_admin(u)), None)
    listing = None
    if admin is not None:
        code, body, _ = real.request(True, admin.int, bytes.fromhex(c06.LIST_BODY))
        try:
            listing = sorted((hx(a), hx(b), c) for a, b, c in refp.decode_pairing_list(body)) if code == 200 else f"HTTP {code}"
        except ValueError as ex:
            listing = f"undecodable: {ex}"
    return {
        "list": listing,
        "admin": {str(u.int): st.is_admin(u) for u in set(st.paired_clients) | set(st.client_properties)},
        "verify_key": {str(u.int): hx(st.paired_clients.get(u) or b"") for u in st.paired_clients},
        "pair_verify": verify,
    }


def reload_real(path: str, via_add_accessory: bool, encoder: str = "stock"):
    """Fresh driver + State (same encoder configuration), loaded from `path` by the real code. Returns (Real | None, error)."""
    fresh = c06.Real(encoder=encoder)
    try:
        os.replace(path, fresh.path) if path != fresh.path else None
        if via_add_accessory:
            from pyhap.accessory import Accessory

            fresh.driver.add_accessory(Accessory(fresh.driver, "Reloaded"))
        else:
            fresh.driver.load()
        return fresh, None
    except Exception as ex:  # noqa: BLE001
        fresh.close()
        return None, type(ex).__name__


# ----------------------------------------------------------------------------- one case


def run_state_case(ctx: Optional[Ctx], spec: Dict[str, Any], idx: int = 0):
    """persist -> file tree -> fresh load. Returns (model line, impl result, failure | None)."""
    real = build_state(spec)
    fail = None
    try:
        before = full_state(real)
        vs = spec.get("verifiers", [])
        saved_identity = (real.state.mac.encode(), bytes.fromhex(before["public_key"]))
        beh_before = behaviour(real, vs, saved_identity)
        real.driver.persist()
        doc = real.file_doc()
        fresh, err = reload_real(real.path, via_add_accessory=(idx % 16 == 0 or bool(spec.get("via_add"))), encoder=spec.get("encoder", "stock"))
        if fresh is None:
            impl = {"doc": doc, "loaded": None}
            fail = ("C14:load-failed", f"loading the file just saved raised {err}")
        else:
            try:
                after = full_state(fresh)
                beh_after = behaviour(fresh, vs, saved_identity)
            finally:
                fresh.close()
            impl = {"doc": doc, "loaded": after, "pair_verify": [beh_before["pair_verify"], beh_after["pair_verify"]]}
            dv0, dv1 = dict_view(before), dict_view(after)
            diff = [k for k in dv0 if dv0[k] != dv1[k]]
            if diff:
                fail = ("C14:field-differs-after-reload:" + diff[0],
                        f"after save + load into a fresh state the field(s) {diff} differ "
                        f"({len(before['paired'])} controllers, config_version {before['config_version']}"
                        + (f", application-supplied {spec['encoder']} encoder, loaded through add_accessory" if spec.get("encoder", "stock") != "stock" else "") + ")")
            elif beh_before != beh_after:
                what = [k for k in beh_before if beh_before[k] != beh_after[k]]
                detail = ""
                if what == ["pair_verify"]:
                    detail = ": " + "; ".join(f"{beh_before['pair_verify'][k]} -> {beh_after['pair_verify'][k]}" for k in beh_before["pair_verify"]
                                              if beh_before["pair_verify"][k] != beh_after["pair_verify"][k])[:200]
                fail = ("C14:behaviour-differs-after-reload:" + what[0], f"after a restart {what} differ for the paired controllers{detail}")
        line = {"layer": "encoder", "op": "roundtrip", "state": before}
        return line, impl, fail
    finally:
        real.close()


def minimise_state_spec(spec: Dict[str, Any], sig: str, idx: int) -> Dict[str, Any]:
    """Shrink the history (and the verifier list) of a failing state case; keeps the signature."""
    def fails(sp):
        try:
            f = run_state_case(None, sp, idx)[2]
            return f is not None and f[0] == sig
        except Exception:  # noqa: BLE001
            return False

    best = dict(spec)
    for cand in ({**best, "verifiers": []},):
        if best.get("verifiers") and fails(cand):
            best = cand
    if len(best["ops"]) > 1:
        ops = c06.delta_min(best["ops"], lambda o: fails({**best, "ops": o}), max_steps=120)
        if fails({**best, "ops": ops}):
            best = {**best, "ops": ops}
    if best["ops"] and fails({**best, "ops": []}):
        best = {**best, "ops": []}
    return best


def run_doc_case(docp: Dict[str, Any], kind: str = "damaged", expected: Optional[Dict[str, Any]] = None):
    """A document AUTHORED BY THE HARNESS in the documented historical format (hex strings, str(UUID)
    keys; optional members absent as older releases wrote them): write it, load it with the real code.
    `kind`: "legacy" (no client_properties) and "current" documents are well-formed and must load;
    `expected` is the state they must load to, computed from the harness's own knowledge of what it
    put into the document (dict_view shape) -- the file is never re-parsed to obtain it."""
    holder = c06.Real()
    try:
        with open(holder.path, "w", encoding="utf8") as fh:
            json.dump(doc_to_json(docp), fh)
        fresh, err = reload_real(holder.path, via_add_accessory=False)
        fail = None
        if fresh is None:
            impl = {"err": True}
            loaded = None
            if kind in ("legacy", "current"):
                fail = ("C14:legacy-load-failed" if kind == "legacy" else "C14:load-failed",
                        f"a well-formed {kind} state file (members {sorted(docp)}) failed to load: {err}")
        else:
            try:
                loaded = full_state(fresh)
                admins = {str(u.int): fresh.state.is_admin(u) for u in fresh.state.paired_clients}
            finally:
                fresh.close()
            impl = {"state": loaded}
            if "client_properties" not in docp and not all(admins.values()):
                bad = [u for u, a in admins.items() if not a]
                fail = ("C14:legacy-not-admin", f"a state file without client_properties loaded with {len(bad)} of {len(admins)} controllers not admin")
            if "client_properties" not in docp and any(p != 1 for _, p in loaded["props"]):
                fail = ("C14:legacy-not-admin", "a state file without client_properties loaded with a permission entry other than 1")
            if fail is None and kind in ("legacy", "current") and expected is not None:
                got = dict_view(loaded)
                diff = [f for f in expected if expected[f] != got.get(f)]
                if diff:
                    absent = [m for m in OPTIONAL_MEMBERS if m not in docp]
                    fail = (("C14:legacy-field-differs:" if kind == "legacy" else "C14:document-field-differs:") + diff[0],
                            f"a well-formed state file in the historical format without {absent or 'no member'} ({len(docp['paired_clients'])} controllers) "
                            f"loaded with {diff} different from what was put into it (stored permissions / keys / identifier bytes / identity must be kept)")
        return {"layer": "encoder", "op": "load", "doc": docp}, impl, fail
    finally:
        holder.close()


OPTIONAL_MEMBERS = ("client_properties", "client_uuid_to_bytes", "accessories_hash")


def author_doc(st: Dict[str, Any], absent=()) -> Dict[str, Any]:
    """The state file of a state description `st` (full_state shape: the harness's own construction or a
    snapshot of the public State maps) in the DOCUMENTED HISTORICAL FORMAT, written by the harness itself:
    keys str(UUID), key / identifier bytes as hex strings, permissions as {"permissions": n}; `absent`
    members are left out as releases before permissions / identifier bytes / the hash did."""
    def name(u):
        return str(uuidlib.UUID(int=int(u)))

    d = {
        "mac": st["mac"], "config_version": st["config_version"],
        "paired_clients": [[name(u), k] for u, k in st["paired"]],
        "client_properties": [[name(u), {"permissions": p}] for u, p in st["props"]],
        "accessories_hash": st["accessories_hash"],
        "client_uuid_to_bytes": [[name(u), b] for u, b in st["u2b"]],
        "private_key": st["private_key"], "public_key": st["public_key"],
    }
    return {k: v for k, v in d.items() if k not in absent}


def expected_view(st: Dict[str, Any], absent=()) -> Dict[str, Any]:
    """What author_doc(st, absent) must load to (dict_view shape), from `st` alone."""
    e = dict_view(st)
    if "client_properties" in absent:
        e["client_properties"] = {u: json.dumps(1) for u in e["paired_clients"]}
    if "client_uuid_to_bytes" in absent:
        e["uuid_to_bytes"] = {}
    if "accessories_hash" in absent:
        e["accessories_hash"] = None
    return e


def authored_state(rng, n: int, perms=None) -> Dict[str, Any]:
    """A state description made up by the harness (no pyhap involved): identity + n controllers."""
    from cryptography.hazmat.primitives import serialization as ser
    from cryptography.hazmat.primitives.asymmetric import ed25519

    sk = ed25519.Ed25519PrivateKey.generate()
    us = []
    while len(us) < n:
        u = rng.getrandbits(128)
        if u not in us:
            us.append(u)
    perms = perms or [1, 0, 3, 128, 0, 255, 2, 129]
    return {
        "mac": ":".join(f"{rng.randrange(256):02X}" for _ in range(6)),
        "config_version": rng.choice([1, 2, 65535, rng.randrange(1, MAXCV + 1)]),
        "accessories_hash": rng.choice([None, "ab" * 32, hx(c06.key_of(rng))]),
        "private_key": hx(sk.private_bytes(ser.Encoding.Raw, ser.PrivateFormat.Raw, ser.NoEncryption())),
        "public_key": hx(sk.public_key().public_bytes(ser.Encoding.Raw, ser.PublicFormat.Raw)),
        "paired": [[str(u), hx(c06.key_of(rng))] for u in us],
        "props": [[str(u), perms[i % len(perms)]] for i, u in enumerate(us)],
        "u2b": [[str(u), hx(c06.spell(rng, u, i % c06.N_SPELL if n <= c06.N_SPELL else None))] for i, u in enumerate(us)],
    }


def doc_to_json(docp: Dict[str, Any]) -> Dict[str, Any]:
    out = {}
    for k, v in docp.items():
        out[k] = {a: b for a, b in v} if k in ("paired_clients", "client_properties", "client_uuid_to_bytes") and v is not None else v
    return out


# ----------------------------------------------------------------------------- generation


def gen_specs(ctx: Ctx) -> List[Dict[str, Any]]:
    rng = ctx.rng
    specs = []
    hashes = [None, "", "0" * 64, hx(bytes(range(32))), "ABCDEF", "é-hash"]
    cvs = [1, 2, 255, 256, 65534, 65535]

    def verifiers():
        out = []
        for _ in range(rng.choice([0, 1, 1, 2])):
            out.append({"id": hx(c06.spell(rng, rng.getrandbits(128))), "seed": hx(c06.key_of(rng)), "perm": rng.choice([0, 1, 1, 3, 254, rng.randrange(256)])})
        return out

    def spec(ops):
        return {"ops": ops, "verifiers": verifiers(), "config_version": rng.choice(cvs) if rng.random() < 0.5 else rng.randrange(1, MAXCV + 1),
                "accessories_hash": rng.choice(hashes) if rng.random() < 0.6 else hx(bytes(rng.randrange(256) for _ in range(32)))}

    A = rng.getrandbits(128)
    ka = c06.key_of(rng)
    sA = c06.setup(c06.spell(rng, A, 1), ka)
    specs.append(spec([]))  # nothing paired
    specs.append(spec([sA]))
    # every permission byte, every spelling, many controllers
    for base in range(0, 256, 64):
        ops = [sA] + [c06.req(A, c06.add_body(c06.spell(rng, A + 1 + p), c06.key_of(rng), bytes([p]))) for p in range(base, base + 64)]
        specs.append(spec(ops))
    for how in range(c06.N_SPELL):  # every spelling family, for plain controllers and for ones that really pair-verify
        sp = spec([c06.setup(c06.spell(rng, A, how), ka), c06.req(A, c06.add_body(c06.spell(rng, A + 7, (how + 2) % c06.N_SPELL), c06.key_of(rng), b"\x00"))])
        sp["verifiers"] = [{"id": hx(c06.spell(rng, A + 9 + how, how)), "seed": hx(c06.key_of(rng)), "perm": how % 2}]
        specs.append(sp)
    for u in c06.EDGE_UUIDS:
        specs.append(spec([c06.setup(c06.spell(rng, u), ka), c06.req(u, c06.add_body(c06.spell(rng, u ^ 1), c06.key_of(rng, 0), b"\x03"))]))
    for odd in c06.ODD_IDS:  # identifiers only int(x, 16) understands: kept verbatim in uuid_to_bytes
        specs.append(spec([c06.setup(odd, ka)]))
    # last-admin clear leaves recorded identifier bytes of unpaired controllers behind
    specs.append(spec([sA, c06.req(A, c06.add_body(c06.spell(rng, A + 1, 0), ka, b"\x00")), c06.req(A, c06.remove_body(c06.spell(rng, A, 1)))]))
    # keys of odd lengths
    for n in (0, 1, 31, 33, 255, 600):
        specs.append(spec([sA, c06.req(A, c06.add_body(c06.spell(rng, A + 2), c06.key_of(rng, n), b"\x01"))]))
    for cv in cvs:
        s = spec([sA])
        s["config_version"] = cv
        specs.append(s)
    for h in hashes:
        s = spec([sA])
        s["accessories_hash"] = h
        specs.append(s)
    from ref import encoders as refenc

    for kind in refenc.KINDS[1:]:  # application-supplied encoders: saved by persist(), loaded by add_accessory and by load()
        for via_add in (True, False):
            s = spec([sA, c06.req(A, c06.add_body(c06.spell(rng, A + 3, 0), c06.key_of(rng), b"\x82"))])
            s.update({"encoder": kind, "via_add": via_add, "config_version": 65535})
            specs.append(s)
    n_boundary = len(specs)
    for _ in range(ctx.n(700, 8000)):
        specs.append(spec(c06.random_script(ctx)))
        if rng.random() < 0.06:
            specs[-1].update({"encoder": rng.choice(refenc.KINDS[1:]), "via_add": rng.random() < 0.7})
    ctx.stats.notes.append(f"{n_boundary} deterministic boundary states first, then {len(specs) - n_boundary} states from random C06 histories")
    return specs


def key_spell(rng, s: str) -> str:
    """Spellings of a uuid key inside a hand-made document (those the model's parser covers)."""
    how = rng.randrange(5)
    return [s, s.upper(), "{" + s + "}", "urn:uuid:" + s, s.replace("-", "")][how]


def respell_other(rng, k: str) -> str:
    """Another accepted spelling of the uuid key `k` (different text, same controller)."""
    canon = str(uuidlib.UUID(k))
    for cand in (canon.upper(), "{" + canon + "}", canon.replace("-", ""), canon):
        if cand != k:
            return cand
    return canon


def derive_doc(rng, st):
    """A legacy / respelled / damaged document authored from the state description `st`, with the state
    it must load to (None where nothing is demanded). Returns (doc, kind, expected)."""
    mode = rng.random()
    kind = "legacy" if mode < 0.55 else "current" if mode < 0.75 else "damaged" if mode < 0.9 else "current"
    if mode < 0.55:  # before permissions were stored
        absent = ["client_properties"] + (["client_uuid_to_bytes"] if rng.random() < 0.5 else []) + (["accessories_hash"] if rng.random() < 0.3 else [])
        d, exp = author_doc(st, absent), expected_view(st, absent)
        if rng.random() < 0.5:
            d["paired_clients"] = [[key_spell(rng, k), v.upper() if rng.random() < 0.3 else v] for k, v in d["paired_clients"]]
        if rng.random() < 0.15 and d["paired_clients"]:  # the same controller under two spellings: the later value wins
            k, v = d["paired_clients"][0]
            d["paired_clients"] = d["paired_clients"] + [[respell_other(rng, k), "00" + v]]
            exp["paired_clients"][str(uuidlib.UUID(k).int)] = "00" + v.lower()
        return d, kind, exp
    if mode < 0.75:  # present-day file, keys respelled / maps reordered independently
        absent = ["client_uuid_to_bytes"] if rng.random() < 0.5 else []
        d, exp = author_doc(st, absent), expected_view(st, absent)
        d["client_properties"] = [[key_spell(rng, k), v] for k, v in reversed(d["client_properties"])]
        return d, kind, exp
    d = author_doc(st)
    if mode >= 0.9:
        return d, kind, expected_view(st)
    dmg = rng.randrange(6)  # damaged files: nothing is demanded, correspondence only
    if dmg == 0:
        d.pop("mac", None)
    elif dmg == 1:
        d["private_key"] = d["private_key"][:-2]
    elif dmg == 2:
        d["public_key"] = "zz" + d["public_key"][2:]
    elif dmg == 3 and d["paired_clients"]:
        d["paired_clients"] = [["not-a-uuid", d["paired_clients"][0][1]]] + d["paired_clients"][1:]
    elif dmg == 4 and d["paired_clients"]:
        d["paired_clients"] = [[d["paired_clients"][0][0], "abc"]] + d["paired_clients"][1:]
    else:
        d.pop("config_version", None)
    return d, kind, None


def generation_docs(ctx: Ctx):
    """Every combination of members that older releases did not write yet, for 0 / 1 / 2 / 6 / 12 controllers
    with mixed permissions and every identifier spelling; plus identifier bytes recorded for only some
    controllers (partial back-fill) and permissions stored for only some (hand-edited: nothing is demanded,
    correspondence only). All authored by the harness from its own state descriptions."""
    rng = ctx.rng
    docs = []
    for n in (0, 1, 2, 6, 12):
        st = authored_state(rng, n)
        for mask in range(8):
            absent = [m for j, m in enumerate(OPTIONAL_MEMBERS) if mask >> j & 1]
            docs.append((author_doc(st, absent), "legacy" if "client_properties" in absent else "current", expected_view(st, absent)))
        if n >= 2:
            for drop_props in (False, True):  # identifier bytes for some controllers only
                for part in (st["u2b"][:1], st["u2b"][1:]):
                    absent = ["client_properties"] if drop_props else []
                    d, exp = author_doc(st, absent), expected_view(st, absent)
                    d["client_uuid_to_bytes"] = [[str(uuidlib.UUID(int=int(u))), b] for u, b in part]
                    exp["uuid_to_bytes"] = {u: b for u, b in part}
                    docs.append((d, "legacy" if drop_props else "current", exp))
            d = author_doc(st)
            d["client_properties"] = d["client_properties"][1:]
            docs.append((d, "hand-edited", None))
    return docs


def gen_docs(ctx: Ctx):
    """(document, kind, expected) triples: the generation matrix, then documents authored from the
    in-memory states of random C06 histories (snapshots of the public State maps, not of any file)."""
    rng = ctx.rng
    docs = generation_docs(ctx)
    for i in range(ctx.n(240, 2500)):
        if i % 3 == 0:
            st = authored_state(rng, rng.randrange(0, 6), perms=[rng.randrange(256) for _ in range(6)])
        else:
            real = build_state({"ops": c06.random_script(ctx), "config_version": rng.randrange(1, MAXCV + 1), "accessories_hash": rng.choice([None, "ab" * 16])})
            try:
                st = full_state(real)
            finally:
                real.close()
            if any(not isinstance(p, int) for _, p in st["props"]):
                continue
        docs.append(derive_doc(rng, st))
    return docs


# ----------------------------------------------------------------------------- multi-save histories
#
# ONE driver object lives through a whole history of state changes, each of which saves through the
# real `driver.persist()` (synchronously); after every completed save the file on disk is loaded
# into a fresh driver/State and must give exactly the in-memory state of that moment. "Restarts"
# (a fresh driver that loads the file through add_accessory and carries on) happen at random points,
# also from files turned into legacy files (members stripped), where pair-verify back-fills the
# identifier bytes.


def h_pair(c, perm):
    return {"k": "pair", "id": hx(c["id"]), "seed": hx(c["seed"]), "perm": perm}


def h_add(c, perm, newkey=False):
    return {"k": "add", "id": hx(c["id"]), "seed": hx(c["seed"]), "perm": perm, "newkey": newkey}


def run_history(ops: List[Dict[str, Any]], collect: bool = True):
    """Returns (model lines, impl results, failure | None, trace). Stops judging at the first failure."""
    real = c06.Real(with_accessory=True)
    lines, impls, trace = [], [], []
    fail = None
    try:
        for i, op in enumerate(ops):
            st = real.state
            calls0 = real.persist_calls
            sig0 = real.file_sig()
            saved = False
            k = op["k"]
            admin = next((u for u in st.paired_clients if st.is_admin(u)), None)
            if k == "pair" or (k == "add" and admin is None):
                key = refpv.controller_key(bytes.fromhex(op["seed"]))[1]
                try:
                    real.driver.pair(bytes.fromhex(op["id"]), key, bytes([op["perm"]]))
                except Exception:  # noqa: BLE001
                    pass
            elif k == "add":
                key = refpv.controller_key(bytes.fromhex(op["seed"]))[1]
                if op.get("newkey"):
                    key = bytes(b ^ 0x5A for b in key)
                real.request(True, admin.int, bytes.fromhex(c06.add_body(bytes.fromhex(op["id"]), key, bytes([op["perm"]]))))
            elif k == "remove" and admin is not None:
                real.request(True, admin.int, bytes.fromhex(c06.remove_body(bytes.fromhex(op["id"]))))
            elif k == "unpair":
                u = c06.parse_id(bytes.fromhex(op["id"]))
                if u is not None and uuidlib.UUID(int=u) in st.paired_clients:
                    try:
                        real.driver.unpair(uuidlib.UUID(int=u))
                    except Exception:  # noqa: BLE001  (the real code raised; whatever it saved is judged below)
                        pass
            elif k == "verify":
                post, _h = real.connection()
                idn = real.ident()
                try:
                    refpv.pair_verify(lambda b: post("/pair-verify", b), bytes.fromhex(op["id"]), bytes.fromhex(op["seed"]),
                                      bytes.fromhex(idn["public_key"]), st.mac.encode())
                except Exception:  # noqa: BLE001
                    pass
            elif k == "config":
                st.increment_config_version()
                real.driver.persist()
                saved = True
            elif k == "hash":
                st.set_accessories_hash(op["h"])
                real.driver.persist()
                saved = True
            elif k in ("restart", "strip"):
                expect = dict_view(full_state(real))
                if k == "strip":  # turn the file into one written by an older version
                    if "client_properties" in op["members"]:
                        expect["client_properties"] = {u: json.dumps(1) for u in expect["paired_clients"]}
                    if "client_uuid_to_bytes" in op["members"]:
                        expect["uuid_to_bytes"] = {}
                    if "accessories_hash" in op["members"]:
                        expect["accessories_hash"] = None
                    # the harness authors that file itself, in the documented historical format, from the in-memory
                    # state (public State maps); the file the implementation wrote is not edited or re-read
                    with open(real.path, "w", encoding="utf8") as fh:
                        json.dump(doc_to_json(author_doc(full_state(real), op["members"])), fh)
                try:
                    nxt = c06.Real(with_accessory=True, state_file_from=real.path)
                except Exception as ex:  # noqa: BLE001
                    fail = fail or ("C14:load-failed", f"restart after step {i}: loading the state file raised {type(ex).__name__}", i)
                    break
                real.close()
                real = nxt
                got = dict_view(full_state(real))
                diff = [f for f in expect if expect[f] != got[f]]
                if diff and fail is None:
                    stripped = op.get("members", [])
                    if "client_properties" in stripped and "client_properties" in diff:
                        fail = ("C14:legacy-not-admin", f"restart at step {i} from a file without {stripped}: not every paired controller "
                                f"({len(got['paired_clients'])}) came back with permission 1 / as admin", i)
                    else:
                        fail = ("C14:restart-state-differs:" + diff[0], f"restart at step {i}" + (f" from a file without {stripped}" if stripped else "")
                                + f": the reloaded {diff} differ from the state before the restart", i)
                    break
            saved = saved or real.persist_calls > calls0 or (k not in ("restart", "strip") and real.file_sig() != sig0)
            trace.append([k, saved, len(real.state.paired_clients), len(real.state.uuid_to_bytes)])
            if not saved:
                continue
            # a save completed: the file on disk must load to exactly the state of this moment
            memory = full_state(real)
            doc = real.file_doc()
            chk = None
            try:
                chk = c06.Real(state_file_from=real.path)
                chk.driver.load()
                loaded = full_state(chk)
            except Exception as ex:  # noqa: BLE001
                loaded = None
                fail = fail or ("C14:load-failed", f"the file saved at step {i} ({k}) does not load: {type(ex).__name__}", i)
            finally:
                if chk is not None:
                    chk.close()
            if collect:
                lines.append({"layer": "encoder", "op": "roundtrip", "state": memory})
                impls.append({"doc": doc, "loaded": loaded})
            if loaded is not None and fail is None:
                dv0, dv1 = dict_view(memory), dict_view(loaded)
                diff = [f for f in dv0 if dv0[f] != dv1[f]]
                if diff:
                    fail = ("C14:saved-file-stale:" + diff[0],
                            f"after the save of step {i} ({k}) the file on disk loads to a state whose {diff} differ from the "
                            f"in-memory state ({len(memory['paired'])} controllers): a restart now would lose that change", i)
            if fail is not None:
                break
        return lines, impls, fail, trace
    finally:
        real.close()


def gen_history(ctx: Ctx) -> List[Dict[str, Any]]:
    rng = ctx.rng
    cs = [{"id": c06.spell(rng, rng.getrandbits(128)), "seed": c06.key_of(rng)} for _ in range(rng.choice([2, 3, 4]))]
    ops: List[Dict[str, Any]] = [h_pair(cs[0], 1)]
    perms = [0, 1, 1, 0, 3, 2, 128, 129, 255]
    for _ in range(rng.randrange(4, 12)):
        r = rng.random()
        c = rng.choice(cs)
        if r < 0.30:
            ops.append(h_add(c, rng.choice(perms), newkey=rng.random() < 0.15))  # often: same controller, same key, other permission
        elif r < 0.40:
            ops.append(h_pair(c, rng.choice(perms)))
        elif r < 0.50:
            ops.append({"k": rng.choice(["remove", "unpair"]), "id": hx(rng.choice(cs[1:])["id"])})
        elif r < 0.62:
            ops.append({"k": "verify", "id": hx(c["id"]), "seed": hx(c["seed"])})
        elif r < 0.70:
            ops.append({"k": "config"})
        elif r < 0.76:
            ops.append({"k": "hash", "h": rng.choice(["", "ab" * 32, hx(c06.key_of(rng))])})
        elif r < 0.90:
            ops.append({"k": "restart"})
        else:
            mk = rng.randrange(1, 8)  # any non-empty set of members older releases did not write
            ops.append({"k": "strip", "members": [m for j, m in enumerate(OPTIONAL_MEMBERS) if mk >> j & 1]})
            ops.append({"k": "verify", "id": hx(c["id"]), "seed": hx(c["seed"])})
    return ops


def boundary_histories(ctx: Ctx) -> List[List[Dict[str, Any]]]:
    rng = ctx.rng
    A, B = ({"id": c06.spell(rng, rng.getrandbits(128), how), "seed": c06.key_of(rng)} for how in (1, 0))
    vA = {"k": "verify", "id": hx(A["id"]), "seed": hx(A["seed"])}
    vB = {"k": "verify", "id": hx(B["id"]), "seed": hx(B["seed"])}
    out = []
    for p0, p1 in ((0, 1), (1, 0), (0, 128), (1, 3), (0, 255), (1, 129)):
        # only a permission byte changes between two saves (same id bytes, same key); then once more after a restart
        out.append([h_pair(A, 1), h_add(B, p0), h_add(B, p1), {"k": "restart"}, h_add(B, p0), h_add(B, p1)])
        out.append([h_pair(A, 1), h_pair(B, p0), h_pair(B, p1), {"k": "config"}, h_pair(B, p0)])
    for members in ([m for j, m in enumerate(OPTIONAL_MEMBERS) if mk >> j & 1] for mk in range(1, 8)):
        # legacy start: pair-verify back-fills the identifier bytes and saves
        out.append([h_pair(A, 1), h_add(B, 0), {"k": "strip", "members": members}, vB, vA, {"k": "restart"}, h_add(B, 1), vB])
        out.append([h_pair(A, 1), {"k": "strip", "members": members}, vA, h_add(B, 0), {"k": "strip", "members": members}, vB, vB])
    # every identifier spelling family through save / restart / list / pair-verify / re-add
    for how in range(c06.N_SPELL):
        S = {"id": c06.spell(rng, rng.getrandbits(128), how), "seed": c06.key_of(rng)}
        vS = {"k": "verify", "id": hx(S["id"]), "seed": hx(S["seed"])}
        out.append([h_pair(A, 1), h_add(S, how % 2), {"k": "restart"}, vS, h_add(S, 1 - how % 2), {"k": "restart"}, vS])
        out.append([h_pair(S, 1), {"k": "restart"}, vS, {"k": "strip", "members": ["client_properties"]}, vS, {"k": "config"}])
    # the spelling of the identifier changes, nothing else; key changes, nothing else
    B2 = {"id": B["id"].swapcase(), "seed": B["seed"]}
    out.append([h_pair(A, 1), h_add(B, 0), h_add(B2, 0), h_add(B, 0), {"k": "restart"}, h_add(B2, 0)])
    out.append([h_pair(A, 1), h_add(B, 0), h_add(B, 0, newkey=True), h_add(B, 0)])
    out.append([h_pair(A, 1), h_add(B, 0), {"k": "remove", "id": hx(B["id"])}, h_add(B, 0), {"k": "unpair", "id": hx(B["id"])}, {"k": "hash", "h": "cd" * 32},
                {"k": "hash", "h": "cd" * 32}, {"k": "config"}, {"k": "restart"}, {"k": "config"}])
    out.append([h_pair(A, 1), h_add(B, 0), {"k": "remove", "id": hx(A["id"])}, {"k": "restart"}, h_pair(B, 1)])  # last admin gone; ids stay recorded
    return out


def record_history_failure(ctx: Ctx, ops, fail):
    sig = fail[0]
    cut = ops[: fail[2] + 1]

    def still(cand):
        try:
            f = run_history(cand, collect=False)[2]
            return f is not None and f[0] == sig
        except Exception:  # noqa: BLE001
            return False

    small = c06.delta_min(cut, still)
    f2 = run_history(small, collect=False)[2]
    desc = f2[1] if f2 and f2[0] == sig else fail[1]
    ctx.fail(sig, f"{desc} [history of {len(small)} step(s) on one driver]", {"kind": "history", "ops": small})


def run_histories(ctx: Ctx):
    st = ctx.stats
    hs = boundary_histories(ctx)
    nb = len(hs)
    hs += [gen_history(ctx) for _ in range(ctx.n(150, 2500))]
    st.notes.append(f"multi-save stream: {nb} deterministic + {len(hs) - nb} random histories on ONE driver each (pair / add-pairing with a changed "
                    "permission, key or spelling / remove / unpair / pair-verify back-fill / config and hash changes / restarts / files turned "
                    "legacy), file checked after every completed save")
    all_lines, all_impls = [], []
    for ops in hs:
        try:
            lines, impls, fail, trace = run_history(ops)
        except Exception as ex:  # noqa: BLE001
            _observed_exception(ctx, "history", {"ops": [o["k"] for o in ops]}, ex)
            continue
        all_lines += lines
        all_impls += impls
        if fail:
            record_history_failure(ctx, ops, fail)
            st.hit("outcome", "oracle:" + fail[0])
        st.case(["h", trace], True)
        for t in trace:
            st.hit("op", "history-" + t[0])
            if t[1]:
                st.hit("outcome", "history/save-checked-by-fresh-load")
    model = run_model_parallel("C14", all_lines)
    for ln, m, impl in zip(all_lines, model, all_impls):
        st.traces_validated += 1
        mm = canon_model_roundtrip(m)
        if mm != impl:
            field = "doc" if mm["doc"] != impl["doc"] else "loaded"
            sub = ""
            if isinstance(mm[field], dict) and isinstance(impl[field], dict):
                sub = "/" + next((k for k in impl[field] if mm[field].get(k) != impl[field].get(k)), "?")
            ctx.disagree(f"encoder/history-save/{field}{sub}", {"state": _short_state(ln["state"])}, _short(mm[field]), _short(impl[field]))
    st.sample({"history": [{k: (v if not isinstance(v, str) or len(v) < 20 else v[:20] + "...") for k, v in o.items()} for o in hs[0]],
               "saves_checked": sum(1 for _ in all_lines)})


# ----------------------------------------------------------------------------- whole-life histories
#
# The histories of c06.whole_life_scripts (real sessions + config_changed + hash updates + restarts through the real
# state file), judged by C14's statement: a restart gives back exactly the state of the moment before it, and the
# Lean model (`hstep .restart` = loadJ (persistJ acc)) predicts the loaded state.


def run_life_case(ops, start, cfg=None):
    fails = []
    enc = (cfg or {}).get("encoder", "stock")

    def on_change(i, real):
        """The persisted state changed in step i and every background save has landed: the file on disk must load
        (fresh driver, the same encoder) to exactly the in-memory state -- in the first run of a driver object and in
        every later one."""
        if fails:
            return
        memory = c06.full_state(real)
        chk = None
        try:
            chk = c06.Real(state_file_from=real.path, encoder=enc)
            chk.driver.load()
            loaded = c06.full_state(chk)
        except Exception as ex:  # noqa: BLE001
            fails.append(("C14:load-failed", f"the state file as it is after step {i} ({ops[i]['k']}) does not load: {type(ex).__name__}", i))
            return
        finally:
            if chk is not None:
                chk.close()
        dv0, dv1 = dict_view(memory), dict_view(loaded)
        diff = [f for f in dv0 if dv0[f] != dv1[f]]
        if diff:
            fails.append(("C14:saved-file-stale:" + diff[0],
                          f"step {i} ({ops[i]['k']}) changed the accessory state, all its saves have finished, but the file on disk loads to a state whose "
                          f"{diff} differ from the in-memory state ({len(memory['paired'])} controllers"
                          + (", the driver object had been stopped and started again" if any(o["k"] == "stop" for o in ops[:i]) else "")
                          + (f", application-supplied {enc} encoder" if enc != "stock" else "") + "): a restart now would lose that change", i))

    def on_restart(i, before, after):
        if fails:
            return
        if after is None:
            fails.append(("C14:load-failed", f"restart at step {i}: loading the state file the accessory had just saved raised", i))
            return
        dv0, dv1 = dict_view(before), dict_view(after)
        diff = [f for f in dv0 if dv0[f] != dv1[f]]
        if diff:
            fails.append(("C14:restart-state-differs:" + diff[0], f"restart at step {i}: the reloaded {diff} differ from the state before the restart "
                          f"({len(before['paired'])} controllers, config_version {before['config_version']}"
                          + (f", application-supplied {enc} encoder passed to the driver's constructor" if enc != "stock" else "") + ")", i))

    ident, steps, _v, _abst, init = c06.run_real_sessions(ops, judge=False, start=start, on_restart=on_restart, cfg=cfg, on_change=on_change)
    return ident, steps, init, (fails[0] if fails else None)


def run_whole_life(ctx: Ctx):
    st = ctx.stats
    cases = c06.whole_life_scripts(ctx)
    st.notes.append(f"whole-life stream: {len(cases)} histories (pairing administration on real sessions, config_changed, hash updates, "
                    "restarts through the real state file, legacy starts); restart judged by 'state before == state after', model predicts the loaded state")
    lines, impl, scripts = [], [], []
    for ops, start, cfg in cases:
        try:
            ident, steps, init, fail = run_life_case(ops, start, cfg)
        except Exception as ex:  # noqa: BLE001
            _observed_exception(ctx, "whole-life", {"ops": [o["k"] for o in ops]}, ex)
            continue
        scripts.append(ops)
        lines.append(c06.sessions_model_line(ops, ident, init, steps))
        st.hit("outcome", f"life-config/encoder:{(cfg or {}).get('encoder', 'stock')}/{'live' if (cfg or {}).get('live') else 'objects'}")
        impl.append(steps)
        if fail:
            sig = fail[0]
            cut = ops[: fail[2] + 1]

            def still(cand, sig=sig, start=start, cfg=cfg):
                try:
                    f = run_life_case(c06.lifecycle_normal(cand), start, cfg)[3]
                    return f is not None and f[0] == sig
                except Exception:  # noqa: BLE001
                    return False

            small = c06.lifecycle_normal(c06.delta_min(cut, still))
            f2 = run_life_case(small, start, cfg)[3]
            if not (f2 and f2[0] == sig):
                small, f2 = cut, fail
            ctx.fail(sig, f2[1] + f" [whole-life history of {len(small)} step(s): {' '.join(o['k'] for o in small)}]",
                     {"kind": "life", "ops": small, "start": start, "cfg": cfg})
            st.hit("outcome", "oracle:" + sig)
        tr = []
        for op, s_ in zip(ops, steps):
            st.hit("op", "life-" + op["k"])
            if op["k"] == "restart":
                st.hit("outcome", "life-restart/" + ("state-identical-checked" if s_.get("restarted") else "load-failed"))
                tr.append(["restart", s_.get("restarted"), len(s_.get("acc", {}).get("paired", [])), len(s_.get("acc", {}).get("u2b", []))])
            elif op["k"] in ("config", "hash", "start"):
                tr.append([op["k"], s_.get("wrote"), min(s_["acc"]["config_version"], 3)])
            elif op["k"] == "stop":
                tr.append(["stop"])
            else:
                tr.append([op["k"], len(s_["state"]["paired"]), s_.get("wrote")])
        st.case(["life", tr], True)
    c06.compare_sessions(ctx, "C14", scripts, lines, impl)


# ----------------------------------------------------------------------------- entry points


def canon_model_roundtrip(m):
    return {"doc": m.get("doc"), "loaded": m.get("loaded")}


def run(ctx: Ctx):
    st = ctx.stats
    st.rule = (
        "state cases: a C06 history run on the real code, a configuration number (edges 1/65535 and random) and a database "
        "hash (None/''/hex/non-ASCII), saved and reloaded by the real driver (the file the implementation wrote is opaque to the "
        "oracle: state before save == state after load, list-pairings, admin test, real pair-verify); document cases: files "
        "AUTHORED BY THE HARNESS in the documented historical format from its own state descriptions (every combination of absent "
        "client_properties / client_uuid_to_bytes / accessories_hash, partial identifier bytes, respelled keys, duplicate "
        "controllers, damaged files), expected state from the harness's knowledge of what it wrote. Identifier spellings cover "
        "every family uuid.UUID accepts (dashed lower/upper/mixed, bare 32 hex digits lower/upper/mixed, braced, urn:uuid:). Non-trivial: at least one controller is stored, or the document is legacy/damaged. "
        "Distinct by (controllers, permission multiset size, recorded ids, spellings differing from upper-case canonical, "
        "config number class, hash class) resp. by the document's member set and sizes."
    )
    specs = gen_specs(ctx)
    lines, impls = [], []
    for i, sp in enumerate(specs):
        try:
            line, impl, fail = run_state_case(ctx, sp, i)
        except Exception as ex:  # noqa: BLE001  (never an infrastructure failure: what the implementation did is an observation)
            _observed_exception(ctx, "state-case", {"spec_ops": len(sp["ops"])}, ex)
            continue
        lines.append(line)
        impls.append(impl)
        s = line["state"]
        if fail:
            if not any(f.signature == fail[0] for f in ctx.failures):
                small = minimise_state_spec(sp, fail[0], i)
                f2 = run_state_case(ctx, small, i)[2]
                ctx.fail(fail[0], (f2[1] if f2 and f2[0] == fail[0] else fail[1]) + f" [history of {len(small['ops'])} request(s), {len(small.get('verifiers', []))} verifying controller(s)]",
                         {"kind": "state", "spec": small, "via_add_accessory": i % 16 == 0 or bool(small.get("via_add"))})
            st.hit("outcome", "oracle:" + fail[0])
        n = len(s["paired"])
        canon_ids = sum(1 for u, b in s["u2b"] if bytes.fromhex(b).decode("utf-8", "replace") != str(uuidlib.UUID(int=int(u))).upper())
        st.case(["s", n, len({p for _, p in s["props"]}), len(s["u2b"]), canon_ids, min(s["config_version"], 3) if s["config_version"] < 65535 else "max",
                 "none" if s["accessories_hash"] is None else len(s["accessories_hash"])], n > 0)
        st.hit("op", "persist+load")
        st.hit("outcome", f"state/{'0' if n == 0 else '1' if n == 1 else '2-5' if n <= 5 else '6+'}-controllers")
        if len(s["u2b"]) > n:
            st.hit("outcome", "state/recorded-ids-of-unpaired-controllers")
    docs = gen_docs(ctx)
    dlines, dimpls = [], []
    for d, kind, exp in docs:
        try:
            line, impl, fail = run_doc_case(d, kind, exp)
        except Exception as ex:  # noqa: BLE001
            _observed_exception(ctx, "document-case", {"members": sorted(d), "kind": kind}, ex)
            continue
        dlines.append(line)
        dimpls.append(impl)
        if fail:
            ctx.fail(fail[0], fail[1], {"kind": "doc", "doc": d, "doc_kind": kind, "expected": exp})
            st.hit("outcome", "oracle:" + fail[0])
        legacy = "client_properties" not in d
        ucount = len(d.get("client_uuid_to_bytes") or [])
        st.case(["d", sorted(d), len(d.get("paired_clients") or []), "err" in impl, ucount, len(d.get("client_properties") or [])],
                legacy or "err" in impl or len(d.get("paired_clients") or []) > 0)
        if kind in ("legacy", "current"):
            absent = "+".join(m for m in OPTIONAL_MEMBERS if m not in d) or "nothing"
            st.hit("outcome", f"doc-generation/absent:{absent}")
        st.hit("op", "load-document")
        st.hit("outcome", f"doc/{kind}/" + ("load-error" if "err" in impl else "loaded"))

    model = run_model_parallel("C14", lines + dlines)
    for ln, m, impl in zip(lines, model[: len(lines)], impls):
        st.traces_validated += 1
        mm = canon_model_roundtrip(m)
        for pv in impl.get("pair_verify", [{}])[:1]:
            for res in pv.values():
                st.hit("outcome", "pair-verify-before-and-after/" + res.replace(" ", "-"))
        impl = {"doc": impl["doc"], "loaded": impl["loaded"]}
        if mm != impl:
            field = "doc" if mm["doc"] != impl["doc"] else "loaded"
            sub = ""
            if isinstance(mm[field], dict) and isinstance(impl[field], dict):
                sub = "/" + next((k for k in impl[field] if mm[field].get(k) != impl[field].get(k)), "?")
            ctx.disagree(f"encoder/{field}{sub}", {"state": _short_state(ln["state"])}, _short(mm[field]), _short(impl[field]))
    for ln, m, impl in zip(dlines, model[len(lines):], dimpls):
        st.traces_validated += 1
        if m != impl:
            ctx.disagree("encoder/load-document", {"doc": _short(ln["doc"])}, _short(m), _short(impl))
    run_histories(ctx)
    run_whole_life(ctx)
    if len(lines) > 1:
        st.sample({"state": _short_state(lines[1]["state"]), "file_tree": _short(impls[1]["doc"]), "model_agrees": canon_model_roundtrip(model[1]) == {k: impls[1][k] for k in ("doc", "loaded")}})
        st.sample({"state": _short_state(lines[-1]["state"]), "pair_verify_before_after": impls[-1].get("pair_verify"),
                   "model_agrees": canon_model_roundtrip(model[len(lines) - 1]) == {k: impls[-1][k] for k in ("doc", "loaded")}})
    if dlines:
        st.sample({"authored_legacy_doc": _short(dlines[9 if len(dlines) > 9 else 0]["doc"]), "impl": _short(dimpls[9 if len(dlines) > 9 else 0]),
                   "model_agrees": model[len(lines) + (9 if len(dlines) > 9 else 0)] == dimpls[9 if len(dlines) > 9 else 0]})


def _observed_exception(ctx: Ctx, where: str, case, ex: BaseException):
    """An exception escaped while driving / observing the implementation: record it as a disagreement
    (the model predicts none) instead of aborting the run."""
    import traceback

    tb = traceback.format_exception(type(ex), ex, ex.__traceback__)
    ctx.stats.hit("outcome", f"exception-observed/{where}/{type(ex).__name__}")
    ctx.disagree(f"exception/{where}", case, "no exception", "".join(tb)[-700:])


def _short_state(s):
    return {"config_version": s["config_version"], "accessories_hash": s["accessories_hash"], "controllers": len(s["paired"]),
            "permissions": [p for _, p in s["props"]][:8], "recorded_ids": len(s["u2b"])}


def _short(x):
    s = json.dumps(x, default=str)
    return s if len(s) < 400 else s[:400] + f"...<{len(s)} chars>"


def search(ctx: Ctx):
    saved = ctx.tier
    ctx.tier = "thorough"
    try:
        for i, sp in enumerate(gen_specs(ctx)[:2500]):
            try:
                fail = run_state_case(ctx, sp, i)[2]
            except Exception:  # noqa: BLE001
                continue
            if fail:
                ctx.fail(fail[0], fail[1], {"kind": "state", "spec": sp, "via_add_accessory": i % 16 == 0})
        for d, kind, exp in gen_docs(ctx)[:800]:
            try:
                fail = run_doc_case(d, kind, exp)[2]
            except Exception:  # noqa: BLE001
                continue
            if fail:
                ctx.fail(fail[0], fail[1], {"kind": "doc", "doc": d, "doc_kind": kind, "expected": exp})
        for ops in boundary_histories(ctx) + [gen_history(ctx) for _ in range(2500)]:
            try:
                fail = run_history(ops, collect=False)[2]
            except Exception:  # noqa: BLE001
                continue
            if fail:
                record_history_failure(ctx, ops, fail)
        for ops, start, cfg in c06.whole_life_scripts(ctx):
            try:
                fail = run_life_case(ops, start, cfg)[3]
            except Exception:  # noqa: BLE001
                continue
            if fail:
                ctx.fail(fail[0], fail[1], {"kind": "life", "ops": ops[: fail[2] + 1], "start": start, "cfg": cfg})
    finally:
        ctx.tier = saved


def replay(ctx: Ctx, r):
    if r.get("kind") == "state":
        line, impl, fail = run_state_case(ctx, r["spec"], 0 if r.get("via_add_accessory") else 1)
        print("state:", _short_state(line["state"]))
        print("loaded:", "load failed" if impl["loaded"] is None else _short_state(impl["loaded"]))
    elif r.get("kind") == "history":
        _l, _i, fail, trace = run_history(r["ops"], collect=False)
        for op, t in zip(r["ops"], trace):
            desc = {k: (v if not isinstance(v, str) or len(v) < 24 else bytes.fromhex(v).decode(errors="replace") if k == "id" else v[:16] + "...") for k, v in op.items()}
            print(f"  {desc} -> save {'completed, file checked by a fresh load' if t[1] else 'not requested'}; controllers={t[2]} recorded ids={t[3]}")
        fail = fail[:2] if fail else None
    elif r.get("kind") == "life":
        if r.get("cfg"):
            print("  configuration:", r["cfg"])
        _ident, steps, _init, fail = run_life_case(r["ops"], r.get("start"), r.get("cfg"))
        for op, s_ in zip(r["ops"], steps):
            what = {k: (v if not isinstance(v, str) or len(v) < 24 else v[:16] + "...") for k, v in op.items()}
            print(f"  {what} -> " + (f"restarted={s_.get('restarted')}" if op["k"] == "restart" else f"controllers={len((s_.get('state') or s_.get('acc'))['paired'])}")
                  + (f" save-observed={s_['wrote']}" if "wrote" in s_ else ""))
        fail = fail[:2] if fail else None
    elif r.get("kind") == "doc":
        line, impl, fail = run_doc_case(r["doc"], r.get("doc_kind", "damaged"), r.get("expected"))
        print("document members:", sorted(r["doc"]), "->", _short(impl))
    else:
        print("replay file records a broken proof obligation / correspondence stream, not an input:")
        print(json.dumps(r, indent=1)[:3000])
        return 1
    if fail:
        print("FAILS:", fail[0], fail[1])
    print("verdict:", "property violated on this input" if fail else "holds on this input")
    return 1 if fail else 0
