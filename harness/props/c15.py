"""C15 — State saving is atomic and converges to the latest state.

Streams on the real code, against a real temp directory (the State of every rig is *observed*: reads of its
persisted public attributes by a save inside the encoder, and stores into them by a pairing change, are events
at which a party can be parked or a fault injected; behaviour is unchanged):
  crash     a forked child runs AccessoryDriver.persist under sys.settrace and os._exit()s at the
            k-th source-line event inside the save (pyhap frames + json.dump), for every k;
  fault     wrappers around tempfile.NamedTemporaryFile, the temp file's write/close,
            encoder.persist, os.replace, os.path.exists, os.remove raise at the k-th call, for
            every k, then pairs of faults and fault sequences over consecutive saves;
  schedule  real driver.pair()/unpair() on a real loop + its default executor; the background save
            jobs are parked at the same wrappers so that every (pause point of job 0) x (pause
            point of job 1) interleaving with the pairing changes is forced; random 3/4-job
            schedules on top;
  midread   pairing changes that land between two attribute reads of one save (a save parked before each read
            of encoder.persist in turn), saves that read while a pairing change is half done (the change parked
            before each of its stores), random mixes; pairing changes run on a thread of their own, so "the
            change waits for the save's reads" shows as blocked; after EVERY forced step (here and in
            `schedule`), once nothing moves, the state file must be a complete loadable copy of a state the
            accessory was in at a change boundary (a kill at that instant leaves exactly that file);
  twin      two drivers whose state files are siblings in one directory, saving concurrently, one through a
            failing pluggable encoder: both files right at the end, nothing else left in the directory;
  lifecycle a driver that owns its loop and thread pool (no loop= argument) run through the public start()/stop();
            the pool is sized by the driver for a small board (os.cpu_count() = 1, 2, 4) and a bridge carries
            0 .. workers+3 accessories with a blocking run(), so a pairing change's save may sit in the pool's
            queue when stop() is called; pair / unpair / config_changed on the loop, with and without time to
            settle; judged after start() has returned and the pool's threads have ended: file == memory;
  spelling  persist_file spelled as a bare name (the constructor default) / ./name / relative path / absolute path /
            ~ path, the process working directory elsewhere, and the system temp directory on ANOTHER file system
            (os.replace across it fails with EXDEV): public API only; file == memory at quiescence, and where the
            save created its temp file is observed (the property's mechanism is a temp sibling of the state file);
  natural   the same path free-running, with seeded jitter in the wrappers;
  public    every operation that changes the persisted state, through the real request handler or
            the public driver method that schedules its own save (pair-setup completion, add-pairing
            of a new controller / of a stored one with other permissions, another key, another
            spelling of the identifier, remove-pairing, removal of the only admin, pair-verify
            back-fill of identifier bytes on a file written without them, config_changed,
            async_start's accessories-hash update, requests served while async_stop is in
            progress); no wrappers, nothing calls persist; three pool schedules (free / the worker
            runs the job before the submitter's next statement / jobs start when the loop is idle);
            loop and default executor drain, then the file must equal the in-memory state.
Oracle (independent of the model; harness/ref/statefile.py): after a failed or killed save the
file is a complete loadable copy of the previous or the new state (after a kill, a real restart - new
driver + add_accessory on the directory as left - restores exactly that state and can save again), a
handled failure leaves no temp file; at every stable instant of a forced interleaving the file is a copy
of a state that existed; at quiescence the file equals the in-memory identity + pairings.
Correspondence: the observed event trace of every crash/fault/schedule/midread case (stores of changes,
attribute reads and I/O calls of saves, in their real order) is replayed through the Lean step relation
(locked + slocked = the repaired code) and the predicted directory is compared.
"""
from __future__ import annotations

import asyncio
import builtins
import errno
import json
import logging
import os
import shutil
import sys
import tempfile
import threading
import time
import uuid
from typing import Any, Dict, List, Optional, Tuple

from common import Ctx, delta_min, run_model
from ref import statefile as ref

PROP = "C15"
LEAN_MODULE = "Props.C15"
LEVEL = "proof"
TRUSTED = [
    "Lean 4.33 kernel; axioms propext, Classical.choice, Quot.sound only (audited by #print axioms)",
    "hand-written model lean/HapModel/Persist.lean of AccessoryDriver.persist/async_persist/pair/unpair, "
    "AccessoryEncoder.persist and the changes of State (repaired code: lock around the body of persist, State.lock "
    "around every change and around the encoder's reads), tied by this differential run on observed event traces",
    "granularity: one model step per I/O call of a save (mktemp, each chunk write, close, replace, exists, remove), "
    "per attribute of the state that the encoder reads (order learned from a probe save) and per store of a pairing "
    "change; a thread switch inside the iteration over one dict is not a step (with State.lock it cannot happen; "
    "without it the real outcome is a handled RuntimeError = a fault at that read); changes of the state are "
    "serialised among themselves (pairing changes all run on the loop thread)",
    "the observation of State (a subclass installed on the instance, dict subclasses for the three maps) does not "
    "change what the code under check computes",
    "runtime outside the model (level is partial for it): power loss / missing fsync (page cache is assumed to "
    "survive process death, not machine death), POSIX semantics of os.replace (atomic within a directory; "
    "non-POSIX rename semantics are not covered), tempfile returning a fresh name, os.replace/os.remove "
    "failing without effect",
    "model hypothesis 'every state-changing public operation changes the state first and submits a save after "
    "it' (label `mutate` = change, then job; C15_converge_after_save needs exactly this order, "
    "C15_save_before_change_counterexample shows the opposite order fails): not a theorem about the code. It is "
    "tied by the `public` stream, which drives every save-scheduling site (pair, unpair, pair-verify's "
    "identifier back-fill on a legacy file, config_changed, async_start, also while async_stop is in progress) "
    "through the real handler / driver method under three pool schedules (as it comes / the worker runs the job "
    "before the submitting thread's next statement / jobs start when the loop is idle) and judges the file at "
    "quiescence; the sites found in the source by an AST walk and the sites driven are listed in the evidence notes",
    "harness/ref/statefile.py (independent reader of the state file), harness/ref/c14_pairverify.py and tlv8.py "
    "(reference controller for the handler requests), the wrappers/scheduler of this module",
]
ASSUMPTIONS = [
    "crash = death of the Python process (os._exit): user-space buffers are lost, the page cache survives; "
    "power loss and missing fsync are outside the model and the check",
    "os.replace is atomic and either happens or raises (POSIX rename within one directory); non-POSIX rename "
    "semantics are not covered",
    "faults are raised by the wrapped call before it has any effect; the temp file name is fresh",
    "interleavings are taken at the granularity of the I/O calls and single attribute reads of a save job and of "
    "the single stores of a pairing change",
    "a stable instant of a forced schedule (every party parked, blocked on a lock or finished) stands for a kill "
    "at that instant: the directory a kill would leave is the directory seen",
]

STATE_FILE = "accessory.state"
POINTS = ("mktemp", "snapshot", "write", "close", "replace", "exists", "remove")
CLEANUP_POINTS = ("exists", "remove")
# the persisted attributes of State (public attributes; what harness/ref/statefile.canon_state compares).  Each is
# one "component" of the model's memory; the order in which the encoder reads them is learned from a probe save.
COMPONENTS = (
    "paired_clients", "client_properties", "uuid_to_bytes", "mac", "config_version", "accessories_hash",
    "private_key", "public_key",
)
DICT_COMPONENTS = COMPONENTS[:3]
CHANGER = "L"  # the thread that changes the state (the loop thread), as a party of forced schedules


def is_step(p: str) -> bool:
    """An event that is a step of a save job in the model (an I/O call or one attribute read)."""
    return p in POINTS or p.startswith("read:")
# what a failing file-system call realistically reports (the third element of a fault: [point, nth, kind];
# "os" = ENOSPC, "none" = an OSError without errno, "rt" = not an OSError at all)
ERRNOS = ("os", "EBUSY", "EXDEV", "EACCES", "EIO", "EINTR", "none")
INIT_ID = 900000
HANG_S = 20.0


class Injected(OSError):
    """The error raised by an injected fault (an I/O error: disk full)."""


class InjectedBug(RuntimeError):
    """An injected failure that is not an OSError (what a failing encoder or codec raises)."""


class Hung(Exception):
    pass


# --------------------------------------------------------------------------- wrappers


class FileProxy:
    """The temp file handed to the code under check: reports write and close."""

    def __init__(self, hooks: "Hooks", f):
        self._h = hooks
        self._f = f

    @property
    def name(self):
        return self._f.name

    def write(self, data):
        self._h.ev("write")
        r = self._f.write(data)
        self._h.after("write")
        return r

    def __enter__(self):
        self._f.__enter__()
        return self

    def __exit__(self, et, ev, tb):
        if et is None:
            try:
                self._h.ev("close")
            except BaseException:
                self._f.__exit__(None, None, None)  # the descriptor is closed although close "failed"
                raise
        r = self._f.__exit__(et, ev, tb)
        if et is None:
            self._h.after("close")
        return r

    def close(self):
        if not self._f.closed:
            try:
                self._h.ev("close")
            except BaseException:
                self._f.close()
                raise
        return self._f.close()

    def __getattr__(self, n):
        return getattr(self._f, n)


class OpenProxy:
    """A file in our directory that the save opened for writing by itself (not through tempfile):
    reports each write (shutil.copyfileobj and hand-written copies go through it)."""

    def __init__(self, hooks: "Hooks", f):
        self._h = hooks
        self._f = f

    def write(self, data):
        self._h.ev("fwrite")
        return self._f.write(data)

    def __enter__(self):
        self._f.__enter__()
        return self

    def __exit__(self, et, ev, tb):
        return self._f.__exit__(et, ev, tb)

    def __iter__(self):
        return iter(self._f)

    def __getattr__(self, n):
        return getattr(self._f, n)


class Hooks:
    """Global wrappers around the I/O calls of a save; active only inside a job thread and only for
    paths in our directory.  `on_event(job, point)` runs before the wrapped call: it may block
    (scheduling) or raise (fault).  An event is logged when the call is about to be performed."""

    def __init__(self, directory: str, on_event):
        self.dir = os.path.abspath(directory)
        self.on_event = on_event
        self.tls = threading.local()
        self.log: List[Tuple[Any, str, str]] = []
        self.loglock = threading.Lock()
        self.sink = None  # optional fd: events are also written there (crash children)
        self.mark = None  # crash children: how many line events have happened so far
        self._orig: Dict[str, Any] = {}

    # -- job context
    def job(self):
        return getattr(self.tls, "job", None)

    def set_job(self, j):
        self.tls.job = j

    def _log(self, j, point, outcome):
        with self.loglock:
            self.log.append((j, point, outcome))
        if self.sink is not None:
            os.write(self.sink, f"{j} {point} {outcome}\n".encode())
            if outcome == "fault" and self.mark is not None:
                os.write(self.sink, f"mark {self.mark()}\n".encode())

    def ev(self, point):
        j = self.job()
        try:
            self.on_event(j, point)
        except BaseException:
            self._log(j, point, "fault")
            raise
        self._log(j, point, "ok")

    # -- the state as the save and the changes see it
    def read_event(self, name):
        """A job, inside encoder.persist, is about to read attribute `name` of the state (first read only)."""
        seen = self.tls.read_seen
        if name in seen:
            return
        seen.add(name)
        self.ev("read:" + name)

    def begin_change(self):
        t = self.tls
        t.changing, t.change_open, t.last_idx = True, False, None

    def write_event(self, name):
        """The changing thread is about to store into attribute `name` of the state."""
        t = self.tls
        self.on_event(CHANGER, "mwrite:" + name)  # forced schedules may park the changing thread here
        with self.loglock:
            if not t.change_open:
                t.change_open = True
                self.log.append((None, "mbegin", "ok"))
            self.log.append((None, "mwrite:" + name, "ok"))
            t.last_idx = len(self.log) - 1

    def end_change(self):
        """The change has returned: it ended (and released whatever it held) right after its last store."""
        t = self.tls
        with self.loglock:
            if not t.change_open:
                self.log.append((None, "mbegin", "ok"))
                t.last_idx = len(self.log) - 1
            self.log.insert(t.last_idx + 1, (None, "mend", "ok"))
        t.changing = False

    def changing(self) -> bool:
        return getattr(self.tls, "changing", False)

    def observe_state(self, state):
        """Make reads (by a job inside the encoder) and stores (by a bracketed change) of the persisted
        public attributes of `state` visible as events.  Behaviour is unchanged: the attributes keep their
        values, the three maps stay dicts (a subclass)."""
        hooks = self
        base = type(state)

        class ObservedState(base):
            def __getattribute__(self, name):
                if name in COMPONENTS and hooks.job() is not None and getattr(hooks.tls, "in_encoder", False):
                    hooks.read_event(name)
                return base.__getattribute__(self, name)

            def __setattr__(self, name, value):
                if name in COMPONENTS and hooks.changing():
                    hooks.write_event(name)
                base.__setattr__(self, name, value)

        class ObservedDict(dict):
            __slots__ = ("_name",)

            def _w(self):
                if hooks.changing():
                    hooks.write_event(self._name)

            def __setitem__(self, k, v):
                self._w()
                dict.__setitem__(self, k, v)

            def __delitem__(self, k):
                self._w()
                dict.__delitem__(self, k)

            def pop(self, *a):
                self._w()
                return dict.pop(self, *a)

            def popitem(self):
                self._w()
                return dict.popitem(self)

            def clear(self):
                self._w()
                dict.clear(self)

            def update(self, *a, **kw):
                self._w()
                dict.update(self, *a, **kw)

            def setdefault(self, *a):
                self._w()
                return dict.setdefault(self, *a)

        for n in DICT_COMPONENTS:
            d = ObservedDict(getattr(state, n))
            d._name = n
            base.__setattr__(state, n, d)
        state.__class__ = ObservedState

    def after(self, point):
        """The wrapped call has returned: a further place where a job can be parked (no event)."""
        self.on_event(self.job(), point + "+")

    def _mine(self, path) -> bool:
        if self.job() is None:
            return False
        try:
            p = os.fspath(path)
        except TypeError:
            return False
        if isinstance(p, bytes):
            p = os.fsdecode(p)
        return os.path.dirname(os.path.abspath(p)) == self.dir

    # -- the wrappers
    def _ntf(self, *a, **kw):
        d = kw.get("dir")
        if self.job() is None or d is None or os.path.abspath(d) != self.dir:
            return self._orig["ntf"](*a, **kw)
        self.ev("mktemp")
        f = FileProxy(self, self._orig["ntf"](*a, **kw))
        self.after("mktemp")
        return f

    def _replace(self, src, dst, *a, **kw):
        if not self._mine(dst):
            return self._orig["replace"](src, dst, *a, **kw)
        self.ev("replace")
        r = self._orig["replace"](src, dst, *a, **kw)
        self.after("replace")
        return r

    def _rename(self, src, dst, *a, **kw):
        # shutil.move and hand-written installs use os.rename: the same step as os.replace
        if not self._mine(dst):
            return self._orig["rename"](src, dst, *a, **kw)
        self.ev("replace")
        r = self._orig["rename"](src, dst, *a, **kw)
        self.after("replace")
        return r

    def _open(self, file, mode="r", *a, **kw):
        # a save that opens a file in our directory for writing by itself (not through tempfile):
        # not a step of the modelled program, but a place where an I/O error can strike
        if isinstance(mode, str) and any(c in mode for c in "wax+") and self._mine(file):
            self.ev("open")
            return OpenProxy(self, self._orig["open"](file, mode, *a, **kw))
        return self._orig["open"](file, mode, *a, **kw)

    def _sendfile(self, *a, **kw):
        if self.job() is not None:
            self.ev("sendfile")
        return self._orig["sendfile"](*a, **kw)

    def _remove(self, path, *a, **kw):
        if self._mine(path):
            self.ev("remove")
        return self._orig["remove"](path, *a, **kw)

    def _unlink(self, path, *a, **kw):
        if self._mine(path):
            self.ev("remove")
        return self._orig["unlink"](path, *a, **kw)

    def _exists(self, path):
        if not (self._mine(path) and os.path.basename(os.fspath(path)) != STATE_FILE):
            return self._orig["exists"](path)
        self.ev("exists")
        r = self._orig["exists"](path)
        self.after("exists")
        return r

    def wrap_encoder(self, enc):
        """Report the moment encoder.persist starts reading the state (instance attribute only)."""
        orig = enc.persist

        def persist(fp, state):
            if self.job() is None:
                return orig(fp, state)
            self.ev("snapshot")
            self.tls.in_encoder, self.tls.read_seen = True, set()
            try:
                r = orig(fp, state)
            finally:
                self.tls.in_encoder = False
            self.after("snapshot")
            return r

        enc.persist = persist
        return orig

    def install(self):
        self._orig = {
            "ntf": tempfile.NamedTemporaryFile,
            "replace": os.replace,
            "remove": os.remove,
            "unlink": os.unlink,
            "exists": os.path.exists,
            "rename": os.rename,
            "open": builtins.open,
            "sendfile": getattr(os, "sendfile", None),
        }
        os.rename = self._rename
        builtins.open = self._open
        if self._orig["sendfile"] is not None:
            os.sendfile = self._sendfile
        tempfile.NamedTemporaryFile = self._ntf
        os.replace = self._replace
        os.remove = self._remove
        os.unlink = self._unlink
        os.path.exists = self._exists

    def uninstall(self):
        if not self._orig:
            return
        tempfile.NamedTemporaryFile = self._orig["ntf"]
        os.replace = self._orig["replace"]
        os.remove = self._orig["remove"]
        os.unlink = self._orig["unlink"]
        os.path.exists = self._orig["exists"]
        os.rename = self._orig["rename"]
        builtins.open = self._orig["open"]
        if self._orig["sendfile"] is not None:
            os.sendfile = self._orig["sendfile"]
        self._orig = {}

    def __enter__(self):
        self.install()
        return self

    def __exit__(self, *a):
        self.uninstall()


class Ctl:
    """Fault plan + (optionally) a scheduler that parks job threads at wrapper entries."""

    def __init__(self, faults=(), forced=False, jitter=None):
        self.cond = threading.Condition()
        self.count: Dict[Tuple[Any, str], int] = {}
        self.kinds = {tuple(f[:3]): (f[3] if len(f) > 3 else "os") for f in faults}
        self.faults = set(self.kinds)  # (job, point, nth)
        self.fired: List[Tuple[Any, str, int]] = []
        self.forced = forced
        self.stop: Dict[Any, Any] = {}
        self.parked: Dict[Any, Tuple[str, int]] = {}
        self.ended: Dict[Any, str] = {}
        self.jitter = jitter or {}

    def arrive(self, job, point):
        with self.cond:
            n = self.count[(job, point)] = self.count.get((job, point), 0) + 1
            if self.forced:
                st = self.stop.get(job, {("begin", 1)})
                if st is not None and (point, n) in st:
                    self.parked[job] = (point, n)
                    self.cond.notify_all()
                    while job in self.parked:
                        self.cond.wait()
            hit = (job, point, n) in self.faults
            if hit:
                self.fired.append((job, point, n))
        d = self.jitter.get((job, point, n))
        if d:
            time.sleep(d)
        if hit:
            kind = self.kinds.get((job, point, n), "os")
            if kind == "rt":
                raise InjectedBug(f"injected non-I/O failure at {point}#{n}")
            if kind == "none":
                raise Injected(f"injected fault at {point}#{n}")  # an OSError that carries no errno
            code = errno.ENOSPC if kind == "os" else getattr(errno, kind)
            raise Injected(code, f"injected fault at {point}#{n}")

    def finish(self, job, outcome):
        with self.cond:
            self.ended[job] = outcome
            self.cond.notify_all()

    def run(self, job, until, timeout) -> str:
        """Let `job` run until it is about to perform `until` = (point, nth) (None: to its end)."""
        with self.cond:
            if job in self.ended:
                return "end"
            if until is not None and self.parked.get(job) == tuple(until):
                return "parked"  # already sitting exactly there
            self.stop[job] = None if until is None else {tuple(until)}
            self.parked.pop(job, None)
            self.cond.notify_all()
            deadline = time.monotonic() + timeout
            while job not in self.parked and job not in self.ended:
                rem = deadline - time.monotonic()
                if rem <= 0:
                    return "timeout"
                self.cond.wait(rem)
            return "end" if job in self.ended else "parked"

    def release_all(self):
        with self.cond:
            for j in list(self.parked):
                self.stop[j] = None
            self.parked.clear()
            self.forced = False
            self.cond.notify_all()


# --------------------------------------------------------------------------- rig


def _pyhap():
    import pyhap.accessory_driver as ad  # noqa: F401  (HAP_REPO is honoured through sys.path in common)
    import pyhap.encoder as enc
    import pyhap.state as st

    return ad, enc, st


def mk_ops(rng, n_initial: int, n_ops: int) -> Tuple[List[dict], List[dict]]:
    """Initial pairings and a list of pairing changes (pair a new controller / unpair a present one)."""
    present: Dict[str, int] = {}  # id -> permission byte, as the accessory will hold them

    def new_pair(admin=None):
        u = str(uuid.UUID(int=rng.getrandbits(128), version=4))
        if rng.random() < 0.3:
            u = u.upper()  # controllers send upper-case identifiers too
        perm = (1 if rng.random() < 0.7 else 0) if admin is None else admin
        return {"op": "pair", "id": u, "key": bytes(rng.getrandbits(8) for _ in range(32)).hex(), "perm": perm}

    initial = []
    for i in range(n_initial):
        p = new_pair(admin=1 if i == 0 else None)
        initial.append(p)
        present[p["id"]] = p["perm"]
    ops = []
    for _ in range(n_ops):
        if present and rng.random() < 0.3:
            u = rng.choice(sorted(present))
            del present[u]
            if not any(v & 1 for v in present.values()):
                present.clear()  # removing the last admin removes every pairing
            ops.append({"op": "unpair", "id": u})
        else:
            p = new_pair(admin=1 if not present else None)
            ops.append(p)
            present[p["id"]] = p["perm"]
    return initial, ops


def apply_op_state(state, op):
    """A pairing change applied to a State directly (used to prepare scenarios)."""
    if op["op"] == "pair":
        state.add_paired_client(op["id"].encode(), bytes.fromhex(op["key"]), bytes([op["perm"]]))
    else:
        u = uuid.UUID(op["id"])
        if u in state.paired_clients:
            state.remove_paired_client(u)


class Rig:
    """A real AccessoryDriver on a real loop with a real temp directory."""

    def __init__(self, ctl: Ctl, initial: List[dict], with_loop=True, write_initial=True):
        ad, _, _ = _pyhap()
        self.dir = tempfile.mkdtemp(prefix="c15-")
        self.scratch = tempfile.mkdtemp(prefix="c15s-")
        self.path = os.path.join(self.dir, STATE_FILE)
        self.ctl = ctl
        self.hooks = Hooks(self.dir, ctl.arrive)
        self.loop = asyncio.new_event_loop() if with_loop else None
        kw = dict(
            persist_file=self.path, address="127.0.0.1", port=51826, mac="AA:BB:CC:DD:EE:FF", pincode=b"031-45-154"
        )
        if with_loop:
            self.driver = ad.AccessoryDriver(loop=self.loop, **kw)
        else:
            lp = asyncio.new_event_loop()
            self.driver = ad.AccessoryDriver(loop=lp, **kw)
            lp.close()
        self.state = self.driver.state
        for op in initial:
            apply_op_state(self.state, op)
        self.hooks.observe_state(self.state)
        self.orig_encode = self.hooks.wrap_encoder(self.driver.encoder)
        self.njobs = 0
        self.deep = False
        self.threads: List[threading.Thread] = []
        self.futs: List[Any] = []
        self.versions: List[dict] = []  # canonical in-memory state per version
        self.chunks: List[List[str]] = []  # what encoder.persist writes for that version
        self.changer: Optional[threading.Thread] = None
        self.change_error: Optional[BaseException] = None
        if write_initial:
            self.driver.persist()  # not a job: no events
        self.init_text = self.read_target()
        self.record_version()
        self.comp_index = self._probe_read_order()
        if with_loop:
            self._patch_executor()

    # -- bookkeeping
    def _probe_read_order(self) -> Dict[str, int]:
        """In which order does the encoder read the persisted attributes of the state?  (component numbers
        of the model = positions in this order)"""
        order: List[str] = []
        base = type(self.state).__mro__[1]

        class Probe:
            def __getattr__(_s, name):
                if name in COMPONENTS and name not in order:
                    order.append(name)
                return base.__getattribute__(self.state, name)

        self.orig_encode(_Recorder(), Probe())
        for n in COMPONENTS:  # never read: numbered last (a store into it is still a store)
            if n not in order:
                order.append(n)
        self.nread = len([n for n in order])  # all of them are expected to be read
        return {n: i for i, n in enumerate(order)}

    def change(self):
        """Bracket around a change of the state made by the calling thread."""
        hooks = self.hooks

        class _B:
            def __enter__(_s):
                hooks.begin_change()

            def __exit__(_s, *a):
                hooks.end_change()

        return _B()

    def record_version(self):
        self.versions.append(ref.canon_state(self.state))
        rec = _Recorder()
        self.orig_encode(rec, self.state)
        self.chunks.append(rec.chunks)

    def read_target(self) -> Optional[str]:
        try:
            with open(self.path, "r", encoding="utf8", errors="replace") as fh:
                return fh.read()
        except FileNotFoundError:
            return None

    def temp_names(self) -> set:
        return {n for n in os.listdir(self.dir) if n != STATE_FILE}

    def temps(self) -> List[str]:
        out = []
        for n in sorted(os.listdir(self.dir)):
            if n != STATE_FILE:
                with open(os.path.join(self.dir, n), "r", encoding="utf8", errors="replace") as fh:
                    out.append(fh.read())
        return sorted(out)

    # -- jobs
    def _job_fn(self, fn, jid):
        hooks, ctl = self.hooks, self.ctl

        def job():
            hooks.set_job(jid)
            outcome = "raised"
            try:
                ctl.arrive(jid, "begin")
                r = fn()
                outcome = "ok"
                return r
            finally:
                hooks._log(jid, "end", outcome)
                hooks.set_job(None)
                ctl.finish(jid, outcome)

        return job

    def _patch_executor(self):
        orig = self.loop.run_in_executor

        def run_in_executor(executor, fn, *args):
            if self.hooks.changing() and not getattr(self.hooks.tls, "recorded", False):
                # the save is submitted from inside a pairing change: note the state of memory now, before the
                # job exists (whatever it installs later must already be known to the oracle as a state that existed)
                self.hooks.tls.recorded = True
                self.record_version()
            with self.hooks.loglock:
                jid = self.njobs
                self.njobs += 1
                self.hooks.log.append((jid, "spawn", "ok"))
            f = orig(executor, self._job_fn(lambda: fn(*args), jid))
            self.futs.append(f)
            return f

        self.loop.run_in_executor = run_in_executor

    def direct_job(self):
        """driver.persist() called synchronously (as add_accessory / config_changed do), in a helper
        thread so that a save that blocks forever is reported instead of hanging the check."""
        with self.hooks.loglock:
            jid = self.njobs
            self.njobs += 1
            self.hooks.log.append((jid, "spawn", "ok"))
        box: Dict[str, Any] = {}

        def target():
            try:
                self._job_fn(self.driver.persist, jid)()
                box["r"] = "ok"
            except Exception as ex:  # noqa: BLE001
                box["r"] = ex

        t = threading.Thread(target=target, daemon=True)
        t.start()
        t.join(HANG_S)
        if t.is_alive():
            raise Hung(f"persist() did not return within {HANG_S:.0f} s")
        return box["r"]

    def spawn_job(self):
        """driver.persist() from some other thread, not preceded by a pairing change (what
        config_changed() does), running concurrently with the background jobs."""
        with self.hooks.loglock:
            jid = self.njobs
            self.njobs += 1
            self.hooks.log.append((jid, "spawn", "ok"))
        fn = self._job_fn(self.driver.persist, jid)

        def target():
            try:
                fn()
            except Exception:  # noqa: BLE001
                pass

        t = threading.Thread(target=target, daemon=True)
        t.start()
        self.threads.append(t)

    def mutate(self, op, until=None, timeout=0.15) -> str:
        """A pairing change through the public driver API, on a thread of its own that plays the loop thread
        (so that a change that has to wait for a save is seen as 'blocked' instead of wedging the check).
        until = ["mwrite:<attribute>", n]: park the change before its n-th store into that attribute.
        Returns 'done' | 'parked' | 'blocked' | 'busy' (the previous change has not ended yet)."""
        if self.changer is not None and self.changer.is_alive():
            return "busy"
        ctl = self.ctl
        with ctl.cond:
            ctl.ended.pop(CHANGER, None)
            ctl.parked.pop(CHANGER, None)
            for k in [k for k in ctl.count if k[0] == CHANGER]:
                del ctl.count[k]
            ctl.stop[CHANGER] = None if until is None else {tuple(until)}

        async def go():
            self.hooks.begin_change()
            self.hooks.tls.recorded = False
            try:
                if op["op"] == "pair":
                    self.driver.pair(op["id"].encode(), bytes.fromhex(op["key"]), bytes([op["perm"]]))
                else:
                    self.driver.unpair(uuid.UUID(op["id"]))
            finally:
                self.hooks.end_change()
            if not self.hooks.tls.recorded:
                self.record_version()

        def run():
            try:
                self.loop.run_until_complete(go())
            except BaseException as ex:  # noqa: BLE001
                self.change_error = ex
            finally:
                ctl.finish(CHANGER, "ok")

        t = threading.Thread(target=run, daemon=True)
        self.changer = t
        t.start()
        deadline = time.monotonic() + timeout
        with ctl.cond:
            while CHANGER not in ctl.ended and CHANGER not in ctl.parked:
                rem = deadline - time.monotonic()
                if rem <= 0:
                    return "blocked"
                ctl.cond.wait(rem)
            return "done" if CHANGER in ctl.ended else "parked"

    def settle_changer(self, timeout):
        """Wait until the pairing change in flight (if any) has ended or is parked; if it does neither within
        `timeout` it is waiting for a lock that a parked save holds, which is stable too."""
        ctl = self.ctl
        if not self.change_in_flight():
            return
        deadline = time.monotonic() + timeout
        with ctl.cond:
            while CHANGER not in ctl.ended and CHANGER not in ctl.parked:
                rem = deadline - time.monotonic()
                if rem <= 0:
                    return
                ctl.cond.wait(rem)
        if CHANGER in ctl.ended and self.changer is not None:
            self.changer.join(1.0)

    def change_in_flight(self) -> bool:
        return self.changer is not None and self.changer.is_alive()

    def join_changer(self):
        if self.changer is not None:
            self.changer.join(HANG_S)
            if self.changer.is_alive():
                raise Hung(f"a pairing change did not return within {HANG_S:.0f} s")
        if self.change_error is not None:
            ex, self.change_error = self.change_error, None
            raise RuntimeError(f"pairing change raised {type(ex).__name__}: {ex}")

    def drain(self):
        self.ctl.release_all()
        self.join_changer()
        if self.futs:

            async def wait():
                return await asyncio.wait_for(asyncio.gather(*self.futs, return_exceptions=True), HANG_S)

            try:
                self.loop.run_until_complete(wait())
            except asyncio.TimeoutError:
                raise Hung(f"background save jobs did not finish within {HANG_S:.0f} s") from None
        for t in self.threads:
            t.join(HANG_S)
            if t.is_alive():
                raise Hung(f"a direct persist() call did not return within {HANG_S:.0f} s")

    def close(self):
        try:
            if self.loop is not None and not self.loop.is_closed():
                try:
                    self.loop.run_until_complete(asyncio.wait_for(self.loop.shutdown_default_executor(), 5))
                except Exception:  # noqa: BLE001
                    pass
                try:
                    self.loop.close()
                except Exception:  # noqa: BLE001  (a change that never returned still runs the loop)
                    pass
        finally:
            shutil.rmtree(self.dir, ignore_errors=True)
            shutil.rmtree(self.scratch, ignore_errors=True)


class _Recorder:
    def __init__(self):
        self.chunks: List[str] = []

    def write(self, s):
        self.chunks.append(s)
        return len(s)


# --------------------------------------------------------------------------- oracle


def loadable(path) -> Optional[dict]:
    """Load the file with the real loader into a fresh State; canonical view or None."""
    _, enc, st = _pyhap()
    try:
        s = st.State(address="127.0.0.1", mac="00:00:00:00:00:00", pincode=b"000-00-000", port=1)
        with open(path, "r", encoding="utf8") as fh:
            enc.AccessoryEncoder().load_into(fh, s)
        return ref.canon_state(s)
    except Exception:  # noqa: BLE001
        return None


def judge_file(path, allowed: List[Tuple[str, Optional[dict]]]) -> Tuple[Optional[str], str]:
    """Which allowed state (by label) the file is a complete loadable copy of; (None, why) if none.
    An allowed state of None stands for 'no file' (there was no previous state)."""
    exists = os.path.lexists(path)
    got = ref.canon_file(path) if exists else None
    if not exists:
        for name, c in allowed:
            if c is None:
                return name, ""
        return None, "the state file does not exist"
    if got is None:
        try:
            size = os.path.getsize(path)
        except OSError:
            size = -1
        return None, f"the state file ({size} bytes) is not a complete document"
    for name, c in allowed:
        if c is not None and got == c:
            ld = loadable(path)
            if ld != c:
                return None, f"the state file parses but the real loader does not restore it ({ref.diff(ld, c)})"
            return name, ""
    return None, "the state file matches no allowed state: " + "; ".join(
        f"vs {name}: {ref.diff(got, c)}" for name, c in allowed if c is not None
    )


def restart_check(path: str, expect: Optional[dict]) -> Optional[str]:
    """A real restart on the directory exactly as the dead process left it (stray temp files included): a new
    driver on the same persist file, add_accessory() (which loads the file, or stores a first one).  None if
    the restarted accessory holds `expect` (None: there was no file, any fresh identity will do) and its next
    save stores its state; else why not."""
    ad, _, _ = _pyhap()
    from pyhap.accessory import Accessory

    loop = asyncio.new_event_loop()
    try:
        drv = ad.AccessoryDriver(
            loop=loop, persist_file=path, address="127.0.0.1", port=51827, mac="11:22:33:44:55:66", pincode=b"031-45-154"
        )
        drv.add_accessory(Accessory(drv, "Lamp"))
        got = ref.canon_state(drv.state)
        if expect is not None and got != expect:
            return "the restarted accessory does not hold the state of the file: " + ref.diff(got, expect)
        drv.persist()
        if ref.canon_file(path) != ref.canon_state(drv.state):
            return "the first save after the restart does not store the accessory's state"
        return None
    except Exception as ex:  # noqa: BLE001
        return f"the restart raised {type(ex).__name__}: {ex}"
    finally:
        loop.close()


# --------------------------------------------------------------------------- model side


def translate(rlog: List[Tuple[Any, str, str]], comp_index: Dict[str, int], crashed=False):
    """Observed events -> model labels and the step names the model must report for them.
    A store of a change is `mwrite c`, its end `mend` (no job: the submission is the `spawn` that follows);
    every attribute read of a save is a step of its own; after the last attribute has been read the save
    moves on to writing (`dump`, no event of its own)."""
    ncomp = len(comp_index)
    last_io: Dict[Any, int] = {}
    ended = set()
    for i, (j, p, _) in enumerate(rlog):
        if is_step(p):
            last_io[j] = i
        if p == "end":
            ended.add(j)
    # a save that reaches its close has left `with state.lock` before (no event of its own): that step is placed
    # right after the save's last step before the close (its last chunk write)
    release_after = set()
    prev_step: Dict[Any, int] = {}
    for i, (j, p, _) in enumerate(rlog):
        if p == "close" and j in prev_step:
            release_after.add(prev_step[j])
        if is_step(p):
            prev_step[j] = i
    labels: List[list] = []
    names: List[str] = []
    nreads: Dict[Any, int] = {}
    for i, (j, p, o) in enumerate(rlog):
        if p == "mbegin":
            labels.append(["mbegin"])
            names.append("mbegin")
        elif p.startswith("mwrite:"):
            c = comp_index[p[7:]]
            labels.append(["mwrite", c])
            names.append(f"mwrite{c}")
        elif p == "mend":
            labels.append(["mend", False])
            names.append("mend")
        elif p == "spawn":
            labels.append(["spawn"])
            names.append("spawn")
        elif is_step(p):
            if p == "mktemp":
                labels.append(["adv", j])
                names.append(f"{j}:start")
            labels.append(["adv" if o == "ok" else "fault", j])
            if p.startswith("read:"):
                names.append(f"{j}:read{comp_index[p[5:]]}" + ("" if o == "ok" else "!"))
                if o == "ok":
                    nreads[j] = nreads.get(j, 0) + 1
                    if nreads[j] == ncomp:
                        labels.append(["adv", j])
                        names.append(f"{j}:dump")
            else:
                names.append(f"{j}:{p}" + ("" if o == "ok" else "!"))
            if i in release_after:
                labels.append(["adv", j])
                names.append(f"{j}:release")
            if last_io.get(j) == i and j in ended:
                labels.append(["adv", j])
                names.append(f"{j}:unlock")
    if crashed:
        labels.append(["crash"])
        names.append("crash")
    return labels, names


def model_case(rig_init: Optional[str], chunks: List[List[str]], labels, names, ncomp: int):
    """chunks[k] = what the encoder writes for the state after the k-th change (k = 0: the start state).
    The serialisation table of the model maps the vector of component versions at each change boundary
    (counted off the labels) to those chunks; a vector that is no such state has no entry."""
    table: Dict[int, str] = {}
    ser = []
    vec = [0] * ncomp
    k = 0

    def entry():
        if k < len(chunks):
            cs = chunks[k]
            assert len(cs) < 1000
            ids = [k * 1000 + i for i in range(len(cs))]
            for i, c in zip(ids, cs):
                table[i] = c
            if not any(v == vec for v, _ in ser):
                ser.append([list(vec), ids])

    entry()
    for lab in labels:
        if lab[0] == "mwrite":
            vec[lab[1]] += 1
        elif lab[0] == "mend":
            k += 1
            entry()
    init = None
    if rig_init is not None:
        init = [INIT_ID]
        table[INIT_ID] = rig_init
    line = {
        "layer": "persist", "op": "run", "locked": True, "slocked": True, "mem0": [0] * ncomp, "ser": ser,
        "init": init, "labels": labels,
    }
    return {"line": line, "table": table, "names": names}


def norm_steps(steps: List[str]) -> List[str]:
    out = []
    for s in steps:
        k = s.find(":unlock")
        out.append(s[: k + 7] if k >= 0 else s)
    return out


def compare_model(mc, ans, target: Optional[str], temps: List[str], crash=False) -> Optional[dict]:
    """None if the model's prediction equals the real directory; else a description."""
    tbl = mc["table"]
    if ans.get("blocked") is not None:
        return {"why": "schedule not executable in the model", "blocked_at": ans["blocked"], "steps": ans.get("steps", [])[-4:]}
    if norm_steps(ans["steps"]) != mc["names"]:
        for i, (a, b) in enumerate(zip(norm_steps(ans["steps"]), mc["names"])):
            if a != b:
                return {"why": "step names differ", "index": i, "model": a, "impl": b}
        return {"why": "step count differs", "model": len(ans["steps"]), "impl": len(mc["names"])}
    def text(ids):
        return "".join(tbl.get(i, "<a mix of two states>") for i in ids)

    mt = None if ans["target"] is None else text(ans["target"])
    if mt != target:
        return {"why": "state file differs", "model": _short(mt), "impl": _short(target)}
    mtemps = sorted(text(ids) for _, ids in ans["temps"])
    if len(mtemps) != len(temps):
        return {"why": "number of temp files differs", "model": len(mtemps), "impl": len(temps)}
    if crash:
        # user-space buffering: what reached the file may lag behind the writes performed
        if not all(any(m.startswith(t) for m in mtemps) for t in temps):
            return {"why": "temp content is not a prefix of the model's", "model": [_short(m) for m in mtemps]}
    elif mtemps != temps:
        return {"why": "temp contents differ", "model": [_short(m) for m in mtemps], "impl": [_short(t) for t in temps]}
    return None


def _short(x):
    if x is None:
        return None
    s = str(x)
    return s if len(s) < 100 else s[:60] + f"...<{len(s)} chars>..." + s[-20:]


# --------------------------------------------------------------------------- stream: crash


def _pyhap_dir():
    import pyhap

    return os.path.dirname(os.path.abspath(pyhap.__file__)) + os.sep


def _crash_child(rig: Rig, k: int, wfd: int):
    """Forked child: run one save, die at the k-th line event inside it.  Never returns."""
    try:
        pdir = _pyhap_dir()
        json_dump = json.dump.__code__
        cnt = [0]

        def local(frame, event, arg):
            if event == "line":
                cnt[0] += 1
                if cnt[0] == k:
                    os._exit(0)
            return local

        here = __file__
        deep = rig.deep

        def tracer(frame, event, arg):
            co = frame.f_code
            if co is json_dump or co.co_filename.startswith(pdir):
                return local
            if deep and co.co_filename != here:
                return local  # every Python frame under the save (stdlib included), not the wrappers
            return None

        rig.hooks.sink = wfd
        rig.hooks.mark = lambda: cnt[0]
        rig.hooks.install()
        rig.hooks.set_job(0)
        os.write(wfd, b"0 spawn ok\n")
        sys.settrace(tracer)
        outcome = "ok"
        try:
            rig.driver.persist()
        except Exception:  # noqa: BLE001  a handled failure (injected fault): the save raised
            outcome = "raised"
        finally:
            sys.settrace(None)
        os.write(wfd, f"0 end {outcome}\nlines {cnt[0]}\n".encode())
        os._exit(7)
    except BaseException as ex:  # noqa: BLE001
        try:
            os.write(wfd, f"error {type(ex).__name__}: {ex}\n".encode())
        finally:
            os._exit(9)


def crash_scenario(ctx: Ctx, scn: dict, model_cases: list, only_k: Optional[int] = None, verbose=False):
    """prev on disk (or nothing), `new` in memory, one save killed at line event k, for every k."""
    st = ctx.stats
    ctl = Ctl(faults=[(0, *f) for f in scn.get("faults", [])])
    rig = Rig(ctl, scn["initial"], with_loop=False, write_initial=scn["prev_on_disk"])
    rig.deep = bool(scn.get("deep"))
    try:
        prev = ref.canon_state(rig.state) if scn["prev_on_disk"] else None
        prev_bytes = None
        if scn["prev_on_disk"]:
            with open(rig.path, "rb") as fh:
                prev_bytes = fh.read()
        for op in scn["ops"]:
            apply_op_state(rig.state, op)
        new = ref.canon_state(rig.state)
        rec = _Recorder()
        rig.orig_encode(rec, rig.state)
        new_chunks = rec.chunks
        base_dir = rig.dir
        stride = 1 if only_k else int(scn.get("stride", 1))
        k = only_k or int(scn.get("offset", 1))
        total = None
        probing = bool(scn.get("faults")) and not only_k  # first an unkilled run: where does the fault strike?
        if probing:
            k = 10 ** 9
        mark = None
        while True:
            d = tempfile.mkdtemp(prefix="c15k-")
            path = os.path.join(d, STATE_FILE)
            if prev_bytes is not None:
                with open(path, "wb") as fh:
                    fh.write(prev_bytes)
            rig.driver.persist_file = path
            rig.dir = d
            rig.path = path
            rig.hooks.dir = os.path.abspath(d)
            rfd, wfd = os.pipe()
            sys.stdout.flush()
            sys.stderr.flush()
            pid = os.fork()
            if pid == 0:
                os.close(rfd)
                _crash_child(rig, k, wfd)
            os.close(wfd)
            data = b""
            while True:
                b = os.read(rfd, 65536)
                if not b:
                    break
                data += b
            os.close(rfd)
            _, status = os.waitpid(pid, 0)
            code = os.waitstatus_to_exitcode(status)
            lines = data.decode().splitlines()
            if code not in (0, 7):
                shutil.rmtree(d, ignore_errors=True)
                raise RuntimeError(f"crash child failed (exit {code}): {lines[-1:]}")
            rlog = []
            for ln in lines:
                parts = ln.split()
                if parts[0] == "lines":
                    total = int(parts[1])
                elif parts[0] == "mark":
                    mark = int(parts[1]) if mark is None else mark
                else:
                    rlog.append((int(parts[0]), parts[1], parts[2]))
            crashed = code == 0
            faulted = any(e[2] == "fault" for e in rlog)
            allowed = [("previous", prev), ("new", new)] if (crashed or faulted) else [("new", new)]
            which, why = judge_file(path, allowed)
            target = rig.read_target()
            temps = rig.temps()
            replay = {"kind": "crash", "scenario": scn, "k": k}
            if which is not None and crashed and (not rig.deep or k % 5 == 0 or only_k):
                bad = restart_check(path, dict(allowed)[which])
                st.hit("outcome", "crash:restart=" + ("ok" if bad is None else "BROKEN"))
                if bad is not None:
                    ctx.fail(
                        "C15:restart-after-crash-does-not-restore-state",
                        f"process killed at source-line event {k} of the save, the state file is a complete copy of the "
                        f"{which} state, {len(temps)} stray temp file(s); then a new driver was started on that directory: {bad}",
                        replay,
                    )
            if which is None:
                sig = (
                    "C15:crash-leaves-incomplete-state-file" if crashed
                    else "C15:failed-save-leaves-incomplete-state-file" if faulted
                    else "C15:save-does-not-store-new-state"
                )
                pre = f"with injected faults {scn['faults']}, " if scn.get("faults") else ""
                ctx.fail(
                    sig,
                    pre + (f"process killed at source-line event {k} of the save: {why}"
                    if crashed
                    else f"a save that {'failed' if faulted else 'returned normally'} left a file that is not the {'previous or the ' if faulted else ''}new state: {why}"),
                    replay,
                )
            st.hit("op", "crash-point")
            st.hit("outcome", f"crash:file={which or 'BROKEN'}" + (f":temps={len(temps)}" if temps else ""))
            npoints = sum(1 for e in rlog if is_step(e[1]))
            st.case(["crash", scn["name"], k], crashed)
            labels, names = translate(rlog, rig.comp_index, crashed=crashed)
            mc = model_case(None if prev_bytes is None else prev_bytes.decode(), [new_chunks], labels, names, len(rig.comp_index))
            mc.update(stream="crash", case={"scenario": scn["name"], "k": k, "events": npoints}, target=target, temps=temps, crash=True)
            if not rig.deep:  # inside library frames a wrapped call may be half done: oracle only
                model_cases.append(mc)
            if verbose:
                print(f"crash at line event {k}: events={[e[1] for e in rlog]} file={which or 'BROKEN: ' + why} temps={len(temps)}")
            if crashed and which == "new" and not any(isinstance(s, dict) and s.get("stream") == "crash" for s in st.samples):
                st.sample(
                    {"stream": "crash", "scenario": scn["name"], "killed_at_line_event": k, "last_io_calls_before_death": [e[1] for e in rlog if is_step(e[1])][-4:], "file_is": which, "stray_temps": len(temps)}
                )
            shutil.rmtree(d, ignore_errors=True)
            if probing:
                probing = False
                if mark is None:  # the fault never struck: nothing to enumerate
                    break
                k = mark + 1  # every kill point after the failed call, up to the end of the save
                continue
            if only_k or not crashed:
                break
            k += stride
        rig.dir = base_dir
        return total
    finally:
        rig.hooks.uninstall()
        rig.close()


def crash_scenarios(ctx: Ctx) -> List[dict]:
    rng = ctx.rng
    out = []
    i0, ops = mk_ops(rng, 1, 1)
    ops = [o for o in ops if o["op"] == "pair"] or [mk_ops(rng, 0, 1)[1][0]]
    out.append({"name": "add-second-controller", "initial": i0, "ops": ops, "prev_on_disk": True})
    i0, ops = mk_ops(rng, 0, 1)
    out.append({"name": "first-save-no-file", "initial": i0, "ops": ops, "prev_on_disk": False})
    # the same save with every Python frame under it traced (stdlib included): all points in the thorough
    # tier, every 7th (seeded offset) in the quick tier
    # fault pair (failing call, kill): the install call fails, then the process is killed at every later
    # line of any Python frame of that save (a fallback path taken only after the failure lives there)
    kinds = list(ERRNOS[1:])
    rng.shuffle(kinds)
    kinds = ["os", "EBUSY", "EXDEV"] + [k for k in kinds if k not in ("EBUSY", "EXDEV")][: (1 if ctx.quick else 9)]
    for kind in kinds:
        f = ["replace", 1] + ([kind] if kind != "os" else [])
        out.append(dict(out[0], name=f"replace-fails-{kind}-then-killed", deep=True, faults=[f]))
    out.append(dict(out[0], name="close-fails-then-killed", deep=True, faults=[["close", 1]]))
    if ctx.quick:
        out.append(dict(out[0], name="add-second-controller-every-python-frame", deep=True, stride=7, offset=rng.randrange(1, 8)))
    else:
        out.append(dict(out[0], name="add-second-controller-every-python-frame", deep=True))
        i0, _ = mk_ops(rng, 3, 0)
        out.append({"name": "remove-controller-shrinks-file", "initial": i0, "ops": [{"op": "unpair", "id": i0[1]["id"]}], "prev_on_disk": True})
        for n in range(ctx.n(0, 3)):
            i0, ops = mk_ops(rng, rng.randrange(0, 4), rng.randrange(1, 3))
            out.append({"name": f"random-{n}", "initial": i0, "ops": ops, "prev_on_disk": True})
    if _lite(ctx):  # bounded repeat (interpreter variant): every 3rd kill point, fewer fault pairs
        keep = [s for s in out if not s.get("faults")] + [s for s in out if s.get("faults")][:2]
        out = [dict(s, stride=max(int(s.get("stride", 1)), 3), offset=s.get("offset", rng.randrange(1, 4))) for s in keep]
    return out


def _lite(ctx: Ctx) -> bool:
    """A bounded repeat of the run (harness/check.py: interpreter variants): enumerations are thinned out."""
    return getattr(ctx, "budget_scale", 1.0) < 1.0


# --------------------------------------------------------------------------- stream: fault


def fault_case(ctx: Ctx, scn: dict, saves: List[List[list]], model_cases: list, verbose=False):
    """Consecutive saves of one driver; saves[i] = faults [[point, nth], ...] injected into save i.
    Before save i (i > 0) the next pairing change of the scenario is applied."""
    if getattr(ctx, "hung", False):
        return {}
    st = ctx.stats
    faults = [(i, *f) for i, fs in enumerate(saves) for f in fs]  # f = [point, nth] or [point, nth, "rt"]
    ctl = Ctl(faults=faults)
    rig = Rig(ctl, scn["initial"], with_loop=False, write_initial=scn["prev_on_disk"])
    replay = {"kind": "fault", "scenario": scn, "saves": saves}
    try:
        ops = list(scn["ops"])
        on_disk = ("previous", rig.versions[0] if scn["prev_on_disk"] else None)
        with rig.hooks:
            for i, fs in enumerate(saves):
                changed = bool(ops)
                if changed:
                    with rig.change():
                        apply_op_state(rig.state, ops.pop(0))
                    rig.record_version()
                new = ("new", rig.versions[-1])
                before = rig.temp_names()
                r = rig.direct_job()
                left = rig.temp_names() - before
                fired = [f for f in ctl.fired if f[0] == i]
                raised = r != "ok"
                allowed = [on_disk, new] if (fired or raised) else [new]
                which, why = judge_file(rig.path, allowed)
                temps = rig.temps()
                desc = f"save {i} with injected faults {[(p, n, ctl.kinds.get((jj, p, n), 'os')) for jj, p, n in fired]}"
                if which is None:
                    sig = "C15:failed-save-leaves-incomplete-state-file" if (fired or raised) else "C15:save-does-not-store-new-state"
                    ctx.fail(sig, f"{desc} ({'raised ' + type(r).__name__ if raised else 'returned'}): {why}", replay)
                    on_disk = ("unknown", None)
                else:
                    if which == "new":
                        on_disk = ("previous", rig.versions[-1])
                cleanup_faulted = any(p in CLEANUP_POINTS for _, p, _ in fired)
                if raised and left and not cleanup_faulted:
                    ctx.fail(
                        "C15:handled-failure-leaves-temp-file",
                        f"{desc} raised {type(r).__name__} out of persist() and left {len(left)} temp file(s) in the directory",
                        replay,
                    )
                st.hit("op", "save-with-fault" if fired else "save-clean")
                st.hit(
                    "outcome",
                    "fault:" + ("+".join(sorted({p for _, p, _ in fired})) or "none") + f":file={which or 'BROKEN'}:"
                    + ("raised" if raised else "returned") + (":temp-left" if left else ""),
                )
                if verbose:
                    print(f"save {i}: faults fired {[(p, n) for _, p, n in fired]} -> {'raised ' + type(r).__name__ if raised else 'returned'}; file={which or 'BROKEN: ' + why}; temps={len(temps)}")
        st.case(["fault", scn["name"], saves], bool(ctl.fired))
        ctx.last_fault_log = list(rig.hooks.log)
        labels, names = translate(rig.hooks.log, rig.comp_index)
        mc = model_case(rig.init_text, rig.chunks, labels, names, len(rig.comp_index))
        mc.update(stream="fault", case={"scenario": scn["name"], "saves": saves}, target=rig.read_target(), temps=rig.temps(), crash=False)
        model_cases.append(mc)
        return ctl.count
    except Hung as ex:
        ctx.hung = True  # threads of this process are stuck: stop exercising the save
        ctx.fail("C15:save-blocks-forever", f"fault case {saves}: {ex}", replay)
        return {}
    finally:
        rig.hooks.uninstall()
        rig.close()


def fault_stream(ctx: Ctx, model_cases: list):
    rng = ctx.rng
    st = ctx.stats
    scns = []
    i0, ops = mk_ops(rng, 1, 3)
    scns.append({"name": "one-controller", "initial": i0, "ops": ops, "prev_on_disk": True})
    i0, ops = mk_ops(rng, 0, 3)
    scns.append({"name": "first-save-no-file", "initial": i0, "ops": ops, "prev_on_disk": False})
    if not ctx.quick:
        i0, ops = mk_ops(rng, 3, 3)
        ops[0] = {"op": "unpair", "id": i0[2]["id"]}
        scns.append({"name": "shrinking", "initial": i0, "ops": ops, "prev_on_disk": True})
    if _lite(ctx):
        scns = scns[:1]
    for scn in scns:
        counts = fault_case(ctx, scn, [[]], model_cases)  # clean save: how often each call happens
        per_point = {p: counts.get((0, p), 0) for p in POINTS}
        st.notes.append(f"fault[{scn['name']}]: calls per clean save {per_point}")
        # every k-th call of every wrapped function, once; k = count+1 never fires (no fault)
        for p in POINTS:
            top = max(per_point[p], 1)
            for n in range(1, top + 2):
                fault_case(ctx, scn, [[[p, n]]], model_cases)
        # a failing read of each attribute of the state inside the encoder
        for name in COMPONENTS:
            fault_case(ctx, scn, [[["read:" + name, 1, "rt"]]], model_cases)
        # failures that are not OSErrors (a failing encoder / codec), at every kind of step
        for p in ("mktemp", "snapshot", "close", "replace"):
            fault_case(ctx, scn, [[[p, 1, "rt"]]], model_cases)
        for n in sorted({1, 2, max(per_point["write"] // 2, 1), max(per_point["write"], 1)}):
            fault_case(ctx, scn, [[["write", n, "rt"]]], model_cases)
        # fault sequences, adaptively: a first fault with each realistic errno, then a further fault at each
        # wrapped call the save still makes afterwards (whatever path it takes then: cleanup, or a fallback way
        # of installing the file, which may depend on the errno), up to three faults in one save
        def followers_of(log):
            seen: Dict[str, int] = {}
            out, last = [], -1
            evs = [(pt, oc) for jj, pt, oc in log if jj == 0 and pt not in ("begin", "end", "spawn")]
            for idx, (pt, oc) in enumerate(evs):
                if oc == "fault":
                    last = idx
            for idx, (pt, oc) in enumerate(evs):
                seen[pt] = seen.get(pt, 0) + 1
                if last >= 0 and idx > last:
                    out.append([pt, seen[pt]])
            return out

        budget = [ctx.n(400, 4000)]

        def explore(prefix, depth):
            if budget[0] <= 0:
                return
            budget[0] -= 1
            ctx.last_fault_log = []
            fault_case(ctx, scn, [prefix], model_cases)
            if len(prefix) > 1:
                st.hit("op", "fault-sequence-of-%d" % len(prefix))
            if depth >= 3:
                return
            fol = followers_of(ctx.last_fault_log)
            # consecutive writes of one copy are alike: first, second and last of each run of a point
            keep = []
            for pt in dict.fromkeys(f[0] for f in fol):
                same = [f for f in fol if f[0] == pt]
                keep += same[:2] + same[-1:] if len(same) > 3 else same
            for nxt in keep:
                for kind in (("os", "EIO") if depth < 2 else ("os",)):
                    explore(prefix + [nxt + ([kind] if kind != "os" else [])], depth + 1)

        for first in (["replace", 1], ["close", 1], ["write", 1], ["snapshot", 1], ["mktemp", 1]):
            for kind in ERRNOS:
                explore([first + ([kind] if kind != "os" else [])], 1)
        # a fault that provokes the cleanup, combined with a fault in the cleanup itself
        for p in ("snapshot", "write", "close", "replace"):
            for c in CLEANUP_POINTS:
                fault_case(ctx, scn, [[[p, 1], [c, 1]]], model_cases)
        # fault sequences over consecutive saves with pairing changes in between
        nw = max(per_point["write"], 1)
        for _ in range(ctx.n(12, 120)):
            saves = []
            for _ in range(rng.randrange(2, 4)):
                fs = []
                r = rng.random()
                if r < 0.7:
                    p = rng.choice(POINTS)
                    fs.append([p, rng.randrange(1, nw + 1) if p == "write" else 1] + (["rt"] if rng.random() < 0.3 else []))
                    if rng.random() < 0.25:
                        fs.append([rng.choice(CLEANUP_POINTS), 1])
                saves.append(fs)
            saves.append([])
            fault_case(ctx, scn, saves, model_cases)
    st.sample({"stream": "fault", "scenario": scns[0]["name"], "example": [[["write", 3]]], "meaning": "third chunk write of the save raises ENOSPC"})


# --------------------------------------------------------------------------- stream: schedule


def pause_points(nwrites: int) -> List[Optional[list]]:
    mid = max(2, nwrites // 2)
    # "x" = about to perform call x; "x+" = call x has just returned (differs from the next "before"
    # point exactly when something like a lock acquisition sits between the two calls)
    return [
        ["begin", 1], ["mktemp", 1], ["mktemp+", 1], ["snapshot", 1], ["write", 1], ["write+", 1], ["write", mid],
        ["snapshot+", 1], ["close", 1], ["close+", 1], ["replace", 1], ["replace+", 1], ["exists", 1], ["exists+", 1],
        None,
    ]


def schedule_case(ctx: Ctx, scn: dict, cmds: List[list], model_cases: list, timeout=0.15, faults=(), verbose=False, stop_after=None):
    """cmds: ["mut", op] (pairing change through driver.pair/unpair -> a background job; ["mut", op, [point, nth]]
    parks the change before that store, e.g. ["mwrite:paired_clients", 1]), ["runL"] (let a parked change run to
    its end), ["save"] (a direct driver.persist() from another thread, as config_changed() does),
    ["run", j, [point, nth] | None] (let job j run until it is about to perform that call / to its end; points are
    the I/O calls and "read:<attribute>" = the encoder's read of that attribute of the state).
    Returns per-run results.  At the end everything is released and awaited."""
    if getattr(ctx, "hung", False):
        return [], []
    st = ctx.stats
    ctl = Ctl(forced=True, faults=faults)
    rig = Rig(ctl, scn["initial"], with_loop=True, write_initial=True)
    replay = {"kind": "schedule", "scenario": {"name": scn["name"], "initial": scn["initial"]}, "cmds": cmds, "faults": [list(f) for f in faults]}
    results = []
    overlap = False
    try:
        mixed_seen = False
        loose: set = set()  # jobs that were let go after they did not reach their stop (waiting for a lock)

        def judge_instant(i):
            """Nothing moves right now (every party is parked, blocked or has ended): a kill at this instant
            leaves exactly this directory.  The state file must be a complete loadable copy of a state the
            accessory was in at a change boundary."""
            nonlocal mixed_seen
            if mixed_seen or fired_any():
                return
            rig.settle_changer(timeout)
            loose.difference_update(set(ctl.ended))
            if loose:  # a job that had to wait for a lock runs free now: not a stable instant
                st.hit("outcome", "sched:instant-not-judged(a-job-runs-free)")
                return
            allowed = [("initial", rig.versions[0])] + [(f"version{v}", c) for v, c in enumerate(rig.versions) if v > 0]
            if not rig.change_in_flight():
                allowed.append(("memory", ref.canon_state(rig.state)))
            seen_path = os.path.join(rig.scratch, "seen.state")  # one atomic look at the file
            try:
                shutil.copyfile(rig.path, seen_path)
            except FileNotFoundError:
                if os.path.lexists(seen_path):
                    os.remove(seen_path)
            which, why = judge_file(seen_path, allowed)
            if which is None:
                mixed_seen = True
                complete = ref.canon_file(seen_path) is not None
                ctx.fail(
                    "C15:state-file-mixes-two-states" if complete else "C15:crash-leaves-incomplete-state-file",
                    f"after forced step {i} ({cmds[i][0]}) of an interleaving of save jobs and pairing changes, with every "
                    "thread parked, blocked or finished (a kill here leaves exactly this directory): " + why,
                    dict(replay, stop_after=i),
                )
            st.hit("outcome", "sched:instant-file=" + (which.rstrip("0123456789") if which else "NO-STATE-THAT-EXISTED"))

        def fired_any():
            return bool(ctl.fired)

        with rig.hooks:
            for ci, c in enumerate(cmds):
                if stop_after is not None and ci > stop_after:
                    break
                if c[0] == "mut":
                    r = rig.mutate(c[1], c[2] if len(c) > 2 else None, timeout)
                    results.append(r)
                    st.hit("outcome", "sched:change-" + r)
                    judge_instant(ci)
                elif c[0] == "save":
                    rig.spawn_job()
                    results.append("job%d" % (rig.njobs - 1))
                elif c[0] == "runL":
                    r = ctl.run(CHANGER, c[1] if len(c) > 1 else None, timeout) if rig.changer is not None else "nochange"
                    results.append(r)
                    judge_instant(ci)
                else:
                    _, j, until = c
                    if j >= rig.njobs:
                        results.append("nojob")
                        continue
                    midsave = [x for x in list(ctl.parked) if x != j and ctl.parked.get(x, ("begin",))[0] != "begin"]
                    if j in ctl.ended:
                        midsave = []
                    elif midsave:
                        overlap = True
                    r = ctl.run(j, until, timeout)
                    results.append(r)
                    if r == "timeout":
                        loose.add(j)
                    st.hit("outcome", "sched:run-" + r + ("-while-another-job-is-mid-save" if midsave else ""))
                    judge_instant(ci)
            rig.drain()
        mem = ref.canon_state(rig.state)
        fired = list(ctl.fired)
        temps = rig.temps()
        if not fired:
            which, why = judge_file(rig.path, [("memory", mem)])
            if which is None:
                ctx.fail(
                    "C15:file-stale-after-interleaved-saves",
                    "all background save jobs finished but the state file is not the in-memory state: "
                    + why + f" (results of the forced steps: {results})",
                    replay,
                )
            st.hit("outcome", "sched:quiescent-file=" + ("memory" if which else "STALE"))
        else:
            allowed = [("initial", rig.versions[0])] + [(f"version{v}", c) for v, c in enumerate(rig.versions) if v > 0]
            which, why = judge_file(rig.path, allowed)
            if which is None:
                ctx.fail("C15:failed-save-leaves-incomplete-state-file", f"interleaved saves with faults {fired}: {why}", replay)
            if temps and not any(p in CLEANUP_POINTS for _, p, _ in fired):
                ctx.fail(
                    "C15:handled-failure-leaves-temp-file",
                    f"interleaved saves with faults {fired}: {len(temps)} temp file(s) left after all jobs ended",
                    replay,
                )
            st.hit("outcome", "sched:faulty-file=" + (which or "BROKEN"))
        st.hit("op", "schedule")
        st.case(["sched", scn["name"], cmds, [list(f) for f in faults]], overlap)
        labels, names = translate(rig.hooks.log, rig.comp_index)
        mc = model_case(rig.init_text, rig.chunks, labels, names, len(rig.comp_index))
        mc.update(stream="schedule", case={"scenario": scn["name"], "cmds": cmds, "faults": [list(f) for f in faults]}, target=rig.read_target(), temps=temps, crash=False)
        model_cases.append(mc)
        if verbose:
            print("forced steps:", list(zip([c[0:3] if c[0] != "mut" else ["mut", c[1]["op"]] for c in cmds], results)))
            print("events:", [f"{j}:{p}" if j is not None else p for j, p, _ in rig.hooks.log if p != "write"])
        return results, rig.hooks.log
    except Hung as ex:
        ctx.hung = True
        ctx.fail("C15:save-blocks-forever", f"schedule {cmds}: {ex}", replay)
        return results, []
    finally:
        rig.hooks.uninstall()
        rig.close()


def two_job_cmds(op1, op2, p, q, reverse):
    cmds = [["mut", op1], ["run", 0, p], ["mut", op2], ["run", 1, q]]
    cmds += [["run", 1, None], ["run", 0, None]] if reverse else [["run", 0, None], ["run", 1, None]]
    return cmds


def schedule_stream(ctx: Ctx, model_cases: list):
    rng = ctx.rng
    st = ctx.stats
    i0, ops = mk_ops(rng, 1, 2)
    ops = [o if o["op"] == "pair" else mk_ops(rng, 0, 1)[1][0] for o in ops]
    scn = {"name": "pair-pair", "initial": i0}
    # how many chunks does a save write here? (to place the mid-write pause)
    probe = Rig(Ctl(), i0, with_loop=False)
    nwrites = len(probe.chunks[0])
    probe.close()
    pts = pause_points(nwrites)
    blocked_p = set()
    sampled = False
    for p in pts:
        for q in [None] + (pts[:-1] if not _lite(ctx) else [["replace", 1]]):
            for reverse in (False, True):
                if q is None and reverse:
                    continue
                key = json.dumps(p)
                if ctx.quick and q is not None and any(f.signature == "C15:file-stale-after-interleaved-saves" for f in ctx.failures):
                    continue  # a failing schedule is already in hand: keep the quick run short
                if ctx.quick and key in blocked_p:
                    st.hit("outcome", "sched:skipped-equivalent(job1-blocked-until-job0-ends)")
                    continue
                res, rlog = schedule_case(ctx, scn, two_job_cmds(ops[0], ops[1], p, q, reverse), model_cases)
                if len(res) > 3 and (res[3] == "timeout" or res[2] == "blocked"):
                    # job 1 could not reach its pause point while job 0 sits at p (mutual exclusion at work), or the
                    # second pairing change itself had to wait for job 0's reads (job 1 did not exist yet): every q
                    # is then the same schedule
                    blocked_p.add(key)
                if not sampled and p == ["replace", 1] and q is None:
                    sampled = True
                    st.sample({"stream": "schedule", "cmds": "pair A -> job0; run job0 until os.replace; pair B -> job1; run job1 to end; run job0 to end", "forced_step_results": res, "events": [f"{j}:{e}" for j, e, _ in rlog if e not in ("write",) and j is not None]})
    # pair then unpair of the same controller, and unpair then pair
    i1, _ = mk_ops(rng, 2, 0)
    extra = mk_ops(rng, 0, 1)[1][0]
    for name, o1, o2 in (
        ("pair-unpair", extra, {"op": "unpair", "id": extra["id"]}),
        ("unpair-pair", {"op": "unpair", "id": i1[1]["id"]}, extra),
    ):
        for p in (["snapshot", 1], ["write", 1], ["replace", 1], ["exists", 1]):
            schedule_case(ctx, {"name": name, "initial": i1}, two_job_cmds(o1, o2, p, None, False), model_cases)
    # random schedules with 3-4 jobs
    for n in range(ctx.n(10, 150)):
        i0, ops = mk_ops(rng, rng.randrange(0, 3), rng.randrange(3, 5))
        cmds: List[list] = []
        njobs = 0
        pending = list(ops)
        while pending:
            if njobs == 0 or rng.random() < 0.45:
                if njobs and rng.random() < 0.2:
                    cmds.append(["save"])  # a save that no pairing change asked for
                else:
                    cmds.append(["mut", pending.pop(0)])
                njobs += 1
            else:
                cmds.append(["run", rng.randrange(njobs), rng.choice(pts)])
        for _ in range(rng.randrange(0, 3)):
            cmds.append(["run", rng.randrange(njobs), rng.choice(pts)])
        order = list(range(njobs))
        rng.shuffle(order)
        cmds += [["run", j, None] for j in order]
        faults = ()
        if not ctx.quick and rng.random() < 0.3:
            p = rng.choice(POINTS)
            faults = ((rng.randrange(njobs), p, rng.randrange(1, nwrites) if p == "write" else 1),)
        schedule_case(ctx, {"name": f"random-{n}", "initial": i0}, cmds, model_cases, timeout=0.1, faults=faults)


# --------------------------------------------------------------------------- stream: midread


def midread_stream(ctx: Ctx, model_cases: list):
    """Pairing changes that land *inside* the state reads of a save, and saves that read *inside* a pairing
    change: (a) a background save is parked before each attribute read of the encoder in turn (and before
    its first write / its close), a pairing change is made there, the save finishes, the change's own save
    runs; (b) a pairing change is parked before each of its stores in turn, a save (as config_changed() makes
    from another thread) runs meanwhile.  After every forced step the state file is judged: a complete
    loadable copy of a state the accessory was in at a change boundary (a kill there leaves that file)."""
    rng = ctx.rng
    st = ctx.stats
    i0, _ = mk_ops(rng, 2, 0)
    i0[1]["perm"] = 0  # one admin, one user
    probe = Rig(Ctl(), i0, with_loop=False)
    order = sorted(probe.comp_index, key=probe.comp_index.get)
    probe.close()
    st.notes.append(f"midread: the encoder reads the state's attributes in the order {order}")
    first = mk_ops(rng, 0, 1)[1][0]
    newc = dict(mk_ops(rng, 0, 1)[1][0], perm=1)
    seconds = [
        ("pair-new", newc),
        ("unpair-user", {"op": "unpair", "id": i0[1]["id"]}),
        ("unpair-last-admin-sweeps-all", {"op": "unpair", "id": i0[0]["id"]}),
    ]
    sampled = False
    read_points = [["read:" + n, 1] for n in order] + [["write", 1], ["close", 1]]
    for name, op2 in seconds:
        scn = {"name": "midread-" + name, "initial": i0 if name != "unpair-last-admin-sweeps-all" else i0}
        opA = first if name != "unpair-last-admin-sweeps-all" else dict(first, perm=0)
        for pt in read_points:
            if ctx.quick and name != "pair-new" and pt[0] in ("read:mac", "read:private_key", "read:public_key", "write"):
                continue
            if _lite(ctx) and (name != "pair-new" or pt[0] in ("read:mac", "read:private_key", "read:public_key")):
                continue
            cmds = [["mut", opA], ["run", 0, pt], ["mut", op2], ["run", 0, None], ["run", 1, None], ["runL"], ["run", 1, None]]
            res, rlog = schedule_case(ctx, scn, cmds, model_cases, timeout=0.1)
            st.hit("op", "midread:change-inside-a-save")
            if not sampled and pt[0] == "read:client_properties":
                sampled = True
                st.sample({"stream": "midread", "cmds": f"pair A -> job0; run job0 until it reads {pt[0][5:]}; {name}; run job0 to end; run job1", "forced_step_results": res, "events": [f"{j}:{e}" if j is not None else e for j, e, _ in rlog if e not in ("write",)][:40]})
    # (b) a save that reads while a change is half done
    stores_pair = ["uuid_to_bytes", "paired_clients", "client_properties"]
    for name, op2, stores in (
        ("pair-new", newc, stores_pair),
        ("unpair-user", {"op": "unpair", "id": i0[1]["id"]}, stores_pair),
        ("unpair-last-admin-sweeps-all", {"op": "unpair", "id": i0[0]["id"]}, stores_pair),
    ):
        for w in stores:
            for nth in (1, 2) if name == "unpair-last-admin-sweeps-all" and w != "uuid_to_bytes" else (1,):
                scn = {"name": "midchange-" + name, "initial": i0}
                cmds = [["mut", first], ["run", 0, None], ["mut", op2, ["mwrite:" + w, nth]], ["save"], ["run", 1, None], ["runL"], ["run", 1, None], ["run", 2, None]]
                schedule_case(ctx, scn, cmds, model_cases, timeout=0.1)
                st.hit("op", "midread:save-inside-a-change")
    # random: 2-3 changes and extra saves, parking points drawn from reads and stores
    pts_job = [["read:" + n, 1] for n in order[:6]] + [["mktemp", 1], ["write", 1], ["close", 1], ["replace", 1], None]
    pts_chg = [["mwrite:" + w, 1] for w in stores_pair] + [None, None]
    for n in range(ctx.n(8, 120)):
        ini, ops = mk_ops(rng, rng.randrange(1, 3), rng.randrange(2, 4))
        cmds: List[list] = []
        njobs = 0
        for op in ops:
            u = rng.choice(pts_chg)
            cmds.append(["mut", op] + ([u] if u else []))
            if u:
                if rng.random() < 0.6:
                    cmds.append(["save"])
                    njobs += 1
                    cmds.append(["run", njobs - 1, rng.choice(pts_job)])
                cmds.append(["runL"])
            njobs += 1
            for _ in range(rng.randrange(0, 3)):
                cmds.append(["run", rng.randrange(njobs), rng.choice(pts_job)])
        order_j = list(range(njobs))
        rng.shuffle(order_j)
        cmds += [["runL"]] + [["run", j, None] for j in order_j]
        schedule_case(ctx, {"name": f"midread-random-{n}", "initial": ini}, cmds, model_cases, timeout=0.1)
        st.hit("op", "midread:random")


# --------------------------------------------------------------------------- stream: twin


def twin_case(ctx: Ctx, scn: dict, verbose=False) -> None:
    """Two drivers whose state files are siblings in ONE directory (temp files of both are created there),
    saving concurrently from two threads, each with its own pairing changes; every `fail_every`-th save of
    driver A fails inside its (pluggable, public constructor parameter) encoder after a partial write.  At the
    end each file is its own driver's state and the directory holds nothing else."""
    ad, enc, _ = _pyhap()
    st = ctx.stats
    d = tempfile.mkdtemp(prefix="c15t-")
    replay = {"kind": "twin", "scenario": scn}
    try:
        calm: List[bool] = []  # non-empty: the failing encoder behaves (the last save of a driver is a clean one)

        class Failing(enc.AccessoryEncoder):
            n = 0

            def persist(self, fp, state):
                type(self).n += 1
                if scn["fail_every"] and not calm and type(self).n % scn["fail_every"] == 0:
                    fp.write('{"mac": "half a docu')
                    raise Injected(errno.ENOSPC, "injected: disk full inside the encoder")
                return enc.AccessoryEncoder.persist(fp, state)

        drivers = []
        for i, name in enumerate(("a.state", "b.state")):
            lp = asyncio.new_event_loop()
            kw = dict(loop=lp, persist_file=os.path.join(d, name), address="127.0.0.1", port=51830 + i, mac=f"AA:BB:CC:DD:EE:0{i}", pincode=b"031-45-154")
            drv = ad.AccessoryDriver(encoder=Failing(), **kw) if i == 0 else ad.AccessoryDriver(**kw)
            lp.close()
            drv.persist()
            drivers.append(drv)
        errors: List[str] = []
        raised = [0, 0]

        def work(i):
            drv = drivers[i]
            for op in scn["ops"][i]:
                apply_op_state(drv.state, op)
                try:
                    drv.persist()
                except Injected:
                    raised[i] += 1
                except Exception as ex:  # noqa: BLE001
                    errors.append(f"driver {i}: persist raised {type(ex).__name__}: {ex}")
            try:
                if i == 0:
                    calm.append(True)
                drv.persist()
            except Exception as ex:  # noqa: BLE001
                errors.append(f"driver {i}: final persist raised {type(ex).__name__}: {ex}")

        ts = [threading.Thread(target=work, args=(i,), daemon=True) for i in (0, 1)]
        for t in ts:
            t.start()
        for t in ts:
            t.join(HANG_S)
            if t.is_alive():
                raise Hung("a save of one of two drivers sharing a directory did not return")
        for e in errors:
            ctx.fail("C15:save-disturbed-by-sibling-driver", e, replay)
        for i, drv in enumerate(drivers):
            which, why = judge_file(drv.persist_file, [("memory", ref.canon_state(drv.state))])
            if which is None:
                ctx.fail("C15:file-stale-after-interleaved-saves", f"two drivers saving into one directory, driver {i}: {why}", replay)
        left = sorted(set(os.listdir(d)) - {"a.state", "b.state"})
        if left:
            ctx.fail("C15:handled-failure-leaves-temp-file", f"two drivers saving into one directory ({raised[0]} saves of driver 0 failed and were handled): {len(left)} temp file(s) left", replay)
        st.hit("op", "twin-run")
        st.hit("outcome", f"twin:failed-saves={'some' if raised[0] else 'none'}:left={len(left)}")
        st.case(["twin", scn], True)
        if verbose:
            print(f"two drivers, one directory: {raised[0]} handled failures; files ok; left over: {left}")
    except Hung as ex:
        ctx.hung = True
        ctx.fail("C15:save-blocks-forever", f"twin: {ex}", replay)
    finally:
        shutil.rmtree(d, ignore_errors=True)


def twin_stream(ctx: Ctx, model_cases: list):
    rng = ctx.rng
    for n in range(ctx.n(4, 40)):
        opsA = mk_ops(rng, 0, rng.randrange(3, 8))[1]
        opsB = mk_ops(rng, 0, rng.randrange(3, 8))[1]
        twin_case(ctx, {"name": f"twin-{n}", "ops": [opsA, opsB], "fail_every": rng.choice([0, 2, 3])})


# --------------------------------------------------------------------------- stream: spelling


def spelling_case(ctx: Ctx, scn: dict, verbose=False) -> None:
    """The spelling of persist_file as configuration (bare file name relative to the working directory - the
    constructor default is one -, relative path, absolute path, '~' path) in an environment where the system
    temp directory is ANOTHER FILE SYSTEM than the state file's directory (tmpfs /tmp, TMPDIR): os.replace
    from inside that temp directory to outside it fails with EXDEV, as rename(2) does across mounts.  Public
    API only: constructor, add_accessory() (stores the first file), pair()/unpair() on a loop, config_changed().
    Judged at quiescence: the state file, where the configured name puts it, equals the in-memory state; the
    directory in which the save created its temp file is reported."""
    if getattr(ctx, "hung", False):
        return
    ad, _, _ = _pyhap()
    from pyhap.accessory import Accessory

    st = ctx.stats
    root = tempfile.mkdtemp(prefix="c15n-")
    home = os.path.join(root, "home")
    work = os.path.join(root, "work")
    other_fs = os.path.join(root, "tmpfs")
    for d in (home, os.path.join(work, "conf"), other_fs):
        os.makedirs(d)
    spelled = {"bare": STATE_FILE, "relative": os.path.join("conf", STATE_FILE), "dot": os.path.join(".", STATE_FILE),
               "absolute": os.path.join(work, "conf", STATE_FILE), "home": os.path.join("~", STATE_FILE)}[scn["spelling"]]
    replay = {"kind": "spelling", "scenario": scn}
    real_replace, real_rename, real_ntf = os.replace, os.rename, tempfile.NamedTemporaryFile
    old_cwd, old_tmp, old_home = os.getcwd(), tempfile.tempdir, os.environ.get("HOME")
    temp_dirs: List[str] = []

    def inside(path, d):
        return os.path.commonpath([os.path.realpath(os.path.abspath(os.fspath(path))), os.path.realpath(d)]) == os.path.realpath(d)

    def cross(src, dst):
        if inside(src, other_fs) != inside(dst, other_fs):
            raise OSError(errno.EXDEV, "Invalid cross-device link", os.fspath(src))

    def replace(src, dst, *a, **kw):
        cross(src, dst)
        return real_replace(src, dst, *a, **kw)

    def rename(src, dst, *a, **kw):
        cross(src, dst)
        return real_rename(src, dst, *a, **kw)

    def ntf(*a, **kw):
        f = real_ntf(*a, **kw)
        temp_dirs.append(os.path.dirname(os.path.abspath(f.name)))
        return f

    loop = asyncio.new_event_loop()
    errors: List[str] = []
    try:
        os.chdir(work)
        os.environ["HOME"] = home
        tempfile.tempdir = other_fs
        os.replace, os.rename, tempfile.NamedTemporaryFile = replace, rename, ntf
        where = os.path.abspath(os.path.expanduser(spelled))
        driver = ad.AccessoryDriver(loop=loop, persist_file=spelled, address="127.0.0.1", port=51850, mac="AA:BB:CC:DD:EE:20", pincode=b"031-45-154")
        try:
            driver.add_accessory(Accessory(driver, "Lamp"))  # no file yet: stores the first one
        except Exception as ex:  # noqa: BLE001
            errors.append(f"add_accessory raised {type(ex).__name__}: {ex}")
        futs = []
        orig_rie = loop.run_in_executor

        def rie(executor, fn, *args):
            f = orig_rie(executor, fn, *args)
            futs.append(f)
            return f

        loop.run_in_executor = rie

        async def go():
            for op in scn["ops"]:
                if op["op"] == "pair":
                    driver.pair(op["id"].encode(), bytes.fromhex(op["key"]), bytes([op["perm"]]))
                elif op["op"] == "unpair":
                    if uuid.UUID(op["id"]) in driver.state.paired_clients:
                        driver.unpair(uuid.UUID(op["id"]))
                await asyncio.sleep(0)
            for r in await asyncio.wait_for(asyncio.gather(*futs, return_exceptions=True), HANG_S):
                if isinstance(r, BaseException):
                    errors.append(f"a background save raised {type(r).__name__}: {r}")

        loop.run_until_complete(go())
        if scn.get("config_changed"):
            try:
                driver.config_changed()
            except Exception as ex:  # noqa: BLE001
                errors.append(f"config_changed raised {type(ex).__name__}: {ex}")
        mem = ref.canon_state(driver.state)
        which, why = judge_file(where, [("memory", mem)])
        state_dir = os.path.dirname(where)
        outside = sorted({d for d in temp_dirs if os.path.realpath(d) != os.path.realpath(state_dir)})
        left = [n for d in {state_dir, other_fs} for n in os.listdir(d) if n != STATE_FILE and os.path.isfile(os.path.join(d, n))]
        st.hit("op", "spelling-run")
        st.hit("outcome", f"spelling[{scn['spelling']}]:file=" + ("memory" if which else "STALE") + (":temp-outside-state-dir" if outside else ""))
        st.case(["spelling", scn], True)
        if verbose:
            print(f"persist_file={spelled!r} (cwd = the work directory, system temp directory on another file system); temp files created in "
                  f"{'the state file directory' if not outside else 'ANOTHER directory: ' + str([os.path.relpath(d, root) for d in outside])}; errors {errors[:2]};",
                  "file == memory" if which else "STALE: " + why)
        if which is None:
            ctx.fail(
                "C15:file-stale-at-quiescence:temp-file-outside-state-directory" if outside else "C15:file-stale-at-quiescence:no-save-scheduled",
                f"persist_file={spelled!r} ({scn['spelling']} spelling), the system temp directory is another file system than the "
                f"state file's directory (os.replace between them fails with EXDEV); {len(scn['ops'])} pairing change(s), all saves ended: "
                f"the state file is not the in-memory state: {why}; the save created its temp file in "
                f"{'the system temp directory, not beside the state file' if outside else 'the state directory'}; {errors[:2]}",
                replay,
            )
        elif left:
            ctx.fail("C15:handled-failure-leaves-temp-file", f"persist_file={spelled!r}: {len(left)} temp file(s) left after clean saves", replay)
    except Hung as ex:
        ctx.hung = True
        ctx.fail("C15:save-blocks-forever", f"spelling: {ex}", replay)
    finally:
        os.replace, os.rename, tempfile.NamedTemporaryFile = real_replace, real_rename, real_ntf
        tempfile.tempdir = old_tmp
        if old_home is None:
            os.environ.pop("HOME", None)
        else:
            os.environ["HOME"] = old_home
        os.chdir(old_cwd)
        try:
            loop.run_until_complete(asyncio.wait_for(loop.shutdown_default_executor(), 5))
        except Exception:  # noqa: BLE001
            pass
        loop.close()
        shutil.rmtree(root, ignore_errors=True)


def spelling_stream(ctx: Ctx):
    rng = ctx.rng
    for sp in ("bare", "dot", "relative", "absolute", "home"):
        _, ops = mk_ops(rng, 0, rng.randrange(1, 3))
        spelling_case(ctx, {"name": "spelling", "spelling": sp, "ops": ops, "config_changed": sp in ("bare", "relative")})
    for _ in range(ctx.n(3, 30)):
        _, ops = mk_ops(rng, 0, rng.randrange(0, 4))
        spelling_case(ctx, {"name": "spelling", "spelling": rng.choice(["bare", "dot", "relative", "absolute", "home"]), "ops": ops, "config_changed": rng.random() < 0.4})


# --------------------------------------------------------------------------- stream: lifecycle


def lifecycle_case(ctx: Ctx, scn: dict, verbose=False) -> None:
    """A driver that owns its event loop and its thread pool (no loop= argument), run through the public
    start() / stop().  The pool is sized by the driver from os.cpu_count() (scn["cpus"]: the board the
    accessory runs on); scn["blockers"] accessories of a bridge have an ordinary blocking run() (the
    documented alternative to `async def run`), each occupying a worker until its stop() is called and it
    has wound down (scn["wind_down"] seconds) - so the pool may be saturated when a pairing change submits
    its save, and the save job then sits in the pool's queue when stop() is called.  Pairing changes are made
    on the loop (as the request handler does), scn["settle"] says after which of them the pool is given time
    to run what it can.  Judged after start() has returned (the driver has stopped) and the pool's threads
    have ended: the state file equals the in-memory identity and pairing state."""
    if getattr(ctx, "hung", False):
        return
    ad, _, _ = _pyhap()
    from pyhap.accessory import Accessory, Bridge

    st = ctx.stats
    d = tempfile.mkdtemp(prefix="c15l-")
    path = os.path.join(d, STATE_FILE)
    replay = {"kind": "lifecycle", "scenario": scn}
    started = [0]
    slock = threading.Lock()

    class Blocking(Accessory):
        def __init__(self, *a, **kw):
            super().__init__(*a, **kw)
            self._bye = threading.Event()

        def run(self):  # an ordinary blocking method: runs in a worker of the driver's pool
            with slock:
                started[0] += 1
            self._bye.wait(HANG_S)
            time.sleep(scn["wind_down"])

        async def stop(self):
            self._bye.set()

    class Quiet(Bridge):
        def setup_message(self):
            pass

    real_cpu = os.cpu_count
    os.cpu_count = lambda: scn["cpus"]
    app_loop = app_pool = None
    try:
        kw = dict(
            persist_file=path, address="127.0.0.1", port=51840, mac="AA:BB:CC:DD:EE:10", pincode=b"031-45-154",
            async_zeroconf_instance=_FakeAdvertiser(),
        )
        if scn.get("app_loop"):
            # the application supplies the loop and its default pool (sized like the driver would) and stops both itself
            from concurrent.futures import ThreadPoolExecutor

            app_loop = asyncio.new_event_loop()
            app_pool = ThreadPoolExecutor()
            app_loop.set_default_executor(app_pool)
            kw["loop"] = app_loop
        driver = ad.AccessoryDriver(**kw)
    finally:
        os.cpu_count = real_cpu
    try:
        driver.http_server = _StubServer()
        saves: List[Any] = []  # the futures of the background saves (diagnostics for the failure message)
        orig_rie = driver.loop.run_in_executor

        def run_in_executor(executor, fn, *args):
            f = orig_rie(executor, fn, *args)
            if getattr(fn, "__name__", "") == "persist":
                saves.append(f)
            return f

        driver.loop.run_in_executor = run_in_executor
        bridge = Quiet(driver, "Bridge")
        for i in range(scn["blockers"]):
            bridge.add_accessory(Blocking(driver, f"Sensor {i}"))
        driver.add_accessory(bridge)
        workers = min(32, scn["cpus"] + 4)
        if app_loop is None:
            t = threading.Thread(target=driver.start, daemon=True)
            t.start()
        else:
            t = threading.Thread(target=app_loop.run_forever, daemon=True)
            t.start()
            driver.start_service()
        want = min(scn["blockers"], workers)
        deadline = time.monotonic() + HANG_S
        while started[0] < want and time.monotonic() < deadline:
            time.sleep(0.005)
        if started[0] < want:
            raise Hung("the accessories' run() methods were not started")
        trace = []
        for i, op in enumerate(scn["ops"]):
            done = threading.Event()
            box: Dict[str, Any] = {}

            def on_loop(op=op, done=done, box=box):
                try:
                    if op["op"] == "pair":
                        driver.pair(op["id"].encode(), bytes.fromhex(op["key"]), bytes([op["perm"]]))
                    elif op["op"] == "unpair":
                        if uuid.UUID(op["id"]) in driver.state.paired_clients:
                            driver.unpair(uuid.UUID(op["id"]))
                except Exception as ex:  # noqa: BLE001
                    box["ex"] = ex
                finally:
                    done.set()

            if op["op"] == "config_changed":  # from an application thread; saves synchronously
                th = threading.Thread(target=driver.config_changed, daemon=True)
                th.start()
                th.join(HANG_S)
            else:
                driver.loop.call_soon_threadsafe(on_loop)
                if not done.wait(HANG_S):
                    raise Hung("a pairing change handed to the loop was not run")
            trace.append(op["op"])
            if i in scn.get("settle", []):
                time.sleep(0.05)
        if app_loop is None:
            driver.stop()
            t.join(HANG_S)
            if t.is_alive():
                raise Hung("driver.start() did not return after stop()")
            if driver.executor is not None:
                driver.executor.shutdown(wait=True)  # whatever the pool still runs may finish; nothing is revived
        else:
            try:
                asyncio.run_coroutine_threadsafe(driver.async_stop(), app_loop).result(HANG_S)
            except Exception as ex:  # noqa: BLE001
                raise Hung(f"async_stop() did not return ({type(ex).__name__})") from None
            app_pool.shutdown(wait=True)  # the application lets its pool finish what it was given
            app_loop.call_soon_threadsafe(app_loop.stop)
            t.join(HANG_S)
            if not t.is_alive():
                app_loop.close()
        mem = ref.canon_state(driver.state)
        which, why = judge_file(path, [("memory", mem)])
        saturated = scn["blockers"] >= workers
        st.hit("op", "lifecycle-run")
        st.hit("outcome", f"lifecycle[pool={'saturated' if saturated else 'has-idle-workers'}]:file=" + ("memory" if which else "STALE"))
        st.case(["lifecycle", scn], saturated)
        if verbose:
            print(f"pool of {workers} workers, {scn['blockers']} blocking accessories; operations {trace}; stop(); start() returned;",
                  "file == memory" if which else "STALE: " + why)
        if which is None:
            ctx.fail(
                "C15:file-stale-after-driver-stopped",
                f"a driver {'on an application-supplied loop and pool' if app_loop is not None else 'owning its loop and pool'} ({workers} workers for {scn['cpus']} cpu(s), {scn['blockers']} accessories with a "
                f"blocking run()); operations {trace} on the loop, then stop(); after start() had returned and the pool's "
                f"threads had ended the state file is not the in-memory state "
                f"({sum(1 for f in saves if f.cancelled())} of {len(saves)} submitted background saves were cancelled, "
                f"{sum(1 for f in saves if not f.done())} never finished): {why}",
                replay,
            )
    except Hung as ex:
        ctx.hung = True
        ctx.fail("C15:save-blocks-forever", f"lifecycle: {ex}", replay)
    finally:
        shutil.rmtree(d, ignore_errors=True)


def lifecycle_stream(ctx: Ctx):
    rng = ctx.rng
    st = ctx.stats
    A = mk_ops(rng, 0, 1)[1][0]
    B = mk_ops(rng, 0, 1)[1][0]
    cases = []
    # the pool dimension: idle workers / exactly full / more blocking accessories than workers (queue non-empty)
    for cpus, blockers in ((1, 0), (1, 4), (1, 5), (1, 8), (2, 6), (2, 9)):
        cases.append({"cpus": cpus, "blockers": blockers, "wind_down": 0.05, "ops": [A], "settle": []})
    cases.append({"cpus": 1, "blockers": 7, "wind_down": 0.1, "ops": [A, B], "settle": []})
    cases.append({"cpus": 1, "blockers": 7, "wind_down": 0.05, "ops": [A, {"op": "unpair", "id": A["id"]}], "settle": [0]})
    cases.append({"cpus": 1, "blockers": 6, "wind_down": 0.05, "ops": [A, {"op": "config_changed"}, B], "settle": []})
    cases.append({"cpus": 1, "blockers": 6, "wind_down": 0.0, "ops": [A], "settle": []})
    cases.append({"cpus": 1, "blockers": 6, "wind_down": 0.05, "ops": [A], "settle": [], "app_loop": True})
    cases.append({"cpus": 1, "blockers": 0, "wind_down": 0.0, "ops": [A, B], "settle": [], "app_loop": True})
    if _lite(ctx):
        cases = cases[2:5]
    for n in range(ctx.n(4, 60)):
        cpus = rng.choice([1, 1, 2, 4])
        workers = min(32, cpus + 4)
        _, ops = mk_ops(rng, 0, rng.randrange(1, 4))
        if rng.random() < 0.3:
            ops.insert(rng.randrange(len(ops) + 1), {"op": "config_changed"})
        cases.append({
            "cpus": cpus, "blockers": rng.choice([0, workers - 1, workers, workers + 1, workers + 3]),
            "wind_down": rng.choice([0.0, 0.02, 0.08]), "ops": ops,
            "settle": [i for i in range(len(ops)) if rng.random() < 0.3],
            "app_loop": rng.random() < 0.25,
        })
    for scn in cases:
        lifecycle_case(ctx, dict(scn, name="lifecycle"))
    st.sample({"stream": "lifecycle", "example": {k: v for k, v in cases[0].items() if k != "ops"}, "meaning": "driver owning loop + pool, pool sized for `cpus`, `blockers` accessories with a blocking run(); pairing change on the loop; stop(); judged after start() returned"})


# --------------------------------------------------------------------------- stream: natural


def natural_case(ctx: Ctx, scn: dict, ops: List[dict], jitter: Dict[str, float], gaps: List[float], verbose=False):
    """driver.pair()/unpair() back to back on a running loop, jobs free-running in the default executor."""
    if getattr(ctx, "hung", False):
        return True
    st = ctx.stats
    jit = {}
    for k, d in jitter.items():
        j, p, n = k.split(":")
        jit[(int(j), p, int(n))] = d
    ctl = Ctl(forced=False, jitter=jit)
    rig = Rig(ctl, scn["initial"], with_loop=True, write_initial=True)
    replay = {"kind": "natural", "scenario": scn, "ops": ops, "jitter": jitter, "gaps": gaps}
    try:
        with rig.hooks:

            async def go():
                for op, gap in zip(ops, gaps):
                    if op["op"] == "pair":
                        rig.driver.pair(op["id"].encode(), bytes.fromhex(op["key"]), bytes([op["perm"]]))
                    else:
                        rig.driver.unpair(uuid.UUID(op["id"]))
                    await asyncio.sleep(gap)

            rig.loop.run_until_complete(go())
            rig.drain()
        mem = ref.canon_state(rig.state)
        which, why = judge_file(rig.path, [("memory", mem)])
        if which is None:
            ctx.fail(
                "C15:file-stale-after-interleaved-saves",
                f"pair/unpair x{len(ops)} on a running loop, background jobs finished, but the state file is not the in-memory state: {why}",
                replay,
            )
        st.hit("op", "natural-run")
        st.hit("outcome", "natural:file=" + ("memory" if which else "STALE"))
        order = [j for j, p, _ in rig.hooks.log if p == "replace"]
        st.case(["natural", scn["name"], ops, jitter], order != sorted(order) or len(ops) > 1)
        if verbose:
            print("replace order of the jobs:", order, "->", "file == memory" if which else "STALE: " + why)
        return which is not None
    except Hung as ex:
        ctx.hung = True
        ctx.fail("C15:save-blocks-forever", f"natural run: {ex}", replay)
        return False
    finally:
        rig.hooks.uninstall()
        rig.close()


def natural_stream(ctx: Ctx):
    rng = ctx.rng
    for n in range(ctx.n(25, 300)):
        i0, ops = mk_ops(rng, rng.randrange(0, 3), rng.randrange(2, 5))
        jitter = {}
        for j in range(len(ops)):
            if rng.random() < 0.6:
                p = rng.choice(["mktemp", "snapshot", "write", "close", "replace", "exists"])
                jitter[f"{j}:{p}:1"] = rng.choice([0.001, 0.003, 0.006])
        gaps = [rng.choice([0.0, 0.0, 0.0005, 0.002]) for _ in ops]
        natural_case(ctx, {"name": f"natural-{n}", "initial": i0}, ops, jitter, gaps)


# --------------------------------------------------------------------------- stream: public


class _FakeAdvertiser:
    """Stands in for AsyncZeroconf (public constructor parameter): nothing goes on the network."""

    async def async_register_service(self, info, cooperating_responders=False):
        return None

    async def async_update_service(self, info):
        return None

    gate = None  # an asyncio.Event while a shutdown is held in its mDNS goodbye

    async def async_unregister_service(self, info):
        if self.gate is not None:
            await self.gate.wait()
        return None

    async def async_close(self):
        return None


class _StubServer:
    """Stands in for the listening socket only; request handling uses the real HAPServerHandler."""

    async def async_start(self, loop):
        return None

    def async_stop(self):
        return None


def _ctrl_pub(seed_hex: str) -> bytes:
    from ref import c14_pairverify as pv

    return pv.controller_key(bytes.fromhex(seed_hex))[1]


class PublicRig:
    """A real driver + accessory on a real loop; every state change goes through the real request
    handler (pair-verify, add/remove pairing) or a public driver method (pair as pair-setup M5
    does, config_changed, async_start).  Nothing here calls persist: the code under check must
    schedule its own saves.  No wrappers are installed."""

    def __init__(self, scn: dict):
        ad, _, _ = _pyhap()
        from pyhap.accessory import Accessory

        self.dir = tempfile.mkdtemp(prefix="c15p-")
        self.path = os.path.join(self.dir, STATE_FILE)
        if scn.get("file"):
            self._write_file(scn)
        self.loop = asyncio.new_event_loop()
        self.submitted = 0
        self.futs: List[Any] = []
        orig = self.loop.run_in_executor

        # how the pool treats a job handed to it (all three are legal schedules of a thread pool):
        #   free  - as it comes;  eager - the worker runs the whole job before the submitting (loop) thread
        #   executes its next statement;  late - the job starts only when the loop has gone idle
        self.mode = scn.get("executor", "free")
        self.release = threading.Event()
        self.sites: set = set()
        self.stuck = False

        def run_in_executor(executor, fn, *args):
            self.submitted += 1
            self._note_site(sys._getframe(1))
            if self.mode == "eager":
                done = threading.Event()

                def job():
                    try:
                        return fn(*args)
                    finally:
                        done.set()

                f = orig(executor, job)
                self.futs.append(f)
                if not done.wait(HANG_S):
                    self.stuck = True
                return f
            if self.mode == "late":

                def job():
                    self.release.wait(HANG_S)
                    return fn(*args)

                f = orig(executor, job)
            else:
                f = orig(executor, fn, *args)
            self.futs.append(f)
            return f

        self.loop.run_in_executor = run_in_executor
        self._rie = orig  # for the harness's own waiting, not counted as a save
        from concurrent.futures import ThreadPoolExecutor

        self.helper = ThreadPoolExecutor(2)
        self.adv = _FakeAdvertiser()
        self.stop_task = None
        self.driver = ad.AccessoryDriver(
            loop=self.loop, persist_file=self.path, address="127.0.0.1", port=51826, mac="AA:BB:CC:DD:EE:FF",
            pincode=b"031-45-154", async_zeroconf_instance=self.adv,
        )
        self.driver.http_server = _StubServer()
        self.driver.add_accessory(Accessory(self.driver, "Lamp"))  # loads the file, or stores a first one
        self.state = self.driver.state
        self.threads: List[threading.Thread] = []
        self.port = 50000
        self.started = False

    def _write_file(self, scn):
        """A state file written by an earlier run; 'legacy' = from a version that did not store the
        identifier bytes (no client_uuid_to_bytes member)."""
        from cryptography.hazmat.primitives import serialization as ser
        from cryptography.hazmat.primitives.asymmetric import ed25519

        sk = ed25519.Ed25519PrivateKey.from_private_bytes(bytes.fromhex(scn["accessory_seed"]))
        doc = {
            "mac": "AA:BB:CC:DD:EE:FF",
            "config_version": 3,
            "paired_clients": {str(uuid.UUID(c["id"])): _ctrl_pub(c["seed"]).hex() for c in scn["initial"]},
            "client_properties": {str(uuid.UUID(c["id"])): {"permissions": c["perm"]} for c in scn["initial"]},
            "accessories_hash": None,
            "private_key": sk.private_bytes(ser.Encoding.Raw, ser.PrivateFormat.Raw, ser.NoEncryption()).hex(),
            "public_key": sk.public_key().public_bytes(ser.Encoding.Raw, ser.PublicFormat.Raw).hex(),
        }
        if scn["file"] != "legacy":
            doc["client_uuid_to_bytes"] = {str(uuid.UUID(c["id"])): c["id"].encode().hex() for c in scn["initial"]}
        with open(self.path, "w", encoding="utf8") as fh:
            json.dump(doc, fh)

    # -- requests on one connection
    def _handler(self):
        from pyhap import hap_handler

        self.port += 1
        return hap_handler.HAPServerHandler(self.driver, ("127.0.0.1", self.port))

    @staticmethod
    def _post(h, target: str, body: bytes):
        import h11

        r = h.dispatch(h11.Request(method="POST", target=target, headers=[("Host", "lamp")]), body)
        return r.status_code, bytes(r.body)

    def session(self, who: dict):
        """A connection on which controller `who` has completed pair-verify (None if refused)."""
        from ref import c14_pairverify as pv

        h = self._handler()
        res = pv.pair_verify(
            lambda b: self._post(h, "/pair-verify", b), who["id"].encode(), bytes.fromhex(who["seed"]),
            bytes.fromhex(ref.canon_state(self.state)["public_key"]), self.state.mac.encode(),
        )
        return (h if res == "verified" else None), res

    def do(self, op: dict) -> str:
        """One operation, on the loop thread (called from inside a coroutine)."""
        from ref import tlv8

        k = op["op"]
        if k == "setup":  # what the last step of pair-setup does
            self.driver.pair(op["id"].encode(), _ctrl_pub(op["seed"]), bytes([op["perm"]]))
            return "paired"
        if k == "verify":
            return self.session(op["who"])[1]
        if k in ("add", "remove"):
            h, res = self.session(op["actor"])
            if h is None:
                return "actor-not-verified:" + res
            if k == "add":
                body = tlv8.encode([(0, b"\x03"), (1, op["id"].encode()), (3, _ctrl_pub(op["seed"])), (11, bytes([op["perm"]]))])
            else:
                body = tlv8.encode([(0, b"\x04"), (1, op["id"].encode())])
            code, rb = self._post(h, "/pairings", body)
            d = tlv8.merge_dict(tlv8.decode_list(rb)) if code == 200 else {}
            return "ack" if code == 200 and 7 not in d else f"refused:{code}:{d.get(7, b'').hex()}"
        if k == "config_changed":  # called from some other thread, as applications do
            t = threading.Thread(target=self.driver.config_changed, daemon=True)
            t.start()
            self.threads.append(t)
            return "called"
        raise ValueError(k)

    def _note_site(self, frame):
        """Which function of the code under check asked for this background save."""
        pdir = _pyhap_dir()
        while frame is not None:
            co = frame.f_code
            if co.co_filename.startswith(pdir) and co.co_name not in ("async_persist", "persist"):
                self.sites.add(f"{os.path.basename(co.co_filename)}:{co.co_name}")
                return
            frame = frame.f_back

    async def do_async(self, op: dict) -> str:
        k = op["op"]
        if k == "start":
            return await self.start()
        if k == "stop_begin":  # async_stop() runs up to its mDNS goodbye and stays there
            if self.stop_task is not None:
                return "already-stopping"
            if not self.started:
                await self.start()
            self.adv.gate = asyncio.Event()
            self.stop_task = self.loop.create_task(self.driver.async_stop())
            await asyncio.sleep(0)
            await asyncio.sleep(0)
            return "stopping"
        if k == "stop_end":  # the goodbye is out: async_stop() runs to its end
            if self.stop_task is None:
                return "not-stopping"
            self.adv.gate.set()
            await asyncio.wait_for(self.stop_task, HANG_S)
            self.stop_task = None
            self.adv.gate = None
            return "stopped"
        return self.do(op)

    async def start(self):
        import contextlib
        import io

        if self.started:
            return "already"
        self.started = True
        with contextlib.redirect_stdout(io.StringIO()):  # the setup message / QR code
            await self.driver.async_start()
        return "started"

    async def quiesce(self):
        """Everything the code under check has scheduled has run: executor jobs, threads, callbacks."""
        if self.stuck:
            raise Hung("a background save did not finish")
        self.release.set()
        try:
            await self._quiesce()
        finally:
            self.release.clear()

    async def _quiesce(self):
        for _ in range(50):
            n = len(self.futs)
            if self.futs:
                await asyncio.wait_for(asyncio.gather(*self.futs, return_exceptions=True), HANG_S)
            for t in self.threads:
                await self._rie(self.helper, t.join, HANG_S)
                if t.is_alive():
                    raise Hung("config_changed() did not return")
            self.futs = [f for f in self.futs if not f.done()]
            self.threads = [t for t in self.threads if t.is_alive()]
            await asyncio.sleep(0)
            await asyncio.sleep(0)
            if not self.futs and not self.threads and n == 0:
                return
        raise Hung("the loop never became idle")

    def file_id(self):
        try:
            st_ = os.stat(self.path)
            return (st_.st_ino, st_.st_mtime_ns, st_.st_size)
        except FileNotFoundError:
            return None

    def close(self):
        try:
            if not self.loop.is_closed():
                try:
                    pend = [t for t in asyncio.all_tasks(self.loop) if not t.done()]
                    for t in pend:
                        t.cancel()
                    if pend:
                        self.loop.run_until_complete(asyncio.gather(*pend, return_exceptions=True))
                    self.loop.run_until_complete(asyncio.wait_for(self.loop.shutdown_default_executor(), 5))
                except Exception:  # noqa: BLE001
                    pass
                self.loop.close()
        finally:
            self.helper.shutdown(wait=False)
            shutil.rmtree(self.dir, ignore_errors=True)


def public_case(ctx: Ctx, scn: dict, ops: List[dict], verbose=False, count=True) -> bool:
    """Run the operations back to back (op["settle"]: wait for quiescence after it), then let loop and
    default executor drain and judge: file == in-memory identity + pairing state.  True = holds."""
    if getattr(ctx, "hung", False):
        return True
    st = ctx.stats
    rig = PublicRig(scn)
    replay = {"kind": "public", "scenario": scn, "ops": ops}
    trace = []
    try:

        async def go():
            last_change = None  # (index, op kind, whether a save was seen for it)
            for i, op in enumerate(ops):
                before = ref.canon_state(rig.state)
                sub0, fid0 = rig.submitted, rig.file_id()
                res = await rig.do_async(op)
                if op["op"] == "config_changed":
                    for t in list(rig.threads):  # its save is synchronous: wait for the call itself
                        await rig._rie(rig.helper, t.join, HANG_S)
                changed = ref.canon_state(rig.state) != before
                # a save was scheduled for this operation: a job went to the executor; config_changed saves
                # synchronously, visible only as a replaced file
                saved = rig.submitted != sub0 or (op["op"] == "config_changed" and rig.file_id() != fid0)
                trace.append({"op": op["op"], "result": res, "state_changed": changed, "save_scheduled": saved})
                if changed:
                    last_change = (i, op["op"], saved)
                if count:
                    st.hit("op", "public:" + op["op"])
                if op.get("settle"):
                    await rig.quiesce()
            if rig.stop_task is not None:
                trace.append({"op": "stop_end", "result": await rig.do_async({"op": "stop_end"})})
            await rig.quiesce()
            return last_change

        last_change = rig.loop.run_until_complete(go())
        if count:
            ctx.public_sites = getattr(ctx, "public_sites", set()) | rig.sites
            if not scn.get("file"):
                ctx.public_sites.add("accessory_driver.py:add_accessory")
            if any(o["op"] == "config_changed" for o in ops):
                ctx.public_sites.add("accessory_driver.py:config_changed")
        mem = ref.canon_state(rig.state)
        which, why = judge_file(rig.path, [("memory", mem)])
        if count:
            st.hit("outcome", f"public[{rig.mode}]:file=" + ("memory" if which else "STALE"))
            st.case(["public", scn, ops], any(t.get("state_changed") for t in trace))
        if verbose:
            for t in trace:
                print("  ", t)
            print("at quiescence:", "file == memory" if which else "STALE: " + why)
        if which is None:
            no_save = last_change is not None and not last_change[2]
            early = last_change is not None and last_change[2] and rig.mode == "eager"
            sig = (
                "C15:file-stale-at-quiescence:no-save-scheduled" if no_save
                else "C15:file-stale-at-quiescence:save-scheduled-before-change" if early
                else "C15:file-stale-after-interleaved-saves"
            )
            desc = (
                f"operations {[o['op'] for o in ops]} through the request handler / driver"
                + (f" (pool schedule: {rig.mode})" if rig.mode != "free" else "") + ", loop and executor drained"
                + (f"; operation {last_change[0]} ({last_change[1]}) changed the in-memory state and no save was scheduled for it" if no_save else "")
                + (f"; operation {last_change[0]} ({last_change[1]}) handed its save to the pool, the worker ran it at once, and the state was changed only afterwards" if early else "")
                + f": the state file is not the in-memory state: {why}"
            )
            if count:
                ctx.fail(sig, desc, replay)
            return False
        return True
    except Hung as ex:
        ctx.hung = True
        ctx.fail("C15:save-blocks-forever", f"public operations {[o['op'] for o in ops]}: {ex}", replay)
        return True
    finally:
        rig.close()


def _mk_ctrl(rng, admin: bool, upper=None) -> dict:
    u = str(uuid.UUID(int=rng.getrandbits(128), version=4))
    if upper if upper is not None else rng.random() < 0.5:
        u = u.upper()
    return {"id": u, "seed": bytes(rng.getrandbits(8) for _ in range(32)).hex(), "perm": 1 if admin else 0}


def _other_spelling(idtext: str) -> str:
    return idtext.lower() if idtext != idtext.lower() else idtext.upper()


def gen_public_ops(rng, initial: List[dict], n: int) -> List[dict]:
    """Random operations that change the persisted state, built against the generator's own record of
    the pairings (last-admin rule included) so that most of them take effect."""
    present: Dict[str, dict] = {str(uuid.UUID(c["id"])): dict(c) for c in initial}
    ops: List[dict] = []
    started = False

    def admins():
        return [c for c in present.values() if c["perm"] & 1]

    for _ in range(n):
        r = rng.random()
        if not admins():
            c = _mk_ctrl(rng, True)  # nobody can administer any more: a new pair-setup
            present[str(uuid.UUID(c["id"]))] = dict(c)
            ops.append(dict(c, op="setup"))
        elif r < 0.18:
            c = _mk_ctrl(rng, rng.random() < 0.4)
            actor = rng.choice(admins())
            present[str(uuid.UUID(c["id"]))] = dict(c)
            ops.append(dict(c, op="add", actor=dict(actor)))
        elif r < 0.58:
            actor = rng.choice(admins())
            tgt = dict(rng.choice(sorted(present.values(), key=lambda c: c["id"])))
            how = rng.choice(["perm", "perm", "key", "spelling"])
            if how == "perm":
                tgt["perm"] ^= 1
            elif how == "key":
                tgt["seed"] = bytes(rng.getrandbits(8) for _ in range(32)).hex()
            else:
                tgt["id"] = _other_spelling(tgt["id"])
            ops.append(dict(tgt, op="add", actor=dict(actor)))
            present[str(uuid.UUID(tgt["id"]))] = dict(tgt)
        elif r < 0.75:
            actor = rng.choice(admins())
            tgt = rng.choice(sorted(present.values(), key=lambda c: c["id"]))
            ops.append({"op": "remove", "id": tgt["id"], "actor": dict(actor)})
            del present[str(uuid.UUID(tgt["id"]))]
            if not admins():
                present.clear()
        elif r < 0.83:
            ops.append({"op": "verify", "who": dict(rng.choice(sorted(present.values(), key=lambda c: c["id"])))})
        elif r < 0.93 or started:
            ops.append({"op": "config_changed"})
        else:
            started = True
            ops.append({"op": "start"})
        if rng.random() < 0.35:
            ops[-1]["settle"] = True
    return ops


def gen_stop_window(rng, present_ops: List[dict]) -> List[dict]:
    """A shutdown during which one or two more pairing requests are served (async_stop() is waiting for its
    mDNS goodbye while the listening socket and the open sessions still work)."""
    return [{"op": "stop_begin"}] + present_ops + [{"op": "stop_end"}]


def public_cases(ctx: Ctx) -> List[Tuple[dict, List[dict]]]:
    rng = ctx.rng
    acc_seed = bytes(rng.getrandbits(8) for _ in range(32)).hex()
    A = _mk_ctrl(rng, True, upper=True)
    B = _mk_ctrl(rng, True, upper=True)
    C = _mk_ctrl(rng, False, upper=False)
    fresh = {"name": "fresh", "file": None}
    S = {"settle": True}
    setupA = dict(A, op="setup", **S)

    def add(c, actor=A, **kw):
        return dict(dict(c, **kw), op="add", actor=dict(actor))

    cases: List[Tuple[dict, List[dict]]] = [
        # a saved controller is re-added with the same key and other permissions (demote / promote)
        (fresh, [setupA, dict(add(B), **S), add(B, perm=0)]),
        (fresh, [setupA, dict(add(C), **S), add(C, perm=1)]),
        (fresh, [setupA, add(B), add(B, perm=0)]),
        # ... with another long-term key / another spelling of the identifier
        (fresh, [setupA, dict(add(B), **S), add(B, seed=C["seed"])]),
        (fresh, [setupA, dict(add(C), **S), add(C, id=_other_spelling(C["id"]))]),
        (fresh, [setupA, add(A, id=_other_spelling(A["id"]))]),
        # removal; removal of the only admin while users exist (sweeps every pairing)
        (fresh, [setupA, dict(add(C), **S), {"op": "remove", "id": C["id"], "actor": dict(A)}]),
        (fresh, [setupA, add(C), dict(add(dict(C, id=str(uuid.UUID(int=7)))), **S), {"op": "remove", "id": A["id"], "actor": dict(A)}]),
        # configuration changes through the driver
        (fresh, [setupA, {"op": "config_changed"}]),
        (fresh, [{"op": "start"}]),
        (fresh, [setupA, {"op": "start"}, {"op": "config_changed"}, add(B)]),
    ]
    # requests served while the driver is shutting down (between stop_event.set() and the end of async_stop)
    rmC = {"op": "remove", "id": C["id"], "actor": dict(A)}
    cases += [
        (fresh, [setupA, dict(add(C), **S), dict({"op": "start"}, **S)] + gen_stop_window(rng, [rmC])),
        (fresh, [setupA, dict(add(C), **S)] + gen_stop_window(rng, [{"op": "remove", "id": A["id"], "actor": dict(A)}])),
        (fresh, [setupA, dict({"op": "start"}, **S)] + gen_stop_window(rng, [add(B), add(B, perm=0)])),
        (fresh, [setupA] + gen_stop_window(rng, [{"op": "config_changed"}])),
    ]
    for kind in ("legacy", "modern"):
        scn = {"name": kind + "-file", "file": kind, "accessory_seed": acc_seed, "initial": [A, C]}
        cases += [
            (scn, [{"op": "verify", "who": dict(C)}]),  # back-fill of the identifier bytes after pair-verify
            (scn, [{"op": "verify", "who": dict(A)}, {"op": "verify", "who": dict(C)}]),
            (scn, [add(B), add(C, perm=1)]),
            (scn, [{"op": "start"}]),
            (scn, gen_stop_window(rng, [{"op": "verify", "who": dict(C)}])),
        ]
    # every fixed sequence under each pool schedule: as it comes / the worker runs the job before the
    # submitting thread's next statement / jobs start only once the loop is idle
    cases = [(dict(scn, executor=m), ops) for scn, ops in cases for m in ("free", "eager", "late")]
    for n in range(ctx.n(30, 400)):
        if rng.random() < 0.3:
            init = [_mk_ctrl(rng, True)] + [_mk_ctrl(rng, rng.random() < 0.3) for _ in range(rng.randrange(0, 3))]
            scn = {"name": f"random-{n}", "file": rng.choice(["legacy", "modern"]), "accessory_seed": acc_seed, "initial": init}
        else:
            init, scn = [], {"name": f"random-{n}", "file": None}
        scn["executor"] = rng.choice(["free", "free", "eager", "late"])
        ops = gen_public_ops(rng, init, rng.randrange(2, 7))
        if rng.random() < 0.25:
            k = rng.randrange(0, min(2, len(ops)) + 1)
            tail = [o for o in ops[len(ops) - k:] if o["op"] not in ("start",)]
            ops = ops[: len(ops) - k] + gen_stop_window(rng, [{kk: v for kk, v in o.items() if kk != "settle"} for o in tail])
        cases.append((scn, ops))
    return cases


def save_sites_in_source() -> List[str]:
    """Functions of pyhap that ask for a save (call .persist() / .async_persist() on something that is
    not the encoder), found by walking the syntax trees."""
    import ast

    out = set()
    pdir = _pyhap_dir()
    for name in sorted(os.listdir(pdir)):
        if not name.endswith(".py"):
            continue
        try:
            with open(os.path.join(pdir, name), "r", encoding="utf8") as fh:
                tree = ast.parse(fh.read())
        except (OSError, SyntaxError):
            continue
        for fn in ast.walk(tree):
            if not isinstance(fn, (ast.FunctionDef, ast.AsyncFunctionDef)):
                continue
            for node in ast.walk(fn):
                if (
                    isinstance(node, ast.Call) and isinstance(node.func, ast.Attribute)
                    and node.func.attr in ("persist", "async_persist")
                    and not (isinstance(node.func.value, ast.Attribute) and node.func.value.attr == "encoder")
                    and not (isinstance(node.func.value, ast.Name) and node.func.value.id == "encoder")
                ):
                    out.add(f"{name}:{fn.name}")
    return sorted(out)


def public_stream(ctx: Ctx):
    st = ctx.stats
    sampled = False
    for scn, ops in public_cases(ctx):
        ok = public_case(ctx, scn, ops)
        if not ok and len(ops) > 1:
            # shrink the operation list of the (single kept) failure of this shape
            f = ctx.failures[-1]
            if f.replay.get("ops") == ops:
                small = delta_min(ops, lambda cand: not public_case(ctx, scn, cand, count=False), max_steps=60)
                if len(small) < len(ops):
                    f.replay = {"kind": "public", "scenario": scn, "ops": small}
                    f.description = f"(minimised to {[o['op'] for o in small]}) " + f.description
        if ok and not sampled and len(ops) >= 3:
            sampled = True
            st.sample({"stream": "public", "scenario": scn["name"], "ops": [{k: (v if k != "actor" else v["id"][:8]) for k, v in o.items() if k != "seed"} for o in ops], "at_quiescence": "file == memory"}, limit=8)
    src = save_sites_in_source()
    seen = sorted(getattr(ctx, "public_sites", set()))
    st.notes.append(
        f"save-scheduling sites in the source: {src}; driven by the public stream in this run: {seen}; "
        f"not driven: {sorted(set(src) - set(seen)) or 'none'}"
    )


# --------------------------------------------------------------------------- entry points


def _run_models(ctx: Ctx, model_cases: list):
    st = ctx.stats
    if not model_cases:
        return
    answers = run_model("C15", [mc["line"] for mc in model_cases])
    shown = set()
    for mc, ans in zip(model_cases, answers):
        st.traces_validated += 1
        if "fatal" in ans:
            ctx.disagree(mc["stream"], mc["case"], ans, None)
            continue
        d = compare_model(mc, ans, mc["target"], mc["temps"], crash=mc["crash"])
        if d is not None:
            ctx.disagree(mc["stream"], mc["case"], d, {"target": _short(mc["target"]), "temps": len(mc["temps"])})
        elif mc["stream"] not in shown and len(mc["names"]) > 6:
            shown.add(mc["stream"])
            st.sample({"stream": mc["stream"] + " (model agrees)", "case": mc["case"], "model_steps": [s for s in ans["steps"] if not s.endswith(":write")][:24], "model_jobs": ans["jobs"], "model_temps": len(ans["temps"])}, limit=8)


def run(ctx: Ctx):
    assert os.name == "posix", "C15 is checked on POSIX only"
    logging.disable(logging.CRITICAL)
    ctx.assumptions.extend(ASSUMPTIONS)
    st = ctx.stats
    st.rule = (
        "crash: every source-line event k of a save (pyhap frames + json.dump) in each scenario; fault: every k-th "
        "call of each wrapped I/O function, pairs (save fault x cleanup fault), random fault sequences over "
        "consecutive saves; schedule: all (pause point of job 0) x (pause point of job 1) x (finishing order) over 9 "
        "pause points per job through driver.pair/unpair on a real loop + default executor, then random 3-4-job "
        "schedules; natural: free-running pair/unpair bursts with seeded jitter; public: fixed boundary sequences "
        "(permission-only / key / spelling re-add of a stored controller, removal, last-admin sweep, pair-verify "
        "back-fill on a legacy file, config_changed, async_start) then random sequences of 2-6 such operations "
        "through the real handler, judged at quiescence. Non-trivial: the crash happened "
        "before the save completed / a fault actually fired / a job was run while another was parked mid-save / "
        "more than one background job / an operation changed the in-memory state. midread: a save parked before each "
        "attribute read x {pair, unpair, last-admin sweep}, a change parked before each store x a concurrent save, random "
        "mixes; twin: two drivers in one directory; lifecycle: own loop + pool sized for 1/2/4 cpus x 0..workers+3 blocking "
        "accessories x pairing changes, then stop(), judged after start() returned. Distinct by scenario + crash point / fault list / command list."
    )
    model_cases: list = []
    try:
        # crash first: fork wants a single-threaded parent
        for scn in crash_scenarios(ctx):
            total = crash_scenario(ctx, scn, model_cases)
            st.notes.append(
                f"crash[{scn['name']}]: {total} source-line events inside one save "
                f"({'all Python frames incl. stdlib' if scn.get('deep') else 'pyhap frames + json.dump'}), "
                + ("each tried" if int(scn.get("stride", 1)) == 1 else f"every {scn['stride']}th tried from {scn['offset']}")
            )
        fault_stream(ctx, model_cases)
        schedule_stream(ctx, model_cases)
        midread_stream(ctx, model_cases)
        twin_stream(ctx, model_cases)
        lifecycle_stream(ctx)
        spelling_stream(ctx)
        natural_stream(ctx)
        public_stream(ctx)
        _run_models(ctx, model_cases)
    finally:
        logging.disable(logging.NOTSET)
    st.notes.append(
        "runtime aspects outside the model and the check: power loss / fsync, non-POSIX rename semantics (see assumptions)"
    )


def search(ctx: Ctx):
    """Deeper oracle-only search: thorough-size schedule and natural streams."""
    saved = ctx.tier
    ctx.tier = "thorough"
    logging.disable(logging.CRITICAL)
    try:
        sink: list = []
        for scn in crash_scenarios(ctx):
            if threading.active_count() == 1:  # fork wants a single-threaded parent
                crash_scenario(ctx, scn, sink)
        schedule_stream(ctx, sink)
        midread_stream(ctx, sink)
        lifecycle_stream(ctx)
        natural_stream(ctx)
        public_stream(ctx)
        fault_stream(ctx, sink)
    finally:
        logging.disable(logging.NOTSET)
        ctx.tier = saved


def replay(ctx: Ctx, r):
    logging.disable(logging.CRITICAL)
    sink: list = []
    kind = r.get("kind")
    if kind == "crash":
        crash_scenario(ctx, r["scenario"], sink, only_k=r["k"], verbose=True)
    elif kind == "fault":
        fault_case(ctx, r["scenario"], r["saves"], sink, verbose=True)
    elif kind == "schedule":
        schedule_case(ctx, r["scenario"], r["cmds"], sink, timeout=0.5, faults=tuple(tuple(f) for f in r.get("faults", [])), verbose=True, stop_after=r.get("stop_after"))
    elif kind == "public":
        public_case(ctx, r["scenario"], r["ops"], verbose=True)
    elif kind == "twin":
        twin_case(ctx, r["scenario"], verbose=True)
    elif kind == "lifecycle":
        lifecycle_case(ctx, r["scenario"], verbose=True)
    elif kind == "spelling":
        spelling_case(ctx, r["scenario"], verbose=True)
    elif kind == "natural":
        for _ in range(20):  # timing dependent: try a few times
            if not natural_case(ctx, r["scenario"], r["ops"], r["jitter"], r["gaps"], verbose=True):
                break
    else:
        print("nothing to replay on the implementation:", r.get("signature", kind))
        for k in ("broken_proof_obligations", "correspondence_disagreements"):
            if r.get(k):
                print(k, json.dumps(r[k], indent=1)[:2000])
        return 1
    for f in ctx.failures:
        print("FAILS:", f.signature, f.description)
    print("verdict:", "property violated on this input" if ctx.failures else "holds on this input")
    return 1 if ctx.failures else 0
